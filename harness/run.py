"""./check Cxx ... -> harness/vf/props/cxx.py"""
import importlib
import os
import sys

sys.path.insert(0, os.path.dirname(os.path.abspath(__file__)))

def main(argv):
    if not argv:
        print("usage: check Cxx [--tier quick|thorough] [--replay path]", file=sys.stderr)
        return 2
    pid = argv[0].upper()
    from vf import core
    try:
        mod = importlib.import_module(f"vf.props.{pid.lower()}")
    except ModuleNotFoundError as e:
        print(f"no check for {pid}: {e}", file=sys.stderr)
        return 2
    return core.cli(mod.PROP, argv[1:])

if __name__ == "__main__":
    sys.exit(main(sys.argv[1:]))
