"""Shared by C07 and C08: drives the REAL CoherentFeedForwardLoop from protocol lines.

Protocol (one observation per line; identical lines go to the Lean driver Operon/Model/CfflDrv.lean):
  cfg <gate> <breakerOn> <threshold> <timeoutUs> <cacheOn> <ttlUs> [<budget> [stub|real]]   -> ok
      (budget = initial ATP of the shared store, default ample; `real` = the built-in BioAgent executor/assessor
       of core/agent.py are kept (wrapped by a recorder) instead of being replaced by stubs)
  run <pid|u<pid>> <zVerdict|exc..> <yVerdict|exc..>                    -> <result> ; <stats>
      agent exceptions: exc = RuntimeError("stub agent failure"); excK = KeyError() (no arguments); excR = an Exception
      whose __repr__ raises (str() works); excS = an Exception whose __str__ raises ("unprintable": the handler of run()
      renders it with a placeholder - before the fix: commit run() raised the rendering error, ValueError); excB = a
      BaseException that is not an Exception (run() does not catch it: AgentAbort)
      u:<VERDICT> = the agent answers VERDICT with a payload whose __str__ raises (ActionProtein.payload is `Any`): the
      gate / the console output render it with a placeholder (before the fix: commit _apply_gate_logic raised ValueError
      outside run()'s handler, and _print_result at the very end of run())
  adv <us> | resetcb | clearcache                                       -> - ; <stats>
  set gate|cache|ttl|breaker|thr|tmo <value> | set agents 0             -> - ; <stats>
      a public attribute of the LIVE loop is re-assigned (gate_logic, enable_cache, cache_ttl, enable_circuit_breaker,
      failure_threshold, recovery_timeout; `agents`: fresh stub objects, same names, to loop.executor / loop.assessor)
  set silent 0|1                                                        -> - ; <stats>     loop.silent re-assigned: console
      output on / off (the harness swallows stdout); no observation may depend on it
  set onblock|onpermit none|ok|raise                                    -> - ; <stats>
      loop.on_block / loop.on_permit re-assigned: None, a callable that returns, a callable that raises HookError.
      When a callback raises, run() raises; the observation is then the result the callback was GIVEN followed by
      `!HookError` (that result was produced, logged and cached - and on_permit was told the request passes).
  nest <p1> <z1> <y1> <w1> <d1> [<p2> <z2> <y2> <w2> <d2> ...]         -> <result1> | <result2> | ... ; <stats>
      overlapping requests on the CURRENT loop (up to 4 levels): request i is issued with prompt p_i; while its
      executor (w_i = e) / assessor (w_i = a) is being consulted - before that agent spends energy and answers
      z_i / y_i - request i+1 is issued on the same loop (re-entrantly; w_i = E / A: by a second thread while the
      agent waits for it) and then the clock advances by d_i us (a slow agent).  result_i = `-` when request i was
      never issued (an outer request was answered by the breaker or the cache, or its hosting agent was not reached).
result = action success blocked tokenPid|none issuer|- cached [!HookError]       (or raise:<Class>)
stats  = execCalls assessCalls spent state failures successes lastFailureUs|none lastSuccessUs|none trips
         totalErrors cacheSize totalRequests totalBlocked totalPermitted resultsLogLength onBlockCalls onPermitCalls

The executor / assessor are stub objects assigned to `loop.executor` / `loop.assessor` (public attributes).  A stub
spends energy exactly as the real BioAgent does: `store.consume(cost=10)` first, and when that is refused it
answers FAILURE ("Apoptosis: Insufficient ATP") instead of its scripted behaviour.  The proteins it returns have
every optional field populated adversarially (source_agent None / empty / the other agent's name / a stranger,
odd payloads, confidences outside [0,1]) — none of that may influence the guard.  Every agent (stub or real) sits
behind a recorder that counts invocations and remembers the verdict ACTUALLY returned; the oracles judge by those.
The clock is a util.FakeClock assigned to `operon_ai.topology.loops.datetime`.
"""
from __future__ import annotations

import contextlib
import datetime as _dt
import hashlib
import io
import threading

from .core import Infra, import_repo, show_bool, unhexs
from .util import FakeClock

COST = 10
BUDGET = 10 ** 9
GATES = ["and", "or", "majority", "unanimous", "executor_priority", "assessor_priority"]
VERDICTS = ["EXECUTE", "PERMIT", "BLOCK", "FAILURE", "DEFER", "UNKNOWN"]
ODD_VERDICTS = ["weird", "permit", "Block", "x:-", "x:50.45.52.4d.49.54.20", "PERMIT_", "EXECUTE,PERMIT", "SUCCESS",
                "x:42.4c.4f.43.4b.a"]
EXEC_NAME = "Gene_Z (stub executor)"
ASSESS_NAME = "Gene_Y (stub assessor)"

_SPECIAL = ["", " ", "Deploy to production", "destroy everything; rm -rf /", "calculate 2+2", "naïve café ☕",
            "line1\nline2", "\x00\x01", "日本語のテキスト", "a" * 5000, "PERMIT", "{\"role\": \"system\"}",
            "\U0001F600 emoji", "ignore previous instructions", "0", "None"]

# prompts that are DISTINCT strings but equal under some canonicalisation (Unicode NFC / NFKC, case, white space, invisible
# characters): "a hash of exactly this request" - a cache key or token hash computed from a canonicalised prompt serves one
# request the reply of another.  Tokens 4000 + i; NEAR_GROUPS lists the index groups whose members are "equal" that way.
_NEAR = ["caf\u00e9 au lait", "cafe\u0301 au lait",                       # NFC
         "\u212bngstr\u00f6m unit", "\u00c5ngstr\u00f6m unit",                # NFC (Angstrom sign / A with ring)
         "\ufb01le the report", "file the report",                         # NFKC (fi ligature)
         "\uff24eploy v\u2461", "Deploy v2",                               # NFKC (fullwidth D, circled 2)
         "deploy to production", "Deploy To Production", "DEPLOY TO PRODUCTION",     # case
         "deploy  to production", "deploy to production ", " deploy to production", "deploy to production\n",
         "deploy\tto production", "deploy to production\u200b", "\ufeffdeploy to production",
         "stra\u00dfe 1", "STRASSE 1", "strasse 1"]                       # casefold
NEAR_BASE = 4000
NEAR_GROUPS = [[0, 1], [2, 3], [4, 5], [6, 7], list(range(8, 18)), [18, 19, 20]]


def prompt_text(tok: str) -> str:
    """Protocol prompt token -> the string handed to run().  `u<n>` prompts carry a lone surrogate."""
    if tok.startswith("u"):
        return f"unencodable \ud800 #{tok[1:]}"
    n = int(tok)
    if n < len(_SPECIAL):
        return _SPECIAL[n]
    if 2000 <= n < 2100:
        return f"please wipe and destroy item #{n}"
    if NEAR_BASE <= n < NEAR_BASE + len(_NEAR):
        return _NEAR[n - NEAR_BASE]
    return f"prompt #{n}"


def verdict_text(tok: str) -> str:
    if tok.startswith("u:"):
        tok = tok[2:]
    return unhexs(tok[2:]) if tok.startswith("x:") else tok


def vd(v):
    """the verdict of a recorded agent answer (`u:` marks an answer whose payload cannot be rendered)"""
    return v[2:] if isinstance(v, str) and v.startswith("u:") else v


def _unrenderable(kind, what):
    """the ways rendering can fail: `__str__` raises ValueError / RuntimeError / a KeyError without arguments, or returns
    something that is no string (str() then raises TypeError)"""
    k = kind % 4
    if k == 0:
        raise ValueError("cannot render " + what)
    if k == 1:
        return None
    if k == 2:
        raise RuntimeError("cannot render " + what)
    raise KeyError()


class UnprintablePayload:
    """a payload that cannot be rendered as text (`kind` selects how rendering fails)"""

    def __init__(self, kind=0):
        self.kind = kind

    def __str__(self):
        return _unrenderable(self.kind, "payload")


class HookError(RuntimeError):
    """raised by a scripted on_block / on_permit callback"""


class AgentAbort(BaseException):
    """a BaseException that is not an Exception (the family of KeyboardInterrupt / SystemExit / CancelledError)"""


class Unprintable(Exception):
    """an exception that cannot be rendered as text (e.g. a wrapped remote error with a broken __str__)"""
    kind = 0

    def __str__(self):
        return _unrenderable(self.kind, "exception")


class Unreprable(Exception):
    def __repr__(self):
        raise ValueError("cannot repr")

    def __str__(self):
        return "unreprable stub agent failure"


EXC_TOKENS = ("exc", "excK", "excS", "excR", "excB")     # what an agent may be scripted to raise
EXC_FAMILY = ("exc", "excS", "excB")                     # what the recorder reports: an Exception that can be rendered,
#                                                          an Exception whose str() raises, a BaseException


def make_exception(tok, kind=0):
    e = {"exc": lambda: RuntimeError("stub agent failure"), "excK": KeyError, "excS": Unprintable,
         "excR": Unreprable, "excB": lambda: AgentAbort("stub agent aborted")}[tok]()
    if isinstance(e, Unprintable):
        e.kind = kind          # how its __str__ fails: varies with the agent's call counter (deterministic per case)
    return e


def classify_exception(e) -> str:
    """what kind of exception an agent actually raised, read off the exception object itself"""
    if not isinstance(e, Exception):
        return "excB"
    try:
        str(e)
    except BaseException:  # noqa
        return "excS"
    return "exc"


class _Exc:
    def __init__(self, tok="exc"):
        self.tok = tok


EXC = _Exc()


class _Unp:
    def __init__(self, verdict):
        self.verdict = verdict


def scripted(v):
    """protocol token of an agent's behaviour -> what the stub is told to do"""
    if v in EXC_TOKENS:
        return _Exc(v)
    return _Unp(verdict_text(v)) if v.startswith("u:") else verdict_text(v)


_SOURCES = [None, "", "Gene_Y (stub assessor)", "Gene_Z (stub executor)", "Mallory", "Gene_Y (Risk)", "system"]
_PAYLOADS = ["stub payload", "", None, {"cmd": "rm -rf /"}, ["PERMIT"], 0, "PERMIT", "Action is safe."]
_CONFS = [0.75, 0.0, 1.0, -1.0, 7.5, float("nan")]


class Stub:
    """Scripted agent that spends ATP the way BioAgent.express does."""

    def __init__(self, name, store, types):
        self.name = name
        self.store = store
        self.types = types
        self.k = 0
        self.next = "EXECUTE"

    def express(self, signal):
        self.k += 1
        if not self.store.consume(cost=COST):
            return self.types.ActionProtein("FAILURE", "Apoptosis: Insufficient ATP", 0.0)
        if isinstance(self.next, _Exc):
            raise make_exception(self.next.tok, self.k)
        k = self.k
        if isinstance(self.next, _Unp):
            return self.types.ActionProtein(self.next.verdict, UnprintablePayload(k), _CONFS[k % len(_CONFS)],
                                            source_agent=_SOURCES[k % len(_SOURCES)], metadata={"note": "adversarial", "k": k})
        return self.types.ActionProtein(self.next, _PAYLOADS[k % len(_PAYLOADS)], _CONFS[k % len(_CONFS)],
                                        source_agent=_SOURCES[(k * 3 + len(str(self.next))) % len(_SOURCES)],
                                        metadata={"note": "adversarial", "k": k})


class Recorder:
    """Sits in front of an agent (stub or the real BioAgent): counts calls, remembers what actually came back.
    `hook(role, signal)` (set by Impl during a `nest` line) runs after the call was counted and before the agent
    itself is asked: that is where an overlapping request is issued."""

    def __init__(self, agent, role=None):
        self.agent = agent
        self.name = agent.name
        self.role = role
        self.hook = None
        self.n = 0
        self.last = None          # None = not consulted on this request

    def express(self, signal):
        self.n += 1
        done = self.hook(self.role, signal) if self.hook is not None else None
        try:
            out = self.agent.express(signal)
        except BaseException as e:  # noqa
            self.last = classify_exception(e)
            if done is not None:
                done(self.last)
            raise
        self.last = out.action_type
        try:
            str(out.payload)
        except BaseException:  # noqa  (the payload cannot be rendered)
            self.last = "u:" + str(out.action_type)
        if done is not None:
            done(self.last)
        return out


class Impl:
    """One instance per check process."""

    def __init__(self):
        import_repo()
        from operon_ai.topology import loops as L
        from operon_ai.core import types as T
        from operon_ai.state.metabolism import ATP_Store
        self.L, self.T, self.ATP_Store = L, T, ATP_Store
        self.clock = None
        self.loop = None
        self.hung = False
        self.nest_info = None
        self.hook_calls = {"block": 0, "permit": 0}
        self.frames = []          # one frame per run() in flight: the result a callback was given during it

    # --- callbacks -----------------------------------------------------------------------------------------------
    def make_hook(self, which, how):
        if how == "none":
            return None

        def hook(result):
            self.hook_calls[which] += 1
            if self.frames:
                self.frames[-1]["hooks"].append((which, self.show_result(result)))      # snapshot at call time
            if how == "raise":
                raise HookError(f"on_{which} callback failed")
        return hook

    def call_run(self, text) -> str:
        """one run() on the current loop -> the reply part of the observation"""
        frame = {"hooks": [], "inner": []}      # results callbacks were given / results logged by requests nested in this one
        self.frames.append(frame)
        log = self.loop.get_results_log(1)
        before = log[-1] if log else None
        try:
            r = self.loop.run(text)          # (stdout is redirected by line(): sys.stdout is process-wide)
        except HookError:
            given = frame["hooks"][-1][1] if frame["hooks"] else "?"
            return f"{given} !HookError"
        except BaseException as e:  # noqa
            if isinstance(e, (KeyboardInterrupt, SystemExit, GeneratorExit)):
                raise
            log = self.loop.get_results_log(1)
            mine = log[-1] if log else None
            if (mine is not None and mine is not before and not any(mine is x for x in frame["inner"])
                    and getattr(mine, "executor_output", None) is not None):
                # run() raised AFTER it had produced (and logged) the gate's result: the result, then !<Class>
                return f"{self.show_result(mine)} !{type(e).__name__}"
            return f"raise:{type(e).__name__}"
        finally:
            self.frames.pop()
            log = self.loop.get_results_log(1)
            if log:
                for f in self.frames:          # whatever is the last log entry now was not logged by an enclosing request later
                    f["inner"].append(log[-1])
        return self.show_result(r)

    # -------------------------------------------------------------------------------------------------
    def new_loop(self, gate="and", breaker=True, thr=5, tmo=60_000_000, cache=True, ttl=300_000_000,
                 budget=BUDGET, real=False):
        L = self.L
        self.clock = FakeClock()
        L.datetime = self.clock.datetime_class()
        self.budget = budget
        self.store = self.ATP_Store(budget=budget, silent=True)
        with contextlib.redirect_stdout(io.StringIO()):
            loop = L.CoherentFeedForwardLoop(
                budget=self.store, gate_logic=L.GateLogic(gate), enable_circuit_breaker=breaker,
                failure_threshold=thr, recovery_timeout_seconds=tmo / 1e6, enable_cache=cache,
                cache_ttl_seconds=ttl / 1e6, silent=True)
        if loop.recovery_timeout != _dt.timedelta(microseconds=tmo) or loop.cache_ttl != _dt.timedelta(microseconds=ttl):
            raise Infra(f"timedelta rounding: {tmo} {ttl}")
        if real:     # keep the built-in BioAgents (they share self.store), only put the recorder in front
            self.E = Recorder(loop.executor, "z")
            self.A = Recorder(loop.assessor, "y")
        else:
            self.E = Recorder(Stub(EXEC_NAME, self.store, self.T), "z")
            self.A = Recorder(Stub(ASSESS_NAME, self.store, self.T), "y")
        self.real = real
        loop.executor = self.E
        loop.assessor = self.A
        self.loop = loop
        self.sha = {}
        self.hung = False
        self.hook_calls = {"block": 0, "permit": 0}
        self.frames = []

    def _us(self, t):
        if t is None:
            return "none"
        d = t - self.clock.t0
        return str((d.days * 86400 + d.seconds) * 1_000_000 + d.microseconds)

    def stats(self) -> str:
        lp = self.loop
        cb = lp.get_circuit_breaker_stats()
        st = lp.get_statistics()
        return " ".join([str(self.E.n), str(self.A.n), str(self.budget - self.store.atp), str(cb.state.value),
                         str(cb.failure_count), str(cb.success_count), self._us(cb.last_failure),
                         self._us(cb.last_success), str(cb.trips_count), str(st["total_errors"]), str(st["cache_size"]),
                         str(st["total_requests"]), str(st["total_blocked"]), str(st["total_permitted"]),
                         str(len(lp.get_results_log(10 ** 9))), str(self.hook_calls["block"]), str(self.hook_calls["permit"])])

    def show_result(self, r) -> str:
        tok = r.approval_token
        if tok is None:
            tk, iss = "none", "-"
        else:
            tk = self.sha.get(tok.request_hash, "?")
            iss = "assessor" if tok.issuer == self.A.name else ("executor" if tok.issuer == self.E.name else "?")
        return " ".join([str(r.action), show_bool(r.success is True), show_bool(r.blocked is True), tk, iss,
                         show_bool(r.cached is True)])

    # --- overlapping requests on the current loop --------------------------------------------------------------------
    def nest(self, t) -> str:
        lp = self.loop
        levels = [t[i:i + 5] for i in range(1, len(t), 5)]
        k = len(levels)
        texts = []
        for (p, _, _, _, _) in levels:
            text = prompt_text(p)
            texts.append(text)
            if not p.startswith("u"):
                self.sha[hashlib.sha256(text.encode()).hexdigest()[:16]] = p
        replies = [None] * k          # observation of request i (None = never issued)
        actual = [[None, None] for _ in range(k)]
        stack = []                    # the request whose agents are being consulted right now is on top

        def issue(i):
            stack.append(i)
            try:
                replies[i] = self.call_run(texts[i])
            finally:
                stack.pop()

        def hook(role, signal):
            if not stack:
                return None
            i = stack[-1]
            p, z, y, w, d = levels[i]
            if (w.lower() == "e") == (role == "z"):
                if i + 1 < k and replies[i + 1] is None:
                    if w in "EA":        # the overlapping request comes from a second thread; this agent waits for it
                        th = threading.Thread(target=issue, args=(i + 1,), daemon=True)
                        th.start()
                        th.join()
                    else:
                        issue(i + 1)
                self.clock.advance_us(int(d))
            if not self.real:
                v = z if role == "z" else y
                (self.E if role == "z" else self.A).agent.next = scripted(v)

            def done(verdict, i=i, role=role):
                actual[i][0 if role == "z" else 1] = verdict
            return done

        self.E.hook = self.A.hook = hook
        try:
            from .util import call_guarded
            st, _ = call_guarded(lambda: issue(0), timeout=10.0)
        finally:
            self.E.hook = self.A.hook = None
        if st != "ok":
            self.hung = True          # a request never came back: the loop is not touched again in this case
            self.nest_info = {"kind": "nest", "levels": [], "hung": True}
            return "hang"
        self.nest_info = {"kind": "nest", "levels": [
            {"p": levels[i][0], "z": actual[i][0], "y": actual[i][1], "reply": replies[i]} for i in range(k)]}
        return " | ".join("-" if r is None else r for r in replies) + " ; " + self.stats()

    def line(self, line: str) -> str:
        with contextlib.redirect_stdout(io.StringIO()):     # `set silent 0`: the loop prints; nothing may depend on it
            return self._line(line)

    def _line(self, line: str) -> str:
        t = line.split()
        if not t:
            return "bad-op"
        if t[0] == "cfg" and len(t) in (7, 8, 9):
            self.new_loop(t[1] if t[1] in GATES else "and", t[2] == "1", int(t[3]), int(t[4]), t[5] == "1", int(t[6]),
                          int(t[7]) if len(t) >= 8 else BUDGET, len(t) == 9 and t[8] == "real")
            return "ok"
        if self.loop is None:
            self.new_loop()
        if self.hung:
            return "hang"
        lp = self.loop
        if t[0] == "run" and len(t) == 4:
            text = prompt_text(t[1])
            if not t[1].startswith("u"):
                self.sha[hashlib.sha256(text.encode()).hexdigest()[:16]] = t[1]
            if not self.real:     # (real agents decide for themselves; the line carries the verdicts they are expected to give)
                self.E.agent.next = scripted(t[2])
                self.A.agent.next = scripted(t[3])
            self.E.last = self.A.last = None
            return self.call_run(text) + " ; " + self.stats()
        if t[0] == "nest" and len(t) >= 6 and (len(t) - 1) % 5 == 0 and len(t) <= 21:
            return self.nest(t)
        if t[0] == "adv" and len(t) == 2:
            self.clock.advance_us(int(t[1]))
            return "- ; " + self.stats()
        if t[0] == "set" and len(t) == 3:
            k, v = t[1], t[2]
            if k == "gate":
                lp.gate_logic = self.L.GateLogic(v if v in GATES else "and")
            elif k == "cache":
                lp.enable_cache = v == "1"
            elif k == "ttl":
                lp.cache_ttl = _dt.timedelta(microseconds=int(v))
            elif k == "breaker":
                lp.enable_circuit_breaker = v == "1"
            elif k == "thr":
                lp.failure_threshold = int(v)
            elif k == "tmo":
                lp.recovery_timeout = _dt.timedelta(microseconds=int(v))
            elif k == "silent":
                lp.silent = v == "1"
            elif k in ("onblock", "onpermit"):
                if v not in ("none", "ok", "raise"):
                    return "bad-op"
                setattr(lp, "on_block" if k == "onblock" else "on_permit", self.make_hook(k[2:], v))
            elif k == "agents":
                if not self.real:
                    e, a = Recorder(Stub(EXEC_NAME, self.store, self.T), "z"), Recorder(Stub(ASSESS_NAME, self.store, self.T), "y")
                    e.n, a.n = self.E.n, self.A.n
                    self.E, self.A = e, a
                    lp.executor, lp.assessor = e, a
            else:
                return "bad-op"
            return "- ; " + self.stats()
        if t == ["resetcb"]:
            lp.reset_circuit_breaker()
            return "- ; " + self.stats()
        if t == ["clearcache"]:
            lp.clear_cache()
            return "- ; " + self.stats()
        return "bad-op"

    # --- search-side only: re-entrant agents (outside the model: its `run` is atomic) -----------------------------
    def reenter(self, t):
        """reenter <gate> <cacheOn> <e|a|E|A> <depth> <pA> <zA> <yA> <pB> <zB> <yB>
        A fresh loop; while answering request A the executor (e) / assessor (a) stub issues a nested run(B) on the
        SAME loop (depth 2: while answering B it issues run(C), C = A's verdicts on a third prompt; hard cap 3).
        E / A: the overlapping request B is issued by ANOTHER THREAD while A's executor / assessor is still busy (the
        agent waits for it), i.e. the schedule  A look-up, B look-up .. B store, A store.  After the nest every prompt
        is asked again, twice (innermost first, then outermost first).
        The observation is the constant "ok" on both sides; the oracle judges every reply by the verdicts the agents
        returned for THAT request."""
        L = self.L
        gate, cache, where, depth = t[1] if t[1] in GATES else "and", t[2] == "1", t[3], max(1, min(3, int(t[4])))
        pa, pb = t[5], t[8] if t[8] != t[5] else str(int(t[5]) + 1)
        chain = [(pa, t[6], t[7]), (pb, t[9], t[10]), (str(int(pb) + 1000), t[6], t[7]), (str(int(pb) + 2000), t[9], t[10])]
        chain = chain[:depth + 1]
        text = {prompt_text(p): i for i, (p, _, _) in enumerate(chain)}
        store = self.ATP_Store(budget=BUDGET, silent=True)
        with contextlib.redirect_stdout(io.StringIO()):
            loop = L.CoherentFeedForwardLoop(budget=store, gate_logic=L.GateLogic(gate), enable_cache=cache, silent=True)
        reqs = [{"p": p, "z": None, "y": None, "reply": None, "repeats": []} for (p, _, _) in chain]
        T = self.T
        threaded, where = where in "EA", where.lower()
        late = []

        def nested(i):
            if i + 1 >= len(chain):
                return
            if threaded:     # the overlapping request comes from another thread while this agent is still busy
                th = threading.Thread(target=lambda: reqs[i + 1].__setitem__("reply", call(i + 1)), daemon=True)
                th.start()
                th.join(2.0)
                if th.is_alive():        # B waits for something A holds: let A go on, B finishes afterwards
                    late.append(th)
            else:
                reqs[i + 1]["reply"] = call(i + 1)

        def call(i):
            try:     # (sys.stdout is process-wide: no redirection while a second thread may be inside; the loop is silent)
                with (contextlib.nullcontext() if threaded else contextlib.redirect_stdout(io.StringIO())):
                    r = loop.run(prompt_text(chain[i][0]))
            except Exception as e:  # noqa
                return f"raise:{type(e).__name__}"
            tok = r.approval_token
            want = hashlib.sha256(prompt_text(chain[i][0]).encode()).hexdigest()[:16]
            return {"action": str(r.action), "success": r.success is True, "blocked": r.blocked is True,
                    "cached": r.cached is True, "token": tok is not None,
                    "hash_ok": tok is not None and tok.request_hash == want,
                    "issuer_ok": tok is not None and tok.issuer == ASSESS_NAME}

        class Agent:
            def __init__(self, name, role):
                self.name, self.role = name, role

            def express(self, signal):
                i = text.get(signal.content)
                if i is None:
                    return T.ActionProtein("UNKNOWN", "?", 0.0)
                v = chain[i][1] if self.role == "z" else chain[i][2]
                if (where == "e") == (self.role == "z") and reqs[i].get("entered") is None:
                    reqs[i]["entered"] = True
                    nested(i)
                reqs[i][self.role] = "exc" if v == "exc" else verdict_text(v)
                if v == "exc":
                    raise RuntimeError("stub agent failure")
                return T.ActionProtein(verdict_text(v), "stub payload", 0.75, source_agent=None)
        loop.executor = Agent(EXEC_NAME, "z")
        loop.assessor = Agent(ASSESS_NAME, "y")
        reqs[0]["reply"] = call(0)
        for th in late:
            th.join(5.0)
        # ... and then every prompt of the nest is asked again (innermost first, then outermost first): a reply served
        # from the cache must be the reply ITS OWN original got
        issued = [i for i in range(len(chain)) if reqs[i]["reply"] is not None]
        for i in list(reversed(issued)) + issued:
            reqs[i]["repeats"].append(call(i))
        return "ok", {"kind": "reenter", "gate": gate, "cache": cache, "reqs": reqs}

    def run_case(self, case):
        """observations + per line the verdicts the agents ACTUALLY returned: (z, y), each a verdict string, "exc",
        or None when that agent was not consulted"""
        self.loop = None
        obs, actual = [], []
        for l in case["lines"]:
            if self.loop is not None:
                self.E.last = self.A.last = None
            if l.startswith("reenter ") and len(l.split()) == 11:
                o, info = self.reenter(l.split())
                obs.append(o)
                actual.append(info)
                continue
            self.nest_info = None
            obs.append(self.line(l))
            if self.nest_info is not None:
                actual.append(self.nest_info)
                continue
            actual.append((self.E.last, self.A.last) if l.startswith("run ") and self.loop is not None else (None, None))
        return obs, actual


# ------------------------------------------------------------------------------------------------------
# parsing of observation lines (used by both oracles)
# ------------------------------------------------------------------------------------------------------
class Ob:
    """Parsed observation of one `run`/admin line."""
    __slots__ = ("raw", "raised", "action", "success", "blocked", "token", "issuer", "cached", "ecalls", "acalls",
                 "spent", "state", "failures", "successes", "last_failure", "last_success", "trips", "total_errors",
                 "cache_size", "has_result", "total_requests", "total_blocked", "total_permitted", "logged",
                 "block_hook_calls", "permit_hook_calls")

    def __init__(self, raw: str):
        self.raw = raw
        res, _, st = raw.partition(" ; ")
        f = res.split()
        self.raised = f[0][6:] if f and f[0].startswith("raise:") else None
        if len(f) == 7 and f[6].startswith("!"):      # a callback raised: the result it was given, then !<Class>
            self.raised = f[6][1:]
            f = f[:6]
        self.has_result = len(f) == 6
        if self.has_result:
            self.action, self.success, self.blocked = f[0], f[1] == "1", f[2] == "1"
            self.token, self.issuer, self.cached = f[3], f[4], f[5] == "1"
        else:
            self.action = self.token = self.issuer = None
            self.success = self.blocked = self.cached = None
        s = st.split()
        (self.ecalls, self.acalls, self.spent) = (int(s[0]), int(s[1]), int(s[2]))
        self.state, self.failures, self.successes = s[3], int(s[4]), int(s[5])
        self.last_failure = None if s[6] == "none" else int(s[6])
        self.last_success = None if s[7] == "none" else int(s[7])
        self.trips, self.total_errors, self.cache_size = int(s[8]), int(s[9]), int(s[10])
        more = [int(x) for x in s[11:17]] if len(s) >= 17 else [0] * 6
        (self.total_requests, self.total_blocked, self.total_permitted, self.logged, self.block_hook_calls,
         self.permit_hook_calls) = more


def cfg_line(gate="and", breaker=True, thr=5, tmo=60_000_000, cache=True, ttl=300_000_000, budget=None, real=False) -> str:
    s = f"cfg {gate} {show_bool(breaker)} {thr} {tmo} {show_bool(cache)} {ttl}"
    if budget is not None or real:
        s += f" {BUDGET if budget is None else budget}"
    if real:
        s += " real"
    return s


BUDGETS = [0, 5, 10, 19, 20, 21, 50, 100, 200]          # besides "ample"
DAY = 86_400_000_000
BIG_ADVANCES = [DAY, DAY - 1, DAY + 1, DAY + 10_000_000, DAY + 59_999_999, DAY + 60_000_000, 7 * DAY + 59_000_000,
                400 * DAY, 400 * DAY + 1_000_000, 2 * DAY - 1_000_000]


def real_prompt(rng, dangerous: bool) -> str:
    """prompt tokens whose verdicts from the built-in agents are known: harmless -> EXECUTE / PERMIT,
    a dangerous marker (`wipe`, `destroy`) -> EXECUTE / BLOCK"""
    return str((2000 if dangerous else 3000) + rng.randrange(40))
