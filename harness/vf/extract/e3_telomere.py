"""E3 (telomere part) + E5 (telomere thresholds): facts regenerated from operon_ai/state/telomere.py on every run.

Pure `ast` analysis; the module under test is not imported, so this also works on a tree that no longer imports.

Operon/Gen/TelomereLocks.lean  -- lock shape of EVERY method of class Telomere
    lockKind   : "Lock" | "RLock" | "unknown"      (what `self._lock` is bound to in `__init__`)
    recognised : Bool                              (false as soon as the lock is used in a way this analysis does
                                                    not understand: explicit acquire/release, aliasing, getattr,
                                                    base classes, recursion among methods ...)
    methods    : List (name, public, whileLoops, items)
                 item = (true,  [callee indices])  a `with self._lock:` region and the self-methods called inside it
                        (false, [callee index])    a self-method call made outside any region
                 Methods are emitted in topological order (callees before callers), so that every callee index is
                 smaller than the index of its caller; a nested `with self._lock:` inside a region becomes a call to
                 a synthetic method `<name>$with<n>` whose body is that inner region.
                 Items appear in source order; branches, early returns and exception paths are NOT resolved: the
                 Lean semantics lets every item be taken or skipped (Operon.Telomere.execM).

Operon/Gen/TelomereConsts.lean -- the class-level thresholds as exact fractions (numerator / denominator)

Fail closed: anything unexpected gives recognised/known := false, which makes `c09_every_call_returns` /
`c09_thresholds_known` fail to check.
"""
from __future__ import annotations

import ast
from fractions import Fraction
from pathlib import Path

LOCKATTR = "_lock"
CLASS = "Telomere"
REL = "operon_ai/state/telomere.py"
CONSTS = ["SENESCENCE_THRESHOLD", "WARNING_THRESHOLD", "ERROR_SENESCENCE_RATE"]


def _is_self_attr(node, attr=None):
    return (isinstance(node, ast.Attribute) and isinstance(node.value, ast.Name) and node.value.id == "self"
            and (attr is None or node.attr == attr))


def _is_lock_call(st, method):
    """statement `self._lock.<method>()` with no arguments"""
    return (isinstance(st, ast.Expr) and isinstance(st.value, ast.Call) and not st.value.args and not st.value.keywords
            and isinstance(st.value.func, ast.Attribute) and st.value.func.attr == method
            and _is_self_attr(st.value.func.value, LOCKATTR))


def normalise_lock_idiom(tree):
    """`self._lock.acquire(); try: BODY [except …] finally: self._lock.release()` IS `with self._lock: BODY`: the pair of
    statements is rewritten into the `with` form (in place, every block of the tree) before the lock analysis and the
    translation look at it, so this behaviour-preserving way of writing a region is not refused.  Only the exact idiom is
    rewritten: acquire() immediately followed by a `try` whose `finally` is exactly the release(); anything else (acquire
    without try/finally, release somewhere else, conditional acquire) is left as it is and fails closed as before."""
    def fix(stmts):
        out, i = [], 0
        while i < len(stmts):
            st = stmts[i]
            nxt = stmts[i + 1] if i + 1 < len(stmts) else None
            if (_is_lock_call(st, "acquire") and isinstance(nxt, ast.Try) and len(nxt.finalbody) == 1
                    and _is_lock_call(nxt.finalbody[0], "release")):
                if nxt.handlers or nxt.orelse:
                    inner = [ast.copy_location(ast.Try(body=nxt.body, handlers=nxt.handlers, orelse=nxt.orelse, finalbody=[]), nxt)]
                else:
                    inner = nxt.body
                ctx = ast.copy_location(ast.Attribute(value=ast.copy_location(ast.Name(id="self", ctx=ast.Load()), st),
                                                      attr=LOCKATTR, ctx=ast.Load()), st)
                w = ast.copy_location(ast.With(items=[ast.withitem(context_expr=ctx, optional_vars=None)], body=inner), st)
                out.append(w)
                i += 2
                continue
            out.append(st)
            i += 1
        return out

    for node in ast.walk(tree):
        for field in ("body", "orelse", "finalbody"):
            v = getattr(node, field, None)
            if isinstance(v, list) and v and isinstance(v[0], ast.stmt):
                setattr(node, field, fix(v))
        if isinstance(node, ast.Try):
            for h in node.handlers:
                h.body = fix(h.body)
    ast.fix_missing_locations(tree)
    return tree


class Shape:
    def __init__(self, src: str):
        self.ok = True
        self.why: list[str] = []
        self.lock_kind = "unknown"
        self.methods: dict[str, dict] = {}     # name -> {"public", "loops", "items": [("region", [names]) | ("call", name)]}
        try:
            tree = normalise_lock_idiom(ast.parse(src))
        except SyntaxError as e:
            self._bad(f"syntax error: {e}")
            return
        cls = [n for n in tree.body if isinstance(n, ast.ClassDef) and n.name == CLASS]
        if len(cls) != 1:
            self._bad(f"class {CLASS} not found exactly once")
            return
        self.cls = cls[0]
        if self.cls.bases or self.cls.keywords:
            self._bad("base classes / metaclass: inherited methods are not analysed")
        self.fns = {n.name: n for n in self.cls.body if isinstance(n, (ast.FunctionDef, ast.AsyncFunctionDef))}
        if len(self.fns) != sum(isinstance(n, (ast.FunctionDef, ast.AsyncFunctionDef)) for n in self.cls.body):
            self._bad("method defined twice")
        self._lock_uses_ok()
        self.constants = self._constant_privates()
        for name, fn in self.fns.items():
            self._method(name, fn)

    def _bad(self, why):
        self.ok = False
        self.why.append(why)

    # ----------------------------------------------------------------------------------------------------
    def _lock_uses_ok(self):
        """Every mention of the lock attribute must be the `__init__` binding or the context of a `with`."""
        allowed = set()
        binds = []
        for name, fn in self.fns.items():
            for n in ast.walk(fn):
                if isinstance(n, (ast.With, ast.AsyncWith)):
                    for it in n.items:
                        if _is_self_attr(it.context_expr, LOCKATTR):
                            allowed.add(id(it.context_expr))
                            if it.optional_vars is not None:
                                self._bad(f"{name}: `with self.{LOCKATTR} as ...`")
                if isinstance(n, ast.Assign) and any(_is_self_attr(t, LOCKATTR) for t in n.targets):
                    for t in n.targets:
                        allowed.add(id(t))
                    binds.append((name, n))
        for node in ast.walk(self.cls):
            if isinstance(node, ast.Attribute) and node.attr == LOCKATTR and id(node) not in allowed:
                self._bad(f"lock attribute used outside `with self.{LOCKATTR}` (line {getattr(node, 'lineno', '?')})")
            if isinstance(node, ast.Constant) and node.value == LOCKATTR:
                self._bad("lock attribute named in a string (getattr/setattr?)")
            if isinstance(node, ast.Call) and isinstance(node.func, ast.Name) and node.func.id in (
                    "getattr", "setattr", "vars", "exec", "eval"):
                self._bad(f"dynamic attribute access via {node.func.id}()")
            if isinstance(node, ast.Attribute) and node.attr == "__dict__":
                self._bad("__dict__ access")
        if len(binds) != 1 or binds[0][0] != "__init__" or len(binds[0][1].targets) != 1:
            self._bad(f"self.{LOCKATTR} must be bound exactly once, in __init__")
            return
        v = binds[0][1].value
        kind = None
        if isinstance(v, ast.Call) and not v.args and not v.keywords:
            f = v.func
            nm = f.attr if isinstance(f, ast.Attribute) and isinstance(f.value, ast.Name) and f.value.id == "threading" \
                else (f.id if isinstance(f, ast.Name) else None)
            if nm in ("Lock", "RLock"):
                kind = nm
        if kind is None:
            self._bad(f"lock bound to {ast.unparse(v)!r}: neither threading.Lock() nor threading.RLock()")
        else:
            self.lock_kind = kind
        # the binding must not sit under a condition/loop (then the kind would depend on the path)
        init = self.fns["__init__"]
        if binds[0][1] not in init.body:
            self._bad("lock binding is not a top-level statement of __init__")

    # ----------------------------------------------------------------------------------------------------
    def _is_lock_with(self, st):
        return isinstance(st, (ast.With, ast.AsyncWith)) and any(_is_self_attr(i.context_expr, LOCKATTR) for i in st.items)

    def _self_calls_expr(self, node):
        """self-method calls inside one expression / simple statement, in source order; nested defs skipped."""
        out = []

        def rec(n):
            if isinstance(n, (ast.FunctionDef, ast.AsyncFunctionDef, ast.Lambda, ast.ClassDef)):
                # a closure over self may run later / elsewhere: if it mentions a method of ours, give up
                for m in ast.walk(n):
                    if _is_self_attr(m) and m.attr in self.fns:
                        self._bad(f"self.{m.attr} referenced inside a nested function/lambda")
                return
            if isinstance(n, ast.Call) and _is_self_attr(n.func) and n.func.attr in self.fns:
                for c in ast.iter_child_nodes(n):
                    if c is not n.func:
                        rec(c)
                out.append(n.func.attr)
                return
            if _is_self_attr(n) and n.attr in self.fns and isinstance(n.ctx, ast.Load):
                # bound method taken as a value (callback registration, threading.Thread(target=self.m)) — not a call
                self._bad(f"bound method self.{n.attr} used as a value")
            for c in ast.iter_child_nodes(n):
                rec(c)
        rec(node)
        return out

    def _method(self, name, fn):
        loops = sum(isinstance(n, ast.While) for n in ast.walk(fn))
        synth = [0]
        me = {"public": (not name.startswith("_")) or name == "__init__", "loops": loops, "items": []}
        self.methods[name] = me

        def block(stmts, sink):
            """sink(callee) is called for every self-call outside a region at this level; regions are appended by
            the caller-specific `region` callback carried in sink.region."""
            for st in stmts:
                if self._is_lock_with(st):
                    for it in st.items:
                        if not _is_self_attr(it.context_expr, LOCKATTR):
                            for c in self._self_calls_expr(it.context_expr):
                                sink(c)
                    sink.region(st)
                elif isinstance(st, (ast.With, ast.AsyncWith)):
                    for it in st.items:
                        for c in self._self_calls_expr(it.context_expr):
                            sink(c)
                    block(st.body, sink)
                elif isinstance(st, (ast.If, ast.While)):
                    for c in self._self_calls_expr(st.test):
                        sink(c)
                    block(st.body, sink)
                    block(st.orelse, sink)
                elif isinstance(st, (ast.For, ast.AsyncFor)):
                    for c in self._self_calls_expr(st.iter):
                        sink(c)
                    block(st.body, sink)
                    block(st.orelse, sink)
                elif isinstance(st, ast.Try) or st.__class__.__name__ == "TryStar":
                    block(st.body, sink)
                    for h in st.handlers:
                        block(h.body, sink)
                    block(st.orelse, sink)
                    block(st.finalbody, sink)
                elif st.__class__.__name__ == "Match":
                    for c in self._self_calls_expr(st.subject):
                        sink(c)
                    for case in st.cases:
                        if case.guard is not None:
                            for c in self._self_calls_expr(case.guard):
                                sink(c)
                        block(case.body, sink)
                elif isinstance(st, (ast.FunctionDef, ast.AsyncFunctionDef, ast.ClassDef)):
                    self._self_calls_expr(st)     # only to flag closures over our methods
                else:
                    for c in self._self_calls_expr(st):
                        sink(c)

        def make_sinks(items):
            def outer(c):
                items.append(("call", c))

            def outer_region(st):
                calls = []

                def inner(c):
                    calls.append(c)

                def inner_region(st2):
                    synth[0] += 1
                    sname = f"{name}$with{synth[0]}"
                    sub = {"public": False, "loops": 0, "items": []}
                    self.methods[sname] = sub
                    s_outer = make_sinks(sub["items"])
                    s_outer.region(st2)
                    calls.append(sname)
                inner.region = inner_region
                block(st.body, inner)
                items.append(("region", calls))
            outer.region = outer_region
            return outer

        block(fn.body, make_sinks(me["items"]))
        me["unlocked"] = self._unlocked(fn)

    def _constant_privates(self):
        """private attributes that are bound in `__init__` and afterwards only READ AS A WHOLE: outside `__init__` every mention
        is a plain load that is neither stored to / deleted nor used as `self._x.<attr>` / `self._x[...]` (so it is not mutated
        through a method call or an item assignment either).  Such an attribute is configuration, not state; reading it
        outside the lock is no check-then-act window."""
        mutable, seen = set(), set()
        for name, fn in self.fns.items():
            if name == "__init__":
                continue
            parent = {}
            for n in ast.walk(fn):
                for c in ast.iter_child_nodes(n):
                    parent[id(c)] = n
            for n in ast.walk(fn):
                if _is_self_attr(n) and n.attr.startswith("_") and not n.attr.startswith("__"):
                    seen.add(n.attr)
                    par = parent.get(id(n))
                    if (not isinstance(n.ctx, ast.Load) or (isinstance(par, ast.Attribute) and par.value is n)
                            or (isinstance(par, ast.Subscript) and par.value is n)
                            or isinstance(par, (ast.AugAssign, ast.For, ast.comprehension, ast.Starred))):
                        mutable.add(n.attr)
        return seen - mutable

    def _unlocked(self, fn):
        """private attributes of self (the lifecycle's state; the lock itself and method names aside) that the method mentions -
        reads or writes - OUTSIDE every `with self._lock:` region of its own body, sorted.  What a self-method called outside
        a region mentions is added on the Lean side through the call items (`exposed`)."""
        out = set()

        def rec(n):
            if self._is_lock_with(n):
                for it in n.items:
                    if not _is_self_attr(it.context_expr, LOCKATTR):
                        rec(it.context_expr)
                return
            if (_is_self_attr(n) and n.attr.startswith("_") and not n.attr.startswith("__") and n.attr != LOCKATTR
                    and n.attr not in self.fns and n.attr not in getattr(self, "constants", set())):
                out.add(n.attr)
            for c in ast.iter_child_nodes(n):
                rec(c)
        for st in fn.body:
            rec(st)
        return sorted(out)

    # ----------------------------------------------------------------------------------------------------
    def ordered(self):
        """Topological order, callees first (stable w.r.t. source order).  Recursion => not recognised."""
        names = list(self.methods)
        deps = {}
        for n, m in self.methods.items():
            d = []
            for kind, x in m["items"]:
                d.extend(x if kind == "region" else [x])
            deps[n] = d
        order, state = [], {}

        def visit(n):
            if state.get(n) == 2:
                return
            if state.get(n) == 1:
                self._bad(f"recursion among methods through {n}")
                return
            state[n] = 1
            for d in deps[n]:
                visit(d)
            state[n] = 2
            order.append(n)
        for n in names:
            visit(n)
        return order


def _frac(node) -> Fraction | None:
    """exact value of a numeric class-level constant expression, floats read as the decimal the author wrote"""
    if isinstance(node, ast.Constant) and isinstance(node.value, bool):
        return None
    if isinstance(node, ast.Constant) and isinstance(node.value, int):
        return Fraction(node.value)
    if isinstance(node, ast.Constant) and isinstance(node.value, float):
        return Fraction(repr(node.value))
    if isinstance(node, ast.UnaryOp) and isinstance(node.op, (ast.USub, ast.UAdd)):
        v = _frac(node.operand)
        return None if v is None else (-v if isinstance(node.op, ast.USub) else v)
    if isinstance(node, ast.BinOp) and isinstance(node.op, (ast.Add, ast.Sub, ast.Mult, ast.Div)):
        a, b = _frac(node.left), _frac(node.right)
        if a is None or b is None:
            return None
        if isinstance(node.op, ast.Add):
            return a + b
        if isinstance(node.op, ast.Sub):
            return a - b
        if isinstance(node.op, ast.Mult):
            return a * b
        return None if b == 0 else a / b
    return None


def consts(src: str) -> tuple[bool, dict]:
    vals = {}
    try:
        tree = ast.parse(src)
    except SyntaxError:
        return False, {}
    cls = [n for n in tree.body if isinstance(n, ast.ClassDef) and n.name == CLASS]
    if len(cls) != 1:
        return False, {}
    ok = True
    for c in CONSTS:
        found = []
        for st in cls[0].body:
            if isinstance(st, ast.Assign) and any(isinstance(t, ast.Name) and t.id == c for t in st.targets):
                found.append(st.value)
            if isinstance(st, ast.AnnAssign) and isinstance(st.target, ast.Name) and st.target.id == c and st.value:
                found.append(st.value)
        v = _frac(found[0]) if len(found) == 1 else None
        if v is None or v < 0:
            ok = False
            vals[c] = None
        else:
            vals[c] = v
    # the constants must not be re-bound elsewhere in the module (instance/class attribute assignment)
    for n in ast.walk(tree):
        if isinstance(n, ast.Attribute) and n.attr in CONSTS and isinstance(n.ctx, (ast.Store, ast.Del)):
            ok = False
    return ok, vals


def signatures(src: str) -> dict:
    """Call interface of the three public methods that take arguments: parameter names (the keyword interface) and the
    defaults a bare call uses.  Anything not recognised is None (fail closed: `c09_call_defaults` then fails)."""
    out = {"tick_cost": None, "renew_amount": None, "renew_reset": None, "names": None}
    try:
        tree = ast.parse(src)
        cls = [n for n in tree.body if isinstance(n, ast.ClassDef) and n.name == CLASS]
        if len(cls) != 1:
            return out
        fns = {}
        for n in cls[0].body:
            if isinstance(n, ast.FunctionDef):
                fns.setdefault(n.name, []).append(n)
        names = []
        for m in ("tick", "renew", "trigger_apoptosis"):
            if len(fns.get(m, [])) != 1:
                return out
            a = fns[m][0].args
            if a.vararg or a.kwarg or a.kwonlyargs or a.posonlyargs or fns[m][0].decorator_list:
                return out
            ps = [x.arg for x in a.args[1:]]
            if len(a.defaults) != len(ps):        # every parameter after self has a default
                return out
            names.append((m, ps, a.defaults))
        # the keyword interface the property's operations use: the leading parameters; further trailing parameters with
        # defaults (an API-compatible addition) are not part of the fact
        lead = {"tick": 1, "renew": 2, "trigger_apoptosis": 1}
        out["names"] = [(m, ps[:lead[m]]) for m, ps, _ in names]
        d = {m: dict(zip(ps, df)) for m, ps, df in names}

        def lit(n):
            return n.value if isinstance(n, ast.Constant) else Ellipsis
        c = lit(d["tick"].get("cost", ast.Name(id="?")))
        if isinstance(c, int) and not isinstance(c, bool) and c >= 0:
            out["tick_cost"] = c
        am = lit(d["renew"].get("amount", ast.Name(id="?")))
        if am is None:
            out["renew_amount"] = "none"
        elif isinstance(am, int) and not isinstance(am, bool) and am >= 0:
            out["renew_amount"] = f"(some {am})"
        r = lit(d["renew"].get("reset_errors", ast.Name(id="?")))
        if isinstance(r, bool):
            out["renew_reset"] = r
    except Exception:   # noqa - fail closed
        return {"tick_cost": None, "renew_amount": None, "renew_reset": None, "names": None}
    return out


def probe_log(path) -> dict:
    """The event log, MEASURED on the real class (E5 probe, fail closed): the module is evaluated, a lifecycle is
    constructed, `_log_event` is called 2 x cap + 500 times and `get_statistics()['events_count']` is read after every
    call.  Facts: entries after construction (`init`), growth of exactly one per call up to a capacity at which it stays
    (`cap`), `_events.clear()` empties it.  Anything else -> cap 0 / init 0 (`c09_log_facts` then fails)."""
    out = {"cap": 0, "init": 0}
    try:
        import importlib.util
        import sys as _sys
        name = f"_e5_telomere_probe_{abs(hash(str(path)))}"
        spec = importlib.util.spec_from_file_location(name, str(path))
        mod = importlib.util.module_from_spec(spec)
        _sys.modules[name] = mod
        try:
            spec.loader.exec_module(mod)
        finally:
            _sys.modules.pop(name, None)
        t = getattr(mod, CLASS)(max_operations=5, silent=True)
        count = lambda: int(t.get_statistics()["events_count"])
        n0 = count()
        seq = []
        for _ in range(2600):
            t._log_event("probe")
            seq.append(count())
        cap = max(seq)
        if cap >= 2600 + n0 or n0 < 0 or cap < 1:
            return out                       # no capacity reached within the probe
        if any(v != min(cap, n0 + i + 1) for i, v in enumerate(seq)):
            return out
        t._events.clear()
        if count() != 0:
            return out
        t2 = getattr(mod, CLASS)(max_operations=5, silent=True)
        if int(t2.get_statistics()["events_count"]) != n0:
            return out
        return {"cap": cap, "init": n0}
    except BaseException:   # noqa - fail closed
        return {"cap": 0, "init": 0}


# --------------------------------------------------------------------------------------------------------
def render_locks(sh: Shape) -> str:
    order = sh.ordered() if sh.methods else []
    idx = {n: i for i, n in enumerate(order)}
    rows = []
    urows = []
    for n in order:
        m = sh.methods[n]
        items = []
        for kind, x in m["items"]:
            if kind == "region":
                items.append("(true, [" + ", ".join(str(idx[c]) for c in x) + "])")
            else:
                items.append(f"(false, [{idx[x]}])")
        rows.append(f'  ("{n}", {"true" if m["public"] else "false"}, {m["loops"]}, [' + ", ".join(items) + "])")
        urows.append(f'  ("{n}", [' + ", ".join(f'"{a}"' for a in m.get("unlocked", [])) + "])")
    why = "; ".join(sh.why)[:400].replace("-/", "- /")
    return (
        "/- GENERATED by harness/vf/extract/e3_telomere.py from operon_ai/state/telomere.py on every run; do not edit.\n"
        "   Lock shape of every method of class Telomere: item = (isRegion, callee indices); callees precede callers. -/\n"
        "namespace Operon.Gen.TelomereLocks\n\n"
        f'def lockKind : String := "{sh.lock_kind if sh.ok else "unknown"}"\n\n'
        f"/-- false: the analysis met something it does not understand ({why or 'nothing'}) -/\n"
        f"def recognised : Bool := {'true' if sh.ok else 'false'}\n\n"
        "def methods : List (String × Bool × Nat × List (Bool × List Nat)) := [\n"
        + ",\n".join(rows) + "\n]\n\n"
        "/-- per method: the private attributes of self (state) it mentions OUTSIDE every `with self._lock` region of its own body -/\n"
        "def unlocked : List (String × List String) := [\n"
        + ",\n".join(urows) + "\n]\n\nend Operon.Gen.TelomereLocks\n")


def render_consts(ok: bool, vals: dict, sig: dict = None, log: dict = None) -> str:
    def nd(c):
        v = vals.get(c)
        return (v.numerator, v.denominator) if v is not None else (0, 0)
    s = ("/- GENERATED by harness/vf/extract/e3_telomere.py from the class attributes of Telomere; do not edit.\n"
         "   Thresholds as exact fractions num/den of the decimal literal in the source. -/\n"
         "namespace Operon.Gen.TelomereConsts\n\n"
         f"def known : Bool := {'true' if ok else 'false'}\n\n")
    for c, nm in zip(CONSTS, ["senescence", "warning", "errorRate"]):
        n, d = nd(c)
        s += f"/-- {c} -/\ndef {nm}Num : Nat := {n}\ndef {nm}Den : Nat := {d}\n\n"
    sig = sig or {"tick_cost": None, "renew_amount": None, "renew_reset": None, "names": None}
    tc, ra, rr, nm = sig["tick_cost"], sig["renew_amount"], sig["renew_reset"], sig["names"]
    s += ("/-- what a bare `tick()` costs (default of its parameter), `none` = not a natural-number literal -/\n"
          f"def tickDefaultCost : Option Nat := {'none' if tc is None else f'some {tc}'}\n\n"
          "/-- what a bare `renew()` passes: amount (`some none` = None) and reset_errors -/\n"
          f"def renewDefaultAmount : Option (Option Nat) := {'none' if ra is None else f'some {ra}'}\n"
          f"def renewDefaultReset : Option Bool := {'none' if rr is None else ('some true' if rr else 'some false')}\n\n"
          "/-- keyword interface: parameter names of the public methods that take arguments ([] = not recognised) -/\n"
          "def paramNames : List (String × List String) := ["
          + ("" if nm is None else ", ".join('("%s", [%s])' % (m, ", ".join(f'"{p}"' for p in ps)) for m, ps in nm))
          + "]\n\n")
    log = log or {"cap": 0, "init": 0}
    s += ("/-- the event log measured on the real `_log_event` (probe): capacity (0 = not recognised) and the number of entries\n"
          "    a freshly constructed lifecycle has -/\n"
          f"def logCap : Nat := {log['cap']}\ndef logInit : Nat := {log['init']}\n\n")
    return s + "end Operon.Gen.TelomereConsts\n"


def run(repo: Path, lean_dir: Path, write_if_changed) -> list[dict]:
    p = Path(repo) / REL
    try:
        src = p.read_text()
    except OSError:
        src = ""
    try:
        sh = Shape(src)
        if sh.methods:
            sh.ordered()            # may flag recursion before rendering
        locks = render_locks(sh)
    except RecursionError:
        raise
    except Exception as e:   # noqa - FAIL CLOSED on a shape the analysis does not know: never crash the run
        sh = Shape("")
        sh.ok = False
        sh.why = [f"analysis failed ({type(e).__name__}: {str(e)[:100]})"]
        locks = render_locks(sh)
    try:
        ok, vals = consts(src)
    except Exception:   # noqa
        ok, vals = False, {}
    sig = signatures(src)
    log = probe_log(p) if src else {"cap": 0, "init": 0}
    c1 = write_if_changed(Path(lean_dir) / "Operon/Gen/TelomereLocks.lean", locks)
    c2 = write_if_changed(Path(lean_dir) / "Operon/Gen/TelomereConsts.lean", render_consts(ok, vals, sig, log))
    return [{"id": "E3-telomere", "facts_changed": bool(c1), "recognised": sh.ok, "lock_kind": sh.lock_kind,
             "why": sh.why[:5]},
            {"id": "E5-telomere", "facts_changed": bool(c2), "known": ok,
             "values": {k: (str(v) if v is not None else None) for k, v in vals.items()},
             "call_defaults": {k: (v if k != "names" else [list(x) for x in (v or [])]) for k, v in sig.items()},
             "event_log": log}]


if __name__ == "__main__":
    import sys
    root = Path(sys.argv[1] if len(sys.argv) > 1 else "/repo")
    src = (root / REL).read_text()
    sh = Shape(src)
    print(render_locks(sh))
    print(render_consts(*consts(src), signatures(src), probe_log(root / REL)))
