"""py2lean (lysosome): translate the Python AST of the `Lysosome` methods that carry C13's accounting into Lean
definitions over `Operon.Lysosome.PyS` (Model/LysosomePy.lean), regenerated into
lean/Operon/Gen/LysosomeTranslated.lean on every run.

Every translated method is a function
    Tr.<name> (cfg : Cfg) (s : PyS) <params> : PyS × T          (a method that cannot raise)
    Tr.<name> (cfg : Cfg) (s : PyS) <params> : PyS × Option T   (`none` = an exception left the method)
(object after, Python return value).  Entry points (fixed Lean names): ingest, ingest_error, ingest_sensitive, digest,
autophagy, clear_recycling_bin, and `Tr.toxic_digester` = the method the freshly constructed object stores in its
digester table for TOXIC_BYPRODUCT (found by VALUE on the evaluated class, whatever it is called).  Everything else
(`_emergency_digest`, `_auto_digest`, any helper a refactor introduces) is resolved through the call graph; all
helper definitions carry `@[lysTr]`, so the agreement proofs (`c13_translation_agrees_*`, Props/C13.lean) unfold them
wherever they are defined and whatever their names (entry points are unfolded by name).

What is understood (nothing more):
  * fields: `_queue` (list of Waste), `_total_ingested/_digested/_recycled` (`+= n`, `= e`), `_recycling_bin`
    (`.update(d)`, `.clear()`, `= {}`), `max_queue_size`, `auto_digest_threshold`, `retention_period`, `on_toxic`,
    `_digesters` (only looked up by `w.waste_type` and called on the same `w`); `_by_type`, `silent` and console
    output are dropped (their statements must be call-free);
  * locals of type int / bool / list of Waste / dict / list of error strings (strings are opaque: only the length of
    such a list is kept) / `DigestResult` / Waste / `datetime.now()`; re-assignment, `+=`, `.append`, `.update`;
    what a digester hands back is a `PyVal` (foreign code: a dict-like value, or a truthy value that `dict.update`
    cannot merge): it can be tested for truth, bound, returned, and merged with `<dict>.update(v)`, which then is a
    point where an exception can arise AFTER a prefix was merged (`pyDictUpdateM`);
  * expressions: `len`, `+ - * //`, comparisons, `and or not`, `x if c else y`, slices `l[:e]`, `l[e:]`, `l[:]` with
    Python's meaning for negative and None-able bounds, `[w for w in l if test]`, `w in l`, `w.waste_type == WasteType.X`,
    `now - w.created_at` (TypeError on a timezone-aware timestamp) compared with `retention_period`;
    truthiness of ints, Optional ints, lists, dicts, the callback;
  * statements: `if/elif/else`, early `return`, `for w in <list>:` (a left fold over the loop-carried locals, which
    are ordered by TYPE so that renaming or re-ordering locals does not change the generated term), `continue`,
    `try: … except Exception [as e]: …` around digester / callback / own-method calls (statements before the raising
    call keep their effect), `with self._lock:` transparent (the lock is E3's subject);
  * calls of own methods: helpers whose body is one `return <expr>` are inlined as expressions (any argument
    names); others are translated on demand and called, as a statement or as the whole right-hand side of an
    assignment / `return`; missing trailing arguments take constant defaults; a public method may have extra trailing
    parameters with constant defaults (the modelled call path uses the defaults, dead branches are pruned);
  * `Waste(waste_type=WasteType.X, content=…, …)` without `created_at`: the caller-visible object `fresh` with its
    type set; `DigestResult(…)` by keyword or position;
  * WARNING-or-higher records on a `logging.Logger` (resolved by value): counted per emitting function name
    (`_auto_digest`, `_emergency_digest`: that is how the harness classifies them; elsewhere: ignored); debug/info,
    `print`, docstrings, annotations, `pass`: no-ops.
Anything else: the method (and every method calling it) becomes `untranslatable "<construct (line)>"`, so exactly
the agreement theorems of the entry points that reach it fail (fail closed).  The generated file is elaborated before it
is written; if it does not build, all entry points are emitted as `untranslatable`.
"""
from __future__ import annotations

import ast
import importlib.util
import logging
import os
import subprocess
import sys
import tempfile
from pathlib import Path

CLASS = "Lysosome"
REL = "operon_ai/organelles/lysosome.py"
# entry point -> (lean name, fixed parameter types, return type, may raise)
ENTRY = {
    "ingest": ("ingest", ["item"], "unit"),
    "ingest_error": ("ingest_error", [], "unit"),
    "ingest_sensitive": ("ingest_sensitive", [], "unit"),
    "digest": ("digest", ["oint"], "dres"),
    "autophagy": ("autophagy", [], "int"),
    "clear_recycling_bin": ("clear_recycling_bin", [], "unit"),
    "<toxic>": ("toxic_digester", ["item"], "dict"),
}
# signature the agreement theorems expect: (needs `fresh`, raises)
ENTRY_SHAPE = {"ingest": (False, False), "ingest_error": (True, False), "ingest_sensitive": (True, False),
               "digest": (False, False), "autophagy": (False, True), "clear_recycling_bin": (False, False),
               "<toxic>": (False, True)}
NAT_FIELDS = {"_total_ingested": "ingested", "_total_digested": "digested", "_total_recycled": "recycled"}
CFG_FIELDS = {"max_queue_size": ("cfg.maxQ", "nat"), "auto_digest_threshold": ("cfg.autoThr", "nat"),
              "retention_period": ("cfg.retention", "tdelta")}
DROPPED_FIELDS = {"_by_type"}
WTYPES = {"MISFOLDED_PROTEIN": "WType.misfolded", "EXPIRED_CACHE": "WType.expired", "FAILED_OPERATION": "WType.failedOp",
          "ORPHANED_RESOURCE": "WType.orphaned", "TOXIC_BYPRODUCT": "WType.toxic"}
LEAN_T = {"nat": "Nat", "int": "Int", "bool": "Bool", "oint": "Option Int", "items": "List Item", "item": "Item",
          "dict": "List (Nat × Item)", "errs": "List Unit", "unit": "Unit", "time": "Nat", "tdelta": "Int",
          "dres": "PyDigestResult", "wtype": "WType", "opaque": "Unit", "dval": "PyVal"}
TYPE_ORDER = ["dict", "errs", "items", "item", "dres", "nat", "int", "bool", "oint", "time", "tdelta", "wtype", "dval",
              "opaque"]
BENIGN = {"len", "str", "repr", "int", "type", "round", "float", "isinstance", "min", "max", "dict", "list", "tuple",
          "bool", "getattr", "hasattr", "sorted", "sum", "format"}
WARN_LEVELS = {"warning", "warn", "error", "exception", "critical", "fatal"}
QUIET_LEVELS = {"debug", "info"}


class Unsupported(Exception):
    pass


def bad(node, what):
    raise Unsupported(f"{what} (line {getattr(node, 'lineno', '?')})")


def is_self(node, attr=None):
    return (isinstance(node, ast.Attribute) and isinstance(node.value, ast.Name) and node.value.id == "self"
            and (attr is None or node.attr == attr))


def lname(method):
    return method.strip("_") or "m"


def param_type(ann):
    if ann is None:
        return "opaque"
    src = ast.unparse(ann).replace(" ", "")
    return {"int": "int", "int|None": "oint", "None|int": "oint", "Optional[int]": "oint", "bool": "bool", "Waste": "item",
            "datetime": "time", "WasteType": "wtype", "list[Waste]": "items", "List[Waste]": "items"}.get(src, "opaque")


def load_module(path: Path):
    """Evaluate the module under translation (stdlib imports only) to resolve names by VALUE; None on failure."""
    try:
        name = f"_py2lean_lysosome_{abs(hash(str(path)))}"
        spec = importlib.util.spec_from_file_location(name, str(path))
        mod = importlib.util.module_from_spec(spec)
        sys.modules[name] = mod
        try:
            spec.loader.exec_module(mod)
        finally:
            sys.modules.pop(name, None)
        return mod
    except BaseException:   # noqa
        return None


def toxic_entry(mod):
    """name of the method a fresh object stores for TOXIC_BYPRODUCT, and whether the table is complete"""
    try:
        cls = getattr(mod, CLASS)
        wt = getattr(mod, "WasteType")
        obj = cls(silent=True)
        table = obj._digesters
        f = table[wt.TOXIC_BYPRODUCT]
        complete = all(t in table for t in wt)
        if getattr(f, "__self__", None) is obj and getattr(cls, f.__name__, None) is f.__func__:
            return f.__name__, complete
    except BaseException:   # noqa
        pass
    return None, False


def tup(parts):
    return parts[0] if len(parts) == 1 else "(" + ", ".join(parts) + ")"


def proj(var, i, n):
    if n == 1:
        return var
    return var + ".2" * i + (".1" if i < n - 1 else "")


class Translator:
    def __init__(self, src: str, mod=None):
        self.tree = ast.parse(src)
        self.mod = mod
        cls = [n for n in self.tree.body if isinstance(n, ast.ClassDef) and n.name == CLASS]
        if len(cls) != 1:
            raise Unsupported(f"class {CLASS} not found exactly once")
        self.cls = cls[0]
        self.fns = {}
        for n in self.cls.body:
            if isinstance(n, ast.FunctionDef):
                if n.name in self.fns:
                    raise Unsupported(f"method {n.name} defined twice")
                self.fns[n.name] = n
            elif isinstance(n, ast.AsyncFunctionDef):
                raise Unsupported("async method")
        self.done: dict[str, dict] = {}
        self.entry_of: dict[str, str] = {}
        self.stack: list[dict] = []
        self.tmp = 0
        self.rebound = set()
        for n in ast.walk(self.tree):
            if isinstance(n, (ast.Global, ast.Nonlocal)):
                self.rebound |= set(n.names)
        # fields assigned outside __init__ that are configuration in the model: then they are not constants
        for name, fn in self.fns.items():
            if name == "__init__":
                continue
            for n in ast.walk(fn):
                if is_self(n) and isinstance(n.ctx, (ast.Store, ast.Del)) and (
                        n.attr in CFG_FIELDS or n.attr in ("on_toxic", "_digesters", "silent", "_lock")):
                    raise Unsupported(f"self.{n.attr} re-assigned in {name}")
                if (isinstance(n, ast.Call) and isinstance(n.func, ast.Attribute) and is_self(n.func.value, "_digesters")
                        and n.func.attr not in ("get",)):
                    raise Unsupported(f"self._digesters.{n.func.attr}(...) in {name}")
                if isinstance(n, ast.Subscript) and is_self(n.value, "_digesters") and isinstance(n.ctx, (ast.Store, ast.Del)):
                    raise Unsupported(f"self._digesters[...] assigned in {name}")

    def class_constant(self, attr):
        """`self.X` / `Lysosome.X` where X is a class-level constant: an int / bool / None bound in the class body of
        the EVALUATED class, that a fresh object does not shadow and that nothing in the module ever assigns
        (`<anything>.X = ...`, `del`, `setattr`).  Its value, as a Constant node; None when X is not such a thing."""
        if self.mod is None:
            return None
        if not hasattr(self, "_consts"):
            self._consts = {}
            try:
                cls = getattr(self.mod, CLASS)
                obj = cls(silent=True)
                stored = {x.attr for x in ast.walk(self.tree)
                          if isinstance(x, ast.Attribute) and isinstance(x.ctx, (ast.Store, ast.Del))}
                dynamic = any(isinstance(x, ast.Call) and isinstance(x.func, ast.Name) and x.func.id in ("setattr", "delattr")
                              for x in ast.walk(self.tree))
                for name, v in vars(cls).items():
                    if (v is None or type(v) in (int, bool)) and name not in vars(obj) and name not in stored \
                            and not dynamic and not name.startswith("__"):
                        self._consts[name] = v
            except BaseException:   # noqa
                self._consts = {}
        if attr in self._consts:
            return ast.Constant(value=self._consts[attr])
        return None

    def module_constant(self, name):
        """a module-level name bound ONCE, at top level, to an int / bool / None (by evaluation of the module), never
        declared global / rebound / deleted anywhere: its value as a Constant node, else None"""
        if self.mod is None or name in self.rebound or not hasattr(self.mod, name):
            return None
        v = getattr(self.mod, name)
        if not (v is None or type(v) in (int, bool)):
            return None
        binds = [x for x in ast.walk(self.tree) if isinstance(x, ast.Name) and x.id == name
                 and isinstance(x.ctx, (ast.Store, ast.Del))]
        top = [t for st in self.tree.body if isinstance(st, (ast.Assign, ast.AnnAssign))
               for t in (st.targets if isinstance(st, ast.Assign) else [st.target])
               if isinstance(t, ast.Name) and t.id == name]
        if len(binds) != 1 or len(top) != 1 or binds[0] is not top[0]:
            return None
        return ast.Constant(value=v)

    def is_logger(self, node):
        while isinstance(node, ast.Attribute):
            node = node.value
        if not isinstance(node, ast.Name) or self.mod is None or node.id in self.rebound:
            return False
        v = getattr(self.mod, node.id, None)
        return isinstance(v, (logging.Logger, logging.LoggerAdapter))

    def fresh_no(self):
        ctx = self.stack[-1]
        ctx["tmp"] = ctx.get("tmp", 0) + 1
        return ctx["tmp"]

    # ---------------------------------------------------------------------------------------------- methods
    def info(self, m, node=None, argtypes=None, entry=None):
        if m in self.done:
            d = self.done[m]
            if "error" in d:
                raise Unsupported(f"calls an untranslatable method ({m})")
            return d
        if any(c["method"] == m for c in self.stack):
            raise Unsupported(f"recursion through {m}")
        fn = self.fns.get(m)
        if fn is None:
            raise Unsupported(f"method {m} not found")
        try:
            params, extra = self.signature(m, fn, argtypes, entry)
            ctx = {"method": m, "rtype": None, "collect": set(), "raises": False, "calls": set(), "fresh": False,
                   "final": False, "entry": entry}
            self.stack.append(ctx)
            try:
                self.seq(fn.body, self.env0(params, extra, m), (), 2)          # pass 1: return types, raise flag
                ctx["rtype"] = ENTRY[entry][2] if entry else self.unify(ctx["collect"], fn)
                if entry:
                    for t in ctx["collect"]:
                        self.coerce(("x", t), ctx["rtype"], fn, "return value")
                ctx["final"] = True
                ctx["tmp"] = 0
                ctx["loops"] = []
                ctx["fresh_used"] = False
                code = self.seq(fn.body, self.env0(params, extra, m), (), 2)   # pass 2: the code
            finally:
                self.stack.pop()
            d = {"params": params, "rtype": ctx["rtype"], "code": code, "raises": ctx["raises"], "calls": ctx["calls"],
                 "fresh": ctx["fresh"], "defaults": self.defaults(fn, len(params)), "loops": ctx.get("loops", [])}
        except Unsupported as e:
            self.done[m] = {"error": str(e), "own": True}
            raise
        self.done[m] = d
        return d

    def signature(self, m, fn, argtypes, entry):
        a = fn.args
        if a.vararg or a.kwarg or a.posonlyargs or fn.decorator_list or (a.kwonlyargs and not entry):
            bad(fn, f"signature of {m}")
        for n in ast.walk(fn):
            if isinstance(n, (ast.Yield, ast.YieldFrom, ast.Await, ast.Lambda, ast.NamedExpr, ast.Global, ast.Nonlocal)):
                bad(n, f"{type(n).__name__} in {m}")
            if isinstance(n, (ast.FunctionDef, ast.ClassDef)) and n is not fn:
                bad(n, f"nested definition in {m}")
        ps = [(arg.arg, param_type(arg.annotation)) for arg in a.args[1:]]
        extra = []
        if entry:
            want = ENTRY[entry][1]
            if entry in ("ingest_error", "ingest_sensitive"):
                # their own parameters (the error, the data, source, context) only flow into the Waste's content
                return [(n, "opaque") for n, _ in ps], []
            head, tail = ps[:len(want)], ps[len(want):]
            if len(head) != len(want):
                bad(fn, f"parameters of {m} differ from the modelled ones")
            head = [(n, w) for (n, _), w in zip(head, want)]
            nd = len(a.defaults)
            for i, (name, _) in enumerate(tail):
                k = len(a.args) - 2 - (len(want) + i)        # distance from the last parameter (a.args[0] is self)
                if k >= nd:
                    bad(fn, f"extra parameter {name} of {m} has no default")
                dv = a.defaults[nd - 1 - k]
                if not isinstance(dv, ast.Constant):
                    bad(fn, f"default of extra parameter {name} is not a constant")
                extra.append((name, dv))
            for arg, dv in zip(a.kwonlyargs, a.kw_defaults):      # keyword-only parameters: the modelled call omits them
                if not isinstance(dv, ast.Constant):
                    bad(fn, f"keyword-only parameter {arg.arg} of {m} has no constant default")
                extra.append((arg.arg, dv))
            return head, extra
        if argtypes is not None:
            if len(argtypes) > len(ps):
                bad(fn, f"call of {m} with too many arguments")
            out = []
            for i, (n, t) in enumerate(ps):
                if i < len(argtypes) and argtypes[i] is not None:
                    at = argtypes[i]
                    if t != "opaque" and t != at:
                        # the annotation wins where a coercion exists (nat -> int -> oint)
                        at = t
                    out.append((n, "int" if at == "nat" and t == "int" else at))
                else:
                    out.append((n, t))
            return out, []
        return ps, []

    def defaults(self, fn, nparams):
        a = fn.args
        out = [None] * nparams
        nd = len(a.defaults)
        allp = a.args[1:]
        for i in range(min(nparams, len(allp))):
            k = len(allp) - 1 - i
            if k < nd and isinstance(a.defaults[nd - 1 - k], ast.Constant):
                out[i] = a.defaults[nd - 1 - k]
        return out

    def env0(self, params, extra, m):
        locs = {}
        for name, t in params:
            locs[name] = ("()" if t == "opaque" else f"p_{name}", t)
        env = {"locals": locs, "nonnull": set(), "handler": None, "inloop": False, "fname": m, "alias": {},
               "iterating": frozenset()}
        for name, dv in extra:
            locs[name] = self.ex(dv, env)
        return env

    def unify(self, types, node):
        ts = set(types)
        if not ts or ts == {"none"}:
            return "unit"
        if len(ts) == 1:
            t = next(iter(ts))
            if t in LEAN_T:
                return t
        if ts <= {"nat", "int"}:
            return "int"
        if ts <= {"nat", "int", "oint", "none"}:
            return "oint"
        bad(node, f"return values of types {sorted(ts)}")

    def coerce(self, val, target, node, what="value"):
        c, t = val
        if t == target:
            return c
        if target == "int" and t == "nat":
            return f"(({c} : Nat) : Int)"
        if target == "oint" and t == "int":
            return f"(some {c})"
        if target == "oint" and t == "nat":
            return f"(some (({c} : Nat) : Int))"
        if target == "oint" and t == "none":
            return "none"
        if target == "unit" and t == "none":
            return "()"
        if target == "opaque":
            return "()"
        if t == "elist" and target in ("items", "errs"):
            return "[]"
        if target == "dval" and t == "dict":
            return f"(PyVal.dict {c})"
        bad(node, f"{what} of type {t} where {target} is expected")

    # ---------------------------------------------------------------------------------------------- expressions
    def as_int(self, v):
        c, t = v
        if t == "int":
            return c
        if t == "nat":
            return f"(({c} : Nat) : Int)"
        return None

    def num2(self, a, b, node):
        (ca, ta), (cb, tb) = a, b
        if ta == tb == "nat":
            return ca, cb, "nat"
        ia, ib = self.as_int(a), self.as_int(b)
        if ia is None or ib is None:
            bad(node, f"operands of types {ta}/{tb}")
        return ia, ib, "int"

    @staticmethod
    def b_not(c):
        return "false" if c == "true" else "true" if c == "false" else f"(!{c})"

    @staticmethod
    def b_join(parts, isand):
        absorbing, neutral = ("false", "true") if isand else ("true", "false")
        if absorbing in parts:
            # Python evaluates left to right: parts before the absorbing constant are pure here, so the constant wins
            return absorbing
        parts = [p for p in parts if p != neutral]
        if not parts:
            return neutral
        return parts[0] if len(parts) == 1 else "(" + (" && " if isand else " || ").join(parts) + ")"

    def inline_helper(self, m, call, env):
        """own method whose body is `return <expr>` (after a docstring): its value in the caller's state, or None"""
        fn = self.fns.get(m)
        if fn is None:
            return None
        body = [st for st in fn.body if not (isinstance(st, ast.Expr) and isinstance(st.value, ast.Constant))]
        if len(body) != 1 or not isinstance(body[0], ast.Return) or body[0].value is None:
            return None
        a = fn.args
        if a.vararg or a.kwarg or a.kwonlyargs or a.posonlyargs or fn.decorator_list:
            return None
        if any(c["method"] == m for c in self.stack) or m in getattr(self, "_inl", []):
            bad(call, f"recursion through {m}")
        names = [x.arg for x in a.args[1:]]
        bound = {}
        for i, node in enumerate(call.args):
            if i >= len(names):
                bad(call, f"call of {m} with too many arguments")
            bound[names[i]] = node
        for k in call.keywords:
            if k.arg is None or k.arg not in names or k.arg in bound:
                bad(call, f"keyword argument in a call of {m}")
            bound[k.arg] = k.value
        nd = len(a.defaults)
        locs = {}
        for i, nme in enumerate(names):
            if nme in bound:
                locs[nme] = self.ex(bound[nme], env)
            else:
                k = len(names) - 1 - i
                if k >= nd or not isinstance(a.defaults[nd - 1 - k], ast.Constant):
                    bad(call, f"call of {m}: no argument for {nme}")
                locs[nme] = self.ex(a.defaults[nd - 1 - k], env)
        self._inl = getattr(self, "_inl", []) + [m]
        try:
            nn = {k for k in env["nonnull"] if not k.startswith("local:")}
            return self.ex(body[0].value, dict(env, locals=locs, nonnull=nn))
        finally:
            self._inl = self._inl[:-1]

    def items_like(self, v, node, what):
        c, t = v
        if t == "elist":
            return "[]", "items"
        if t not in ("items", "errs"):
            bad(node, f"{what} on a value of type {t}")
        return c, t

    def ex(self, n, env):
        """pure expression -> (lean code, type); types `rint` / `rbool` / `ritems` are Option-valued (may raise)"""
        if isinstance(n, ast.Constant):
            if n.value is None:
                return "none", "none"
            if isinstance(n.value, bool):
                return ("true" if n.value else "false"), "bool"
            if isinstance(n.value, int):
                return (str(n.value), "nat") if n.value >= 0 else (f"({n.value} : Int)", "int")
            if isinstance(n.value, str):
                return "()", "opaque"
            bad(n, f"constant {n.value!r}")
        if isinstance(n, ast.JoinedStr):
            if not self.callfree([n]):
                bad(n, "f-string with a call inside")
            return "()", "opaque"
        if isinstance(n, ast.Name):
            if n.id in env["locals"]:
                c, t = env["locals"][n.id]
                if t == "oint" and ("local:" + n.id) in env["nonnull"]:
                    return f"({c}.getD 0)", "int"
                return c, t
            k = self.module_constant(n.id)
            if k is not None:
                return self.ex(k, env)
            bad(n, f"name {n.id}")
        if isinstance(n, ast.Attribute):
            if is_self(n):
                if n.attr == "_queue":
                    return "s.queue", "items"
                if n.attr in NAT_FIELDS:
                    return f"s.{NAT_FIELDS[n.attr]}", "nat"
                if n.attr == "_recycling_bin":
                    return "s.bin", "dict"
                if n.attr in CFG_FIELDS:
                    return CFG_FIELDS[n.attr]
                if n.attr == "on_toxic":
                    return "cfg.onToxic", "callback"
                if n.attr == "_digesters":
                    return "()", "digtable"
                k = self.class_constant(n.attr)
                if k is not None:
                    return self.ex(k, env)
                bad(n, f"attribute self.{n.attr}")
            if isinstance(n.value, ast.Name) and n.value.id == CLASS and CLASS not in env["locals"]:
                k = self.class_constant(n.attr)
                if k is not None:
                    return self.ex(k, env)
            if isinstance(n.value, ast.Name) and n.value.id == "WasteType" and n.attr in WTYPES \
                    and "WasteType" not in env["locals"]:
                return WTYPES[n.attr], "wtype"
            base = self.ex(n.value, env)
            if base[1] == "item":
                if n.attr == "waste_type":
                    return f"{base[0]}.ty", "wtype"
                if n.attr == "created_at":
                    return base[0], "created"
                if n.attr in ("content", "source", "priority", "metadata"):
                    return "()", "opaque"
            if base[1] == "dres":
                if n.attr in ("success", "recycled", "disposed", "errors"):
                    return f"{base[0]}.{n.attr}", {"success": "bool", "recycled": "dict", "disposed": "nat",
                                                    "errors": "errs"}[n.attr]
            if base[1] == "wtype" and n.attr in ("value", "name"):
                return "()", "opaque"
            if base[1] == "opaque":
                return "()", "opaque"
            bad(n, f"attribute {ast.unparse(n)}")
        if isinstance(n, ast.Dict):
            if not n.keys:
                return "[]", "dict"
            if self.callfree([n]):
                return "()", "opaque"
            bad(n, "dict display with a call inside")
        if isinstance(n, (ast.List, ast.Tuple)):
            if not n.elts and isinstance(n, ast.List):
                return "[]", "elist"
            bad(n, "list display")
        if isinstance(n, ast.IfExp):
            c = self.cond(n.test, env)
            if c == "true":
                return self.ex(n.body, self.refine(env, n.test, True))
            if c == "false":
                return self.ex(n.orelse, self.refine(env, n.test, False))
            a = self.ex(n.body, self.refine(env, n.test, True))
            b = self.ex(n.orelse, self.refine(env, n.test, False))
            t = a[1] if a[1] != "elist" else b[1]
            if t == "elist":
                t = "items"
            if {a[1], b[1]} <= {"nat", "int"} and a[1] != b[1]:
                t = "int"
            ca, cb = self.coerce(a, t, n, "conditional expression"), self.coerce(b, t, n, "conditional expression")
            return f"(if {c} then {ca} else {cb})", t
        if isinstance(n, ast.Subscript):
            base = self.ex(n.value, env)
            if isinstance(n.slice, ast.Slice) and n.slice.step is None:
                bc, bt = self.items_like(base, n, "slice")
                lo, hi = n.slice.lower, n.slice.upper
                if lo is None and hi is None:
                    return bc, bt
                if lo is not None and hi is not None:
                    bad(n, "two-sided slice")
                e = self.ex(hi if hi is not None else lo, env)
                if e[1] == "none":
                    return bc, bt
                fn_nat, fn_int = ("List.take", "pySliceTo") if hi is not None else ("List.drop", "pySliceFrom")
                if e[1] == "nat":
                    return f"({fn_nat} {e[0]} {bc})", bt
                if e[1] == "int":
                    return f"({fn_int} {bc} {e[0]})", bt
                if e[1] == "oint":
                    return f"(match {e[0]} with | none => {bc} | some k => {fn_int} {bc} k)", bt
                bad(n, f"slice bound of type {e[1]}")
            bad(n, "subscript")
        if isinstance(n, ast.ListComp):
            if len(n.generators) != 1:
                bad(n, "nested comprehension")
            g = n.generators[0]
            if g.is_async or not isinstance(g.target, ast.Name) or not isinstance(n.elt, ast.Name) or n.elt.id != g.target.id:
                bad(n, "comprehension that is not a filter")
            src = self.items_like(self.ex(g.iter, env), n, "comprehension")
            if src[1] != "items":
                bad(n, "comprehension over something that is not a list of Waste")
            v = f"w{self.fresh_no()}"
            loc = dict(env["locals"]); loc[g.target.id] = (v, "item")
            env2 = dict(env, locals=loc, nonnull=env["nonnull"] - {"local:" + g.target.id})
            conds = [self.condr(c, env2) for c in g.ifs]
            if not conds:
                return src
            if all(t == "bool" for _, t in conds):
                return f"({src[0]}.filter (fun {v} => {self.b_join([c for c, _ in conds], True)}))", "items"
            if len(conds) == 1:
                return f"(pyFilterM (fun {v} => {conds[0][0]}) {src[0]})", "ritems"
            bad(n, "several comprehension tests of which one may raise")
        if isinstance(n, ast.BinOp):
            a, b = self.ex(n.left, env), self.ex(n.right, env)
            if isinstance(n.op, ast.Sub) and a[1] == "time" and b[1] == "created":
                return f"(pyTimeSub {a[0]} {b[0]})", "rint"
            if isinstance(n.op, ast.FloorDiv):
                if a[1] == "nat" and b[1] == "nat":
                    return f"({a[0]} / {b[0]})", "nat"
                bad(n, f"floor division on {a[1]}/{b[1]}")
            if isinstance(n.op, (ast.Add, ast.Mult)):
                ca, cb, t = self.num2(a, b, n)
                return f"({ca} {'+' if isinstance(n.op, ast.Add) else '*'} {cb})", t
            if isinstance(n.op, ast.Sub):
                ia, ib = self.as_int(a), self.as_int(b)
                if ia is None or ib is None:
                    bad(n, f"subtraction on {a[1]}/{b[1]}")
                return f"({ia} - {ib})", "int"
            bad(n, f"operator {type(n.op).__name__}")
        if isinstance(n, ast.Call):
            f = n.func
            if isinstance(f, ast.Name) and f.id == "len" and len(n.args) == 1 and not n.keywords and "len" not in env["locals"]:
                a = self.ex(n.args[0], env)
                if a[1] in ("items", "errs", "dict"):
                    return f"{a[0]}.length", "nat"
                if a[1] == "elist":
                    return "0", "nat"
                bad(n, f"len of a value of type {a[1]}")
            if isinstance(f, ast.Name) and f.id in ("min", "max") and len(n.args) == 2 and not n.keywords:
                ca, cb, t = self.num2(self.ex(n.args[0], env), self.ex(n.args[1], env), n)
                return f"({f.id} {ca} {cb})", t
            if isinstance(f, ast.Name) and f.id in ("str", "repr", "type") and self.callfree(n.args):
                return "()", "opaque"
            if isinstance(f, ast.Name) and f.id == "list" and len(n.args) == 1 and not n.keywords:
                a = self.ex(n.args[0], env)
                if a[1] in ("items", "errs"):
                    return a
            if (isinstance(f, ast.Attribute) and f.attr == "now" and isinstance(f.value, ast.Name)
                    and f.value.id == "datetime" and not n.args and not n.keywords):
                return "s.clock", "time"
            if isinstance(f, ast.Attribute) and f.attr == "copy" and not n.args and not n.keywords:
                a = self.ex(f.value, env)
                if a[1] in ("items", "errs", "dict"):
                    return a
            if isinstance(f, ast.Attribute) and f.attr == "get" and is_self(f.value, "_digesters"):
                return self.digester_lookup(n, n.args[0] if n.args else None, n.args[1] if len(n.args) > 1 else None, env)
            if isinstance(f, ast.Name) and f.id == "DigestResult" and "DigestResult" not in env["locals"]:
                return self.digest_result(n, env)
            if isinstance(f, ast.Name) and f.id == "Waste" and "Waste" not in env["locals"]:
                return self.new_waste(n, env)
            if is_self(f) and f.attr in self.fns:
                v = self.inline_helper(f.attr, n, env)
                if v is not None:
                    return v
                bad(n, f"call of self.{f.attr}(...) inside an expression")
            bad(n, f"call {ast.unparse(f)}(...) in an expression")
        if isinstance(n, (ast.Compare, ast.BoolOp)) or isinstance(n, ast.UnaryOp) and isinstance(n.op, ast.Not):
            return self.condr(n, env)
        if isinstance(n, ast.UnaryOp) and isinstance(n.op, ast.USub):
            a = self.as_int(self.ex(n.operand, env))
            if a is None:
                bad(n, "negation of a non-integer")
            return f"(-{a})", "int"
        bad(n, f"expression {type(n).__name__}")

    def digester_lookup(self, n, key, default, env):
        if key is None or n.keywords:
            bad(n, "digester table lookup")
        k = self.ex(key, env)
        if k[1] != "wtype" or not k[0].endswith(".ty"):
            bad(n, "digester table looked up by something other than <waste>.waste_type")
        if default is not None and not (is_self(default) and default.attr in self.fns):
            bad(n, "digester table default")
        return k[0][:-3], "digester"

    def digest_result(self, n, env):
        order = ["success", "recycled", "disposed", "errors"]
        want = {"success": "bool", "recycled": "dict", "disposed": "nat", "errors": "errs"}
        got = {}
        for i, a in enumerate(n.args):
            if i >= 4:
                bad(n, "DigestResult arguments")
            got[order[i]] = a
        for k in n.keywords:
            if k.arg not in want or k.arg in got:
                bad(n, "DigestResult keyword")
            got[k.arg] = k.value
        if "success" not in got:
            bad(n, "DigestResult without success")
        parts = []
        for k in order:
            if k in got:
                v = self.ex(got[k], env)
                if v[1] == "elist":
                    v = ("[]", want[k])
                parts.append(self.coerce(v, want[k], n, f"DigestResult.{k}"))
            else:
                parts.append({"recycled": "[]", "disposed": "0", "errors": "[]"}[k])
        return "(PyDigestResult.mk " + " ".join(parts) + ")", "dres"

    def new_waste(self, n, env):
        ctx = self.stack[-1]
        order = ["waste_type", "content", "source", "created_at", "priority", "metadata"]
        got = {}
        for i, a in enumerate(n.args):
            if i >= len(order):
                bad(n, "Waste arguments")
            got[order[i]] = a
        for k in n.keywords:
            if k.arg not in order or k.arg in got:
                bad(n, "Waste keyword")
            got[k.arg] = k.value
        if "created_at" in got:
            bad(n, "Waste(created_at=...) built inside the library")
        if "waste_type" not in got or "content" not in got:
            bad(n, "Waste without type or content")
        t = self.ex(got["waste_type"], env)
        if t[1] != "wtype":
            bad(n, "Waste type")
        for k in ("content", "source", "priority", "metadata"):
            if k in got and not self.callfree([got[k]]):
                bad(n, f"Waste {k} with a call inside")
        if env["inloop"]:
            bad(n, "Waste built inside a loop")
        if ctx.get("fresh_used"):
            bad(n, "more than one Waste built in a method")
        ctx["fresh"] = True
        if ctx["final"]:
            ctx["fresh_used"] = True
        return f"{{ fresh with ty := {t[0]} }}", "item"

    def truthy(self, v, n):
        c, t = v
        if t == "bool":
            return c, "bool"
        if t == "rbool":
            return c, "rbool"
        if t == "oint":
            return f"(pyTruthyOInt {c})", "bool"
        if t == "nat":
            return f"(decide ({c} ≠ 0))", "bool"
        if t == "int":
            return f"(decide ({c} ≠ 0))", "bool"
        if t in ("items", "errs", "dict"):
            return f"(!{c}.isEmpty)", "bool"
        if t == "dval":
            return f"(PyVal.truthy {c})", "bool"
        if t == "elist":
            return "false", "bool"
        if t == "callback":
            return f"{c}.isSome", "bool"
        if t == "none":
            return "false", "bool"
        if t in ("item", "dres", "time", "wtype", "digester"):
            return "true", "bool"
        bad(n, f"truthiness of a value of type {t}")

    def cond(self, n, env):
        c, t = self.condr(n, env)
        if t != "bool":
            bad(n, "a test that may raise, outside a comprehension")
        return c

    def condr(self, n, env):
        """boolean expression -> (code, 'bool' | 'rbool')"""
        if isinstance(n, ast.BoolOp):
            isand = isinstance(n.op, ast.And)
            parts, env2 = [], env
            for v in n.values:
                parts.append(self.condr(v, env2))
                if parts[-1][0] == ("false" if isand else "true"):
                    break                   # decided at translation time: what follows is never evaluated
                env2 = self.refine(env2, v, isand)
            if any(t != "bool" for _, t in parts):
                bad(n, "and/or over a test that may raise")
            return self.b_join([c for c, _ in parts], isand), "bool"
        if isinstance(n, ast.UnaryOp) and isinstance(n.op, ast.Not):
            c, t = self.condr(n.operand, env)
            if t == "rbool":
                return f"({c}.map (fun b => !b))", "rbool"
            return self.b_not(c), "bool"
        if isinstance(n, ast.Compare):
            if len(n.ops) != 1:
                bad(n, "chained comparison")
            op, a, b = n.ops[0], self.ex(n.left, env), self.ex(n.comparators[0], env)
            if isinstance(op, (ast.In, ast.NotIn)):
                if a[1] == "item" and b[1] in ("items", "elist"):
                    c = "false" if b[1] == "elist" else f"({b[0]}.contains {a[0]})"
                    return (c if isinstance(op, ast.In) else self.b_not(c)), "bool"
                bad(n, f"`in` on {a[1]}/{b[1]}")
            if isinstance(op, (ast.Is, ast.IsNot)):
                if b[1] != "none":
                    bad(n, "`is` other than `<value> is None`")
                if a[1] == "none":
                    c = "true"
                elif a[1] == "oint":
                    c = f"{a[0]}.isNone"
                elif a[1] == "callback":
                    c = f"{a[0]}.isNone"
                elif a[1] in LEAN_T:
                    c = "false"
                else:
                    bad(n, f"`is None` on a value of type {a[1]}")
                return (c if isinstance(op, ast.Is) else self.b_not(c)), "bool"
            sym = {ast.Eq: "=", ast.NotEq: "≠", ast.Lt: "<", ast.LtE: "≤", ast.Gt: ">", ast.GtE: "≥"}.get(type(op))
            if sym is None:
                bad(n, f"comparison {type(op).__name__}")
            if a[1] == "rint" and b[1] == "tdelta":
                return f"({a[0]}.map (fun d => decide (d {sym} {b[0]})))", "rbool"
            if a[1] == "tdelta" and b[1] == "rint":
                return f"({b[0]}.map (fun d => decide ({a[0]} {sym} d)))", "rbool"
            if a[1] == "wtype" and b[1] == "wtype" and sym in ("=", "≠"):
                return f"(decide ({a[0]} {sym} {b[0]}))", "bool"
            if a[1] == "bool" and b[1] == "bool" and sym in ("=", "≠"):
                return f"(decide ({a[0]} {sym} {b[0]}))", "bool"
            if a[1] in ("nat", "int") and b[1] in ("nat", "int"):
                ca, cb, _ = self.num2(a, b, n)
                return f"(decide ({ca} {sym} {cb}))", "bool"
            if a[1] == "oint" and b[1] in ("nat", "int") and sym in ("=", "≠"):
                return f"(decide ({a[0]} {sym} some {self.as_int(b)}))", "bool"
            if a[1] == "none" and b[1] in ("nat", "int") and sym in ("=", "≠"):
                return ("false" if sym == "=" else "true"), "bool"
            bad(n, f"comparison of {a[1]} with {b[1]}")
        if isinstance(n, ast.Attribute) and is_self(n, "silent"):
            bad(n, "self.silent in a test that guards more than console output")
        return self.truthy(self.ex(n, env), n)

    # --- what a test establishes about Optionals ---------------------------------------------------------------
    def opt_key(self, n, env):
        if is_self(n, "on_toxic"):
            return "on_toxic"
        if isinstance(n, ast.Name) and n.id in env["locals"] and env["locals"][n.id][1] == "oint":
            return "local:" + n.id
        return None

    def established(self, test, env, truth):
        out = set()
        if isinstance(test, ast.UnaryOp) and isinstance(test.op, ast.Not):
            return self.established(test.operand, env, not truth)
        if isinstance(test, ast.BoolOp):
            if isinstance(test.op, ast.And) == truth:
                for v in test.values:
                    out |= self.established(v, env, truth)
            return out
        if isinstance(test, ast.Compare) and len(test.ops) == 1 and isinstance(test.ops[0], (ast.Is, ast.IsNot)) \
                and isinstance(test.comparators[0], ast.Constant) and test.comparators[0].value is None:
            k = self.opt_key(test.left, env)
            if k and (isinstance(test.ops[0], ast.IsNot) == truth):
                out.add(k)
            return out
        k = self.opt_key(test, env)
        if k and truth:
            out.add(k)
        return out

    def refine(self, env, test, truth):
        return dict(env, nonnull=set(env["nonnull"]) | self.established(test, env, truth))

    # ---------------------------------------------------------------------------------------------- statements
    def callfree(self, nodes):
        for n in nodes:
            for c in ast.walk(n):
                if isinstance(c, ast.Call):
                    f = c.func
                    if isinstance(f, ast.Name) and f.id in BENIGN:
                        continue
                    if isinstance(f, ast.Attribute) and f.attr in ("get", "items", "keys", "values", "format", "join",
                                                                    "strip", "lower", "upper", "isoformat", "total_seconds") \
                            and not any(is_self(x) and x.attr in self.fns for x in ast.walk(f)):
                        continue
                    return False
                if isinstance(c, (ast.NamedExpr, ast.Await, ast.Yield, ast.YieldFrom, ast.Lambda)):
                    return False
        return True

    def log_level(self, st):
        """`<logger>.<level>(...)` statement -> level name, else None"""
        if isinstance(st, ast.Expr) and isinstance(st.value, ast.Call):
            f = st.value.func
            if isinstance(f, ast.Attribute) and self.is_logger(f.value):
                if not self.callfree(st.value.args + [k.value for k in st.value.keywords]):
                    bad(st, "logging call with a call in its arguments")
                if f.attr in WARN_LEVELS or f.attr in QUIET_LEVELS:
                    return f.attr
                bad(st, f"logger.{f.attr}(...)")
        return None

    def noop(self, st, env):
        if isinstance(st, ast.Pass):
            return True
        if isinstance(st, ast.Expr):
            v = st.value
            if isinstance(v, ast.Constant):
                return True
            if isinstance(v, ast.Call):
                f = v.func
                args = v.args + [k.value for k in v.keywords]
                if isinstance(f, ast.Name) and f.id == "print" and "print" not in env["locals"]:
                    return self.callfree(args)
                lvl = self.log_level(st)
                if lvl in QUIET_LEVELS:
                    return True
                if lvl in WARN_LEVELS and env["fname"] not in ("_auto_digest", "_emergency_digest"):
                    return True
            return False
        if isinstance(st, ast.AugAssign):
            t = st.target
            if isinstance(t, ast.Subscript) and is_self(t.value) and t.value.attr in DROPPED_FIELDS:
                return self.callfree([t.slice, st.value])
            return False
        if isinstance(st, (ast.Assign, ast.AnnAssign)):
            tg = st.targets if isinstance(st, ast.Assign) else [st.target]
            if isinstance(st, ast.AnnAssign) and st.value is None:
                return True
            if len(tg) == 1 and isinstance(tg[0], ast.Subscript) and is_self(tg[0].value) \
                    and tg[0].value.attr in DROPPED_FIELDS:
                return self.callfree([tg[0].slice, st.value])
            return False
        if isinstance(st, ast.If):
            silent_only = all(not is_self(x, "silent") for x in ast.walk(st)) or True
            return silent_only and self.callfree([st.test]) and all(self.noop(x, env) for x in st.body + st.orelse)
        return False

    def emit_ret(self, val, node, pad):
        ctx = self.stack[-1]
        c, t = val
        if t in ("rint", "rbool", "ritems", "created", "callback", "digtable", "digester"):
            bad(node, f"return of a value of type {t}")
        if not ctx["final"]:
            ctx["collect"].add(t)
            return f"{pad}(s, ())"
        rt = ctx["rtype"]
        v = "()" if rt == "unit" else self.coerce(val if t != "elist" else ("[]", rt), rt, node, "return value")
        return f"{pad}(s, some {v})" if ctx["raises"] else f"{pad}(s, {v})"

    def raise_path(self, env, node, ind, ename_val=None):
        """code for: an exception is raised here"""
        h = env["handler"]
        if h is not None:
            hstmts, ename, hk, outer = h
            loc = dict(env["locals"])
            if ename:
                loc[ename] = ("()", "opaque")
            return self.seq(hstmts, dict(env, handler=outer, locals=loc), hk, ind)
        if env["inloop"]:
            bad(node, "an exception that would leave a loop")
        ctx = self.stack[-1]
        ctx["raises"] = True
        return "  " * ind + "(s, none)"

    def bind(self, env, name, val):
        """(let-line or None, env') for `name = val`"""
        c, t = val
        loc = dict(env["locals"])
        nn = set(env["nonnull"]) - {"local:" + name}
        if t in ("none", "elist", "opaque", "digester", "created", "callback", "digtable"):
            loc[name] = (c, t)
            return None, dict(env, locals=loc, nonnull=nn)
        if t in ("rint", "rbool", "ritems"):
            bad(None, f"a value that may raise bound to {name}")
        v = f"v_{name}"
        loc[name] = (v, t)
        return f"let {v} : {LEAN_T[t]} := {c}", dict(env, locals=loc, nonnull=nn)

    def effect_call(self, n, env):
        """classify the principal expression of a statement: None (pure) or a tuple describing an effectful call"""
        if not isinstance(n, ast.Call):
            return None
        f = n.func
        if is_self(f, "on_toxic"):
            return ("callback", n)
        if isinstance(f, ast.Name) and f.id in env["locals"] and env["locals"][f.id][1] == "digester":
            return ("digester", n, env["locals"][f.id][0])
        if isinstance(f, ast.Call) or isinstance(f, ast.Subscript):
            # self._digesters.get(w.waste_type, d)(w)  /  self._digesters[w.waste_type](w)  /  self._helper(w)(w)
            try:
                if isinstance(f, ast.Subscript) and is_self(f.value, "_digesters"):
                    v = self.digester_lookup(f, f.slice, None, env)
                else:
                    v = self.ex(f, env)
            except Unsupported:
                return None
            if v[1] == "digester":
                return ("digester", n, v[0])
        if is_self(f) and f.attr in self.fns:
            if self.inline_helper_possible(f.attr):
                return None
            return ("own", n)
        return None

    def inline_helper_possible(self, m):
        fn = self.fns.get(m)
        body = [st for st in fn.body if not (isinstance(st, ast.Expr) and isinstance(st.value, ast.Constant))]
        return len(body) == 1 and isinstance(body[0], ast.Return) and body[0].value is not None

    def own_call(self, call, env):
        m = call.func.attr
        fn = self.fns[m]
        names = [x.arg for x in fn.args.args[1:]]
        nodes = {}
        for i, a in enumerate(call.args):
            if i >= len(names):
                bad(call, f"call of {m} with too many arguments")
            nodes[i] = a
        for k in call.keywords:
            if k.arg is None or k.arg not in names or names.index(k.arg) in nodes:
                bad(call, f"keyword argument in a call of {m}")
            nodes[names.index(k.arg)] = k.value
        vals = {i: self.ex(a, env) for i, a in nodes.items()}
        argtypes = [vals[i][1] if i in vals else None for i in range(len(names))]
        if m in self.entry_of:          # an entry point called by another method keeps its fixed signature
            d = self.info(m, call, entry=self.entry_of[m])
        else:
            d = self.info(m, call, argtypes=argtypes)
        args = []
        for i, (pn, pt) in enumerate(d["params"]):
            if i in vals:
                v = vals[i]
            elif d["defaults"][i] is not None:
                v = self.ex(d["defaults"][i], env)
            else:
                bad(call, f"call of {m}: no argument for {pn}")
            c = self.coerce(v, pt, call, f"argument {pn} of {m}")
            args.append(c if c.startswith("(") or " " not in c else f"({c})")
        ctx = self.stack[-1]
        ctx["calls"].add(m)
        if d["fresh"]:
            if ctx.get("fresh_used") or env["inloop"]:
                bad(call, "more than one Waste built on a path")
            ctx["fresh"] = True
            if ctx["final"]:
                ctx["fresh_used"] = True
            args.append("fresh")
        return d, " ".join([f"Tr.{lname(m)}", "cfg", "s"] + args)

    def do_effect(self, eff, env, ind, cont):
        """emit an effectful call; `cont(value, env, ind)` continues with its (code, type) value"""
        pad = "  " * ind
        kind, call = eff[0], eff[1]
        if kind == "callback":
            if "on_toxic" not in env["nonnull"]:
                bad(call, "self.on_toxic(...) not under a test that it is set")
            if len(call.args) != 1 or call.keywords:
                bad(call, "on_toxic arguments")
            a = self.ex(call.args[0], env)
            if a[1] != "item":
                bad(call, "on_toxic argument")
            okc = cont(("none", "none"), env, ind + 1)
            rz = self.raise_path(env, call, ind + 1)
            return (f"{pad}let s : PyS := {{ s with toxicLog := s.toxicLog ++ [{a[0]}] }}\n"
                    f"{pad}if pyCallback cfg {a[0]} then\n{okc}\n{pad}else\n{rz}")
        if kind == "digester":
            if len(call.args) != 1 or call.keywords:
                bad(call, "digester arguments")
            a = self.ex(call.args[0], env)
            if a[1] != "item" or a[0] != eff[2]:
                bad(call, "a digester called on an item other than the one it was looked up for")
            r = f"d{self.fresh_no()}"
            okc = cont((r + "v", "dval"), env, ind + 1)
            rz = self.raise_path(env, call, ind + 1)
            return (f"{pad}let {r} := pyCallDigester cfg {a[0]}\n"
                    f"{pad}let s : PyS := {{ s with toxicLog := s.toxicLog ++ {r}.2 }}\n"
                    f"{pad}match {r}.1 with\n{pad}| none =>\n{rz}\n{pad}| some {r}v =>\n{okc}")
        if kind == "own":
            d, app = self.own_call(call, env)
            env2 = env
            r = f"r{self.fresh_no()}"
            rt = d["rtype"]
            head = f"{pad}let {r} := {app}\n{pad}let s : PyS := {r}.1\n"
            if d["raises"]:
                okc = cont((f"{r}v", rt) if rt != "unit" else ("none", "none"), env2, ind + 1)
                rz = self.raise_path(env2, call, ind + 1)
                return head + f"{pad}match {r}.2 with\n{pad}| none =>\n{rz}\n{pad}| some {r}v =>\n{okc}"
            return head + cont((f"{r}.2", rt) if rt != "unit" else ("none", "none"), env2, ind)
        raise AssertionError(kind)

    def with_value(self, node, env, ind, cont):
        """evaluate the principal expression `node` of a statement, then `cont((code,type), env, ind)`"""
        pad = "  " * ind
        if node is None:
            return cont(("none", "none"), env, ind)
        eff = self.effect_call(node, env)
        if eff is not None:
            return self.do_effect(eff, env, ind, cont)
        v = self.ex(node, env)
        if v[1] in ("rint", "rbool", "ritems"):
            x = f"x{self.fresh_no()}"
            t = {"rint": "int", "rbool": "bool", "ritems": "items"}[v[1]]
            okc = cont((x, t), env, ind + 1)
            rz = self.raise_path(env, node, ind + 1)
            return f"{pad}match {v[0]} with\n{pad}| none =>\n{rz}\n{pad}| some {x} =>\n{okc}"
        return cont(v, env, ind)

    # --- aliasing: lists and dicts are translated as VALUES; that is only right while no two names share one object that
    # is then mutated in place, and while a list is not mutated in place during its own iteration (which could also
    # make the loop endless)
    def alias_root(self, n, env):
        """the shared object an expression evaluates to WITHOUT copying: 'self._queue', 'self._recycling_bin',
        'local:<name>' — or None when the value is fresh (slice, list(), comprehension, literal, call result)"""
        if isinstance(n, ast.IfExp):
            return self.alias_root(n.body, env) or self.alias_root(n.orelse, env)
        if is_self(n) and n.attr in ("_queue", "_recycling_bin"):
            return "self." + n.attr
        if isinstance(n, ast.Name) and n.id in env["locals"] and env["locals"][n.id][1] in ("items", "errs", "dict", "elist"):
            return env["alias"].get(n.id, "local:" + n.id)
        if isinstance(n, ast.Attribute) and not is_self(n):
            try:
                v = self.ex(n.value, env)
            except Unsupported:
                return None
            if v[1] == "dres" and isinstance(n.value, ast.Name):
                return f"local:{n.value.id}.{n.attr}"
        return None

    def check_inplace(self, node, obj, env):
        """`obj` (a root as above) is about to be mutated in place"""
        if obj in env["iterating"]:
            bad(node, f"{obj} mutated in place while it is being iterated")
        shared = [k for k, r in env["alias"].items() if r == obj and "local:" + k != obj]
        if shared or (obj.startswith("local:") and env["alias"].get(obj[6:], obj) != obj):
            bad(node, f"{obj} mutated in place while another name refers to the same object")

    def mutates_queue_in_place(self, stmts, seen=None):
        """could running these statements mutate self._queue / the bin in place (directly or through own methods)?"""
        seen = seen if seen is not None else set()
        for st in stmts:
            for n in ast.walk(st):
                if isinstance(n, ast.Call) and isinstance(n.func, ast.Attribute):
                    f = n.func
                    if is_self(f.value) and f.value.attr in ("_queue", "_recycling_bin") and f.attr not in ("get", "copy", "items", "keys", "values", "index", "count"):
                        return True
                    if is_self(f) and f.attr in self.fns and f.attr not in seen:
                        seen.add(f.attr)
                        if self.mutates_queue_in_place(self.fns[f.attr].body, seen):
                            return True
        return False

    def assigned_names(self, stmts):
        out = []
        for st in stmts:
            for n in ast.walk(st):
                tg = []
                if isinstance(n, ast.Assign):
                    tg = n.targets
                elif isinstance(n, (ast.AugAssign, ast.AnnAssign)):
                    tg = [n.target]
                elif isinstance(n, ast.For):
                    tg = [n.target]
                elif isinstance(n, ast.ExceptHandler) and n.name:
                    out.append(n.name)
                for t in tg:
                    if isinstance(t, ast.Name) and t.id not in out:
                        out.append(t.id)
                if isinstance(n, ast.Call) and isinstance(n.func, ast.Attribute) and isinstance(n.func.value, ast.Name) \
                        and n.func.attr in ("append", "update", "extend", "clear", "pop", "insert", "remove") \
                        and n.func.value.id not in out:
                    out.append(n.func.value.id)
        return out

    def resolve_elist(self, name, env, stmts_after):
        """an untyped `[]`: list of error strings or list of Waste?  decided by the first append in what follows"""
        for st in stmts_after:
            for n in ast.walk(st):
                if isinstance(n, ast.Call) and isinstance(n.func, ast.Attribute) and n.func.attr == "append" \
                        and isinstance(n.func.value, ast.Name) and n.func.value.id == name and len(n.args) == 1:
                    a = n.args[0]
                    if isinstance(a, (ast.JoinedStr, ast.Constant)) or isinstance(a, ast.Call) and isinstance(a.func, ast.Name) \
                            and a.func.id in ("str", "repr"):
                        return "errs"
                    return "items"
        return "errs"

    def seq(self, stmts, env, k, ind):
        pad = "  " * ind
        ctx = self.stack[-1]
        if not stmts:
            if not k:
                return self.emit_ret(("none", "none"), None, pad)
            fr, k2 = k[0], k[1:]
            if fr[0] == "stmts":
                return self.seq(fr[1], env, k2, ind)
            if fr[0] == "endtry":
                return self.seq([], dict(env, handler=fr[1]), k2, ind)
            if fr[0] == "loopend":
                return pad + tup(["s"] + [self.coerce(env["locals"][a], t, None, f"loop variable {a}") for a, t in fr[1]])
            raise AssertionError(fr)
        st, rest = stmts[0], stmts[1:]
        split = self.split_tuple_assign(st)
        if split is not None:
            return self.seq(split + list(rest), env, k, ind)
        kk = (("stmts", rest),) + k if rest else k
        if self.noop(st, env):
            return self.seq(rest, env, k, ind)
        if isinstance(st, ast.With):
            if len(st.items) == 1 and is_self(st.items[0].context_expr, "_lock") and st.items[0].optional_vars is None:
                return self.seq(st.body + rest, env, k, ind)
            bad(st, "`with` on something other than self._lock")
        if isinstance(st, ast.Continue):
            if not env["inloop"]:
                bad(st, "continue outside a loop")
            k3 = k
            while k3 and k3[0][0] != "loopend":
                k3 = k3[1:]
            return self.seq([], env, k3, ind)
        if isinstance(st, ast.Return):
            if env["inloop"]:
                bad(st, "return inside a loop")
            return self.with_value(st.value, dict(env, handler=None) if False else env, ind,
                                   lambda v, e, i: self.emit_ret(v, st, "  " * i))
        if isinstance(st, ast.If):
            c = self.cond(st.test, env)
            if c == "true":
                return self.seq(st.body, self.refine(env, st.test, True), kk, ind)
            if c == "false":
                return self.seq(st.orelse, self.refine(env, st.test, False), kk, ind)
            a = self.seq(st.body, self.refine(env, st.test, True), kk, ind + 1)
            b = self.seq(st.orelse, self.refine(env, st.test, False), kk, ind + 1)
            return f"{pad}if {c} then\n{a}\n{pad}else\n{b}"
        if isinstance(st, ast.Try):
            if len(st.handlers) != 1 or st.orelse or st.finalbody:
                bad(st, "try with else/finally or several handlers")
            h = st.handlers[0]
            if h.type is not None and not (isinstance(h.type, ast.Name) and h.type.id in ("Exception", "BaseException")):
                bad(st, "handler for something narrower than Exception")
            handler = (h.body, h.name, kk, env["handler"])
            return self.seq(st.body, dict(env, handler=handler), (("endtry", env["handler"]),) + kk, ind)
        if isinstance(st, ast.For):
            return self.loop(st, rest, env, k, ind)
        lvl = self.log_level(st)
        if lvl in WARN_LEVELS:       # (quiet levels and other functions are no-ops, handled above)
            fld = "autoLogged" if env["fname"] == "_auto_digest" else "emLogged"
            return f"{pad}let s : PyS := {{ s with {fld} := s.{fld} + 1 }}\n" + self.seq(rest, env, k, ind)
        if isinstance(st, (ast.Assign, ast.AnnAssign)):
            tg = st.targets if isinstance(st, ast.Assign) else [st.target]
            if len(tg) != 1:
                bad(st, "multiple assignment targets")
            tgt = tg[0]
            ann = param_type(st.annotation) if isinstance(st, ast.AnnAssign) else None

            def after(v, e, i):
                p = "  " * i
                if is_self(tgt):
                    if tgt.attr in ("_queue", "_recycling_bin"):
                        root = self.alias_root(st.value, e) if st.value is not None else None
                        al = {kk: r for kk, r in e["alias"].items() if r != "self." + tgt.attr}
                        if root is not None and root.startswith("local:") and "." not in root:
                            al[root[6:]] = "self." + tgt.attr
                        elif root is not None and root != "self." + tgt.attr:
                            bad(st, f"self.{tgt.attr} bound to an object that another name refers to")
                        e = dict(e, alias=al)
                    if tgt.attr == "_queue":
                        c = self.coerce(v if v[1] != "elist" else ("[]", "items"), "items", st, "assignment to self._queue")
                        return f"{p}let s : PyS := {{ s with queue := {c} }}\n" + self.seq(rest, e, k, i)
                    if tgt.attr in NAT_FIELDS:
                        if v[1] != "nat":
                            bad(st, f"assignment of a {v[1]} to self.{tgt.attr}")
                        return f"{p}let s : PyS := {{ s with {NAT_FIELDS[tgt.attr]} := {v[0]} }}\n" + self.seq(rest, e, k, i)
                    if tgt.attr == "_recycling_bin":
                        if v[1] != "dict":
                            bad(st, "assignment to self._recycling_bin")
                        return f"{p}let s : PyS := {{ s with bin := {v[0]} }}\n" + self.seq(rest, e, k, i)
                    bad(st, f"assignment to self.{tgt.attr}")
                if isinstance(tgt, ast.Name):
                    if v[1] == "elist":
                        t = ann if ann in ("items", "errs") else None
                        if isinstance(st, ast.AnnAssign) and t is None:
                            src = ast.unparse(st.annotation).replace(" ", "")
                            t = "errs" if "str" in src else "items" if "Waste" in src else None
                        v = ("[]", t or self.resolve_elist(tgt.id, e, rest + [x for fr in k if fr[0] == "stmts" for x in fr[1]]))
                    line, e2 = self.bind(e, tgt.id, v)
                    al = {kk: r for kk, r in e2["alias"].items() if kk != tgt.id and r != "local:" + tgt.id}
                    root = self.alias_root(st.value, e) if st.value is not None else None
                    if root is not None and root != "local:" + tgt.id:
                        al[tgt.id] = root
                    e2 = dict(e2, alias=al)
                    return (f"{p}{line}\n" if line else "") + self.seq(rest, e2, k, i)
                bad(st, "assignment target")
            return self.with_value(st.value, env, ind, after)
        if isinstance(st, ast.AugAssign):
            tgt = st.target
            if not isinstance(st.op, (ast.Add, ast.Sub)):
                bad(st, f"augmented assignment {type(st.op).__name__}")
            rhs = self.ex(st.value, env)
            if is_self(tgt) and tgt.attr in NAT_FIELDS and isinstance(st.op, ast.Add) and rhs[1] == "nat":
                f = NAT_FIELDS[tgt.attr]
                return f"{pad}let s : PyS := {{ s with {f} := s.{f} + {rhs[0]} }}\n" + self.seq(rest, env, k, ind)
            if isinstance(tgt, ast.Name) and tgt.id in env["locals"]:
                cur = env["locals"][tgt.id]
                if isinstance(st.op, ast.Add):
                    if cur[1] in ("items", "errs") and rhs[1] == cur[1]:
                        val = (f"({cur[0]} ++ {rhs[0]})", cur[1])
                    else:
                        ca, cb, t = self.num2(cur, rhs, st)
                        val = (f"({ca} + {cb})", t)
                else:
                    ia, ib = self.as_int(cur), self.as_int(rhs)
                    if ia is None or ib is None:
                        bad(st, "-= on non-integers")
                    val = (f"({ia} - {ib})", "int")
                line, env2 = self.bind(env, tgt.id, val)
                return f"{pad}{line}\n" + self.seq(rest, env2, k, ind)
            bad(st, f"augmented assignment to {ast.unparse(tgt)}")
        if isinstance(st, ast.Expr) and isinstance(st.value, ast.Call):
            call = st.value
            f = call.func
            if isinstance(f, ast.Attribute) and f.attr in ("append", "update", "clear", "extend") and not call.keywords:
                recv = f.value
                if is_self(recv, "_queue") and f.attr == "append" and len(call.args) == 1:
                    self.check_inplace(st, "self._queue", env)
                    a = self.ex(call.args[0], env)
                    if a[1] != "item":
                        bad(st, "append of a non-Waste to the queue")
                    return f"{pad}let s : PyS := {{ s with queue := s.queue ++ [{a[0]}] }}\n" + self.seq(rest, env, k, ind)
                if is_self(recv, "_recycling_bin") and f.attr == "update" and len(call.args) == 1:
                    self.check_inplace(st, "self._recycling_bin", env)
                    a = self.ex(call.args[0], env)
                    if a[1] == "dval":
                        # what a digester handed back, merged as it is: `update` may raise after merging a prefix
                        u = f"u{self.fresh_no()}"
                        okc = self.seq(rest, env, k, ind + 1)
                        rz = self.raise_path(env, call, ind + 1)
                        return (f"{pad}let {u} := pyDictUpdateM s.bin {a[0]}\n"
                                f"{pad}let s : PyS := {{ s with bin := {u}.1 }}\n"
                                f"{pad}if {u}.2 then\n{rz}\n{pad}else\n{okc}")
                    if a[1] != "dict":
                        bad(st, "update of the recycling bin with a non-dict")
                    return f"{pad}let s : PyS := {{ s with bin := dictUpdate s.bin {a[0]} }}\n" + self.seq(rest, env, k, ind)
                if is_self(recv, "_recycling_bin") and f.attr == "clear" and not call.args:
                    self.check_inplace(st, "self._recycling_bin", env)
                    return f"{pad}let s : PyS := {{ s with bin := [] }}\n" + self.seq(rest, env, k, ind)
                if isinstance(recv, ast.Name) and recv.id in env["locals"]:
                    cur = env["locals"][recv.id]
                    self.check_inplace(st, env["alias"].get(recv.id, "local:" + recv.id), env)
                    if f.attr == "append" and len(call.args) == 1:
                        a = self.ex(call.args[0], env)
                        if cur[1] == "errs" and a[1] == "opaque":
                            val = (f"({cur[0]} ++ [()])", "errs")
                        elif cur[1] == "items" and a[1] == "item":
                            val = (f"({cur[0]} ++ [{a[0]}])", "items")
                        else:
                            bad(st, f"append of a {a[1]} to a {cur[1]}")
                    elif f.attr == "update" and len(call.args) == 1:
                        a = self.ex(call.args[0], env)
                        if cur[1] == "dict" and a[1] == "dval":
                            # what a digester handed back, merged as it is: `update` may raise after merging a prefix
                            # (the local dict keeps that prefix: it is mutated in place)
                            u = f"u{self.fresh_no()}"
                            line, env2 = self.bind(env, recv.id, (f"{u}.1", "dict"))
                            okc = self.seq(rest, env2, k, ind + 1)
                            rz = self.raise_path(env2, call, ind + 1)
                            return (f"{pad}let {u} := pyDictUpdateM {cur[0]} {a[0]}\n{pad}{line}\n"
                                    f"{pad}if {u}.2 then\n{rz}\n{pad}else\n{okc}")
                        if cur[1] != "dict" or a[1] != "dict":
                            bad(st, f"update of a {cur[1]} with a {a[1]}")
                        val = (f"(dictUpdate {cur[0]} {a[0]})", "dict")
                    elif f.attr == "extend" and len(call.args) == 1:
                        a = self.ex(call.args[0], env)
                        if cur[1] not in ("items", "errs") or a[1] != cur[1]:
                            bad(st, f"extend of a {cur[1]} with a {a[1]}")
                        val = (f"({cur[0]} ++ {a[0]})", cur[1])
                    else:
                        bad(st, f"{recv.id}.{f.attr}(...)")
                    line, env2 = self.bind(env, recv.id, val)
                    return f"{pad}{line}\n" + self.seq(rest, env2, k, ind)
            eff = self.effect_call(call, env)
            if eff is not None:
                return self.do_effect(eff, env, ind, lambda v, e, i: self.seq(rest, e, k, i))
            if is_self(f) and f.attr in self.fns and self.inline_helper_possible(f.attr):
                self.ex(call, env)          # a pure helper whose value is discarded: checked, then nothing
                return self.seq(rest, env, k, ind)
            bad(st, f"call {ast.unparse(f)}(...)")
        bad(st, f"statement {type(st).__name__}")

    @staticmethod
    def split_tuple_assign(st):
        """`a, b = e1, e2` -> [`a = e1`, `b = e2`] when that is the same thing: Python evaluates the whole right-hand
        side first, so no target of an earlier element (a name, or the attribute it names) may occur in a later
        right-hand side; call-free right-hand sides only.  None when `st` is not such a statement."""
        if not (isinstance(st, ast.Assign) and len(st.targets) == 1 and isinstance(st.targets[0], ast.Tuple)
                and isinstance(st.value, ast.Tuple) and len(st.targets[0].elts) == len(st.value.elts) >= 2):
            return None
        tgts, vals = st.targets[0].elts, st.value.elts
        seen = []
        for t_, v_ in zip(tgts, vals):
            if not (isinstance(t_, ast.Name) or is_self(t_)):
                return None
            if any(isinstance(x, ast.Call) and not (isinstance(x.func, ast.Name) and x.func.id == "len")
                   for x in ast.walk(v_)):
                return None
            for x in ast.walk(v_):
                for prev in seen:
                    if isinstance(prev, ast.Name) and isinstance(x, ast.Name) and x.id == prev.id:
                        return None
                    if is_self(prev) and is_self(x) and x.attr == prev.attr:
                        return None
            seen.append(t_)
        return [ast.copy_location(ast.Assign(targets=[t_], value=v_), st) for t_, v_ in zip(tgts, vals)]

    def loop(self, st, rest, env, k, ind):
        pad = "  " * ind
        idx_name = None
        if (isinstance(st.target, ast.Tuple) and len(st.target.elts) == 2
                and all(isinstance(e_, ast.Name) for e_ in st.target.elts)
                and isinstance(st.iter, ast.Call) and isinstance(st.iter.func, ast.Name) and st.iter.func.id == "enumerate"
                and "enumerate" not in env["locals"] and 1 <= len(st.iter.args) <= 2
                and all(isinstance(a_, ast.Constant) for a_ in st.iter.args[1:])
                and all(kw.arg == "start" and isinstance(kw.value, ast.Constant) for kw in st.iter.keywords)):
            # `for i, w in enumerate(l[, start])`: the same loop over l; the index is opaque (usable in messages only)
            idx_name = st.target.elts[0].id
            st = ast.copy_location(ast.For(target=st.target.elts[1], iter=st.iter.args[0], body=st.body,
                                           orelse=st.orelse), st)
            if any(isinstance(x, ast.Name) and x.id == idx_name and isinstance(x.ctx, ast.Store)
                   for b_ in st.body for x in ast.walk(b_)):
                bad(st, "loop index re-assigned in the body")
        if st.orelse or not isinstance(st.target, ast.Name):
            bad(st, "for-else / unpacking loop target")
        for n in ast.walk(st):
            if isinstance(n, ast.Break):
                bad(n, "break")
        it = self.items_like(self.ex(st.iter, env), st, "iteration")
        root = self.alias_root(st.iter, env)
        if root in ("self._queue", "self._recycling_bin") and self.mutates_queue_in_place(st.body):
            bad(st, f"loop over the live {root} whose body may mutate it in place")
        self.stack[-1].setdefault("loops", []).append(
            (self.stack[-1]["method"], "snapshot" if root is None else "local" if root.startswith("local:") else "live:" + root))
        assigned = self.assigned_names(st.body)
        accs = [(a, env["locals"][a][1]) for a in assigned if a in env["locals"] and a != st.target.id]
        for a, t in accs:
            if t not in TYPE_ORDER:
                if t == "elist":
                    bad(st, f"untyped empty list {a} carried through a loop")
                bad(st, f"loop-carried variable {a} of type {t}")
        # nat locals may become int inside the body (x -= 1): keep the declared type, the coercion will complain
        accs.sort(key=lambda at: TYPE_ORDER.index(at[1]))        # stable: ties keep first-assignment order
        n = len(accs) + 1
        lv = f"v_{st.target.id}"
        loc = dict(env["locals"])
        loc[st.target.id] = (lv if it[1] == "items" else "()", "item" if it[1] == "items" else "opaque")
        if idx_name is not None:
            loc[idx_name] = ("()", "opaque")
        head = [f"{pad}    let s : PyS := {proj('acc', 0, n)}"] if n > 1 else []
        for i, (a, t) in enumerate(accs):
            loc[a] = (f"v_{a}", t)
            head.append(f"{pad}    let v_{a} : {LEAN_T[t]} := {proj('acc', i + 1, n)}")
        env_b = dict(env, locals=loc, inloop=True, handler=None,
                     iterating=env["iterating"] | ({root} if root else set()),
                     nonnull={x for x in env["nonnull"] if not x.startswith("local:")})
        if env["handler"] is not None:
            # a raise inside the loop body would have to leave the fold
            pass
        body = self.seq(st.body, env_b, (("loopend", accs),), ind + 2)
        accvar = "acc" if n > 1 else "s"
        init = tup(["s"] + [self.coerce(env["locals"][a], t, st, f"loop variable {a}") for a, t in accs])
        bvar = lv if it[1] == "items" else "_e"
        out = [f"{pad}let acc := ({it[0]}).foldl (fun {accvar} {bvar} =>"] + head + [body + f") {init}"]
        loc2 = dict(env["locals"])
        if n > 1:
            out.append(f"{pad}let s : PyS := {proj('acc', 0, n)}")
        else:
            out.append(f"{pad}let s : PyS := acc")
        for i, (a, t) in enumerate(accs):
            out.append(f"{pad}let v_{a} : {LEAN_T[t]} := {proj('acc', i + 1, n)}")
            loc2[a] = (f"v_{a}", t)
        loc2.pop(st.target.id, None)       # the loop variable is not used afterwards (unbound after an empty loop)
        if idx_name is not None:
            loc2.pop(idx_name, None)
        for a in assigned:
            if a not in env["locals"]:
                loc2.pop(a, None)
        env2 = dict(env, locals=loc2, nonnull={x for x in env["nonnull"] if not x.startswith("local:")})
        return "\n".join(out) + "\n" + self.seq(rest, env2, k, ind)


HEAD = ("import Operon.Model.LysosomePy\n"
        "/- GENERATED by harness/vf/extract/py2lean_lysosome.py from operon_ai/organelles/lysosome.py on every run; do\n"
        "   not edit.  Each definition is the translation of the Python method of the same name (see the translator for\n"
        "   the supported subset).  `untranslatable \"...\"` marks a method that left the subset: the agreement theorems\n"
        "   c13_translation_agrees_<entry point> that reach it then fail. -/\n"
        "namespace Operon.Lysosome\n"
        "set_option linter.unusedVariables false\n\n")


LOOPS_MARK = "-- <loops>\n"


def entry_sig(e):
    nm, ptypes, rt = ENTRY[e]
    fresh, raises = ENTRY_SHAPE[e]
    ps = "".join(f" (p_{i} : {LEAN_T[t]})" for i, t in enumerate(ptypes)) + (" (fresh : Item)" if fresh else "")
    r = LEAN_T[rt]
    r = f"Option ({r})" if raises and " " in r else f"Option {r}" if raises else r
    return f"def Tr.{nm} (cfg : Cfg) (s : PyS){ps} : PyS × {r}"


def stub(e, why):
    w = why.replace('"', "'").replace("\\", "/").replace("\n", " ")[:300]
    return f"/-- translation of entry point `{e}` -/\n{entry_sig(e)} :=\n    untranslatable \"{w}\"\n\n"


def fallback(why: str, facts: str) -> str:
    return HEAD + facts + loops_text([], False) + "".join(stub(e, why) for e in ENTRY) + "end Operon.Lysosome\n"


def loops_text(loops, ok):
    rows = ", ".join(f'("{m}", "{w}")' for m, w in loops)
    return ("/-- every loop of every translated method: (method, what it runs over) — `snapshot` = a list value built before the\n"
            "    loop starts (slice, copy, comprehension, call result), `local` = a list held in a local variable, `live:<field>` = the\n"
            "    object's own list; for both the body was checked not to mutate the list in place -/\n"
            f"def Tr.loops : List (String × String) := [{rows}]\n\n"
            "/-- every entry point was translated: so there is no `while`, no recursion among the methods, no generator, and\n"
            "    every `for` runs over a finite list that is fixed when the loop starts and that its body cannot extend; each\n"
            "    translated method is therefore a Lean function by structural recursion (`List.foldl`, `List.filter`) -/\n"
            f"def Tr.allLoopsBounded : Bool := {'true' if ok else 'false'}\n\n")


def facts_text(toxic_name, complete):
    return ("/-- the freshly constructed object stores one of its own methods for TOXIC_BYPRODUCT (that method is translated\n"
            "    as `Tr.toxic_digester`) and its table has an entry for every waste type -/\n"
            f"def Tr.tableEvaluated : Bool := {'true' if toxic_name and complete else 'false'}\n\n")


def render(src: str, mod=None) -> tuple[str, dict]:
    info = {"unsupported": {}, "methods": [], "toxic_entry": None}
    toxic_name, complete = toxic_entry(mod) if mod is not None else (None, False)
    info["toxic_entry"] = toxic_name
    facts = facts_text(toxic_name, complete)
    try:
        tr = Translator(src, mod)
    except (Unsupported, SyntaxError) as e:
        info["unsupported"] = {m: str(e) for m in ENTRY}
        return fallback(str(e), facts), info
    pyname = {e: (toxic_name if e == "<toxic>" else e) for e in ENTRY}
    entry_of = {}
    for e, m in pyname.items():
        if m is None:
            info["unsupported"][e] = "the TOXIC_BYPRODUCT entry of the digester table is not a method of the object"
            continue
        if m in entry_of:
            info["unsupported"][e] = f"{m} is two entry points"
            continue
        entry_of[m] = e
    tr.entry_of = dict(entry_of)
    # the toxic digester first: it must not be translated as somebody's helper before it is an entry point
    for m, e in sorted(entry_of.items(), key=lambda me: me[1] != "<toxic>"):
        try:
            d = tr.info(m, entry=e)
            fresh, raises = ENTRY_SHAPE[e]
            if d["fresh"] != fresh:
                raise Unsupported(f"{m}: builds {'a' if d['fresh'] else 'no'} Waste, the modelled method does"
                                  f"{'' if fresh else ' not'}")
            if d["raises"] and not raises:
                raise Unsupported(f"{m}: an exception can leave the method")
        except Unsupported as ex:
            info["unsupported"][e] = str(ex)
            tr.done[m] = {"error": str(ex), "own": True}
        except RecursionError:
            info["unsupported"][e] = "recursion"
            tr.done[m] = {"error": "recursion", "own": True}
        except Exception as ex:   # noqa  (a bug of the translator on an unforeseen AST shape: fail closed for this entry)
            info["unsupported"][e] = f"translator error: {ex!r}"[:200]
            tr.done[m] = {"error": info["unsupported"][e], "own": True}
            del tr.stack[:]
    order, seen = [], set()

    def visit(m):
        if m in seen:
            return
        seen.add(m)
        d = tr.done.get(m)
        if d and "error" not in d:
            for c in sorted(d["calls"]):
                visit(c)
        order.append(m)
    for e in ENTRY:
        if pyname[e] in entry_of:
            visit(pyname[e])
    out = HEAD + facts + LOOPS_MARK
    names = {}
    emitted_entries = set()
    for m in order:
        d = tr.done.get(m)
        e = entry_of.get(m)
        ln = ENTRY[e][0] if e else lname(m)
        if not e and (ln in {v[0] for v in ENTRY.values()} or names.get(ln, m) != m):
            # a helper whose Lean name would collide: mark every entry point that reaches it
            for e2, m2 in pyname.items():
                if m2 in tr.done and "error" not in tr.done[m2] and reaches(tr, m2, m):
                    info["unsupported"][e2] = f"name clash on Tr.{ln}"
            continue
        names[ln] = m
        if d is None or "error" in d:
            if not e:
                continue
            out += stub(e, info["unsupported"].get(e, d.get("error", "unsupported") if d else "unsupported"))
            emitted_entries.add(e)
            info["methods"].append(m)
            continue
        if e and e in info["unsupported"]:
            out += stub(e, info["unsupported"][e])
            emitted_entries.add(e)
            continue
        params = "".join(f" (p_{n} : {LEAN_T[t]})" for n, t in d["params"] if t != "opaque") + \
                 (" (fresh : Item)" if d["fresh"] else "")
        r = LEAN_T[d["rtype"]]
        if e:
            sig = entry_sig(e)
        else:
            rr = (f"Option ({r})" if " " in r else f"Option {r}") if d["raises"] else r
            sig = f"@[lysTr] def Tr.{ln} (cfg : Cfg) (s : PyS){params} : PyS × {rr}"
        code = d["code"]
        if e:
            # entry points have fixed parameter names p_0.. in the signature: rename
            for i, (n, t) in enumerate([p for p in d["params"] if p[1] != "opaque"]):
                code = f"    let p_{n} : {LEAN_T[t]} := p_{i}\n" + code
            if ENTRY_SHAPE[e][1] and not d["raises"]:
                code = wrap_some(code)
        out += f"/-- translation of `{CLASS}.{m}` -/\n{sig} :=\n{code}\n\n"
        if e:
            emitted_entries.add(e)
        info["methods"].append(m)
    for e in ENTRY:
        if e not in emitted_entries:
            out += stub(e, info["unsupported"].get(e, "not translated"))
    for name, d in tr.done.items():
        if "error" in d:
            info["unsupported"].setdefault(name, d["error"])
    loops = [lp for m in order for lp in (tr.done.get(m) or {}).get("loops", [])]
    info["loops"] = loops
    out = out.replace(LOOPS_MARK, loops_text(loops, not info["unsupported"]))
    return out + "end Operon.Lysosome\n", info


def reaches(tr, a, b, seen=None):
    seen = seen or set()
    if a == b:
        return True
    if a in seen:
        return False
    seen.add(a)
    d = tr.done.get(a)
    return bool(d and "error" not in d and any(reaches(tr, c, b, seen) for c in d["calls"]))


def wrap_some(code):
    """an entry point whose modelled signature may raise, translated from a body that cannot: lift the result"""
    return "    let r : _ := (\n" + code + ")\n    (r.1, some r.2)"


def strip_opaque_args(text):
    return text


def elaborates(lean_dir: Path, text: str) -> tuple[bool, str]:
    try:
        with tempfile.NamedTemporaryFile("w", suffix=".lean", delete=False, dir="/tmp") as f:
            f.write(text)
            tmp = f.name
        p = subprocess.run(["lake", "env", "lean", tmp], cwd=str(lean_dir), capture_output=True, text=True, timeout=300)
        os.unlink(tmp)
        errs = [l for l in (p.stdout + p.stderr).splitlines() if "error" in l]
        return p.returncode == 0 and not errs, "; ".join(errs)[:300]
    except Exception as e:  # noqa
        return False, repr(e)


def run(repo: Path, lean_dir: Path, write_if_changed) -> list[dict]:
    path = Path(repo) / REL
    try:
        src = path.read_text()
    except OSError:
        src = ""
    mod = load_module(path) if src else None
    text, info = render(src, mod)
    target = Path(lean_dir) / "Operon/Gen/LysosomeTranslated.lean"
    if not (target.exists() and target.read_text() == text):
        subprocess.run(["lake", "build", "Operon.Model.LysosomePy"], cwd=str(lean_dir), capture_output=True, text=True)
        ok, why = elaborates(Path(lean_dir), text)
        if not ok:
            info["unsupported"] = {m: f"generated code does not elaborate: {why}" for m in ENTRY}
            toxic_name, complete = toxic_entry(mod) if mod is not None else (None, False)
            text = fallback(f"generated code does not elaborate: {why}", facts_text(toxic_name, complete))
    changed = write_if_changed(target, text)
    return [{"id": "py2lean-lysosome", "facts_changed": bool(changed), "methods": info["methods"],
             "unsupported": info["unsupported"], "toxic_entry": info["toxic_entry"], "loops": info.get("loops"),
             "module_evaluated": mod is not None}]


if __name__ == "__main__":
    root = Path(sys.argv[1] if len(sys.argv) > 1 else "/repo")
    t, i = render((root / REL).read_text(), load_module(root / REL))
    print(t)
    print(i, file=sys.stderr)
