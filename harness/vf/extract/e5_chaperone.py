"""E5 (chaperone part): tables and constants of the output validator -> lean/Operon/Gen/ChaperoneTables.lean.

Evaluated on the imported class (finite tables / defaults — evaluate, do not parse):
  * `Chaperone.JSON_EXTRACTION_PATTERNS` (regex source, name) and `Chaperone.JSON_REPAIRS` (regex, replacement, name),
  * the default strategy order (`Chaperone().strategies`), the members of `FoldingStrategy`,
  * the dataclass default of `EnhancedFoldedProtein.confidence`.
Parsed from the source text with `ast` (numeric literals are not observable as a finite domain):
  * `confidence=<c>` of the successful results of `_fold_strict_enhanced` and `_fold_extraction_enhanced` and of the
    all-failed result of `fold_enhanced`,
  * `confidence = max(<floor>, <base> - (len(..) * <step>))` of `_fold_lenient_enhanced` and `_fold_repair_enhanced`.
Decimal literals are emitted as exact (numerator, denominator) pairs of the literal's shortest repr.
Evaluated on the real wrapper classes (`wrapper_facts`): what `ChaperoneLoop` does to the Chaperone it is handed, what
`BioAgent` constructs as its organelle.
Evaluated through the public API (`strict_trim_facts`): which code points STRICT alone tolerates around clean JSON
(probe domain: all Cc / Cf / Zs / Zl / Zp code points and more), and Python's `str.isspace` over all code points.
Every fact is an `Option`; a shape that is not recognised yields `none`, which makes `c11_extracted_tables_agree`
fail to elaborate (fail closed).
"""
from __future__ import annotations

import ast
from fractions import Fraction
from pathlib import Path


def _find_fn(tree, cls, fn):
    for n in tree.body:
        if isinstance(n, ast.ClassDef) and n.name == cls:
            for f in n.body:
                if isinstance(f, ast.FunctionDef) and f.name == fn:
                    return f
    return None


def _num(node):
    """numeric literal -> (num, den) of its decimal repr; None otherwise"""
    if isinstance(node, ast.Constant) and isinstance(node.value, (int, float)) and not isinstance(node.value, bool):
        try:
            f = Fraction(repr(node.value))
        except (ValueError, ZeroDivisionError):
            return None
        if f < 0:
            return None
        return (f.numerator, f.denominator)
    return None


def _confidence_kw(fn, valid: bool):
    """the literal passed as `confidence=` to the EnhancedFoldedProtein(valid=<valid>, …) calls of `fn`; all such
    calls must agree"""
    found = set()
    for n in ast.walk(fn):
        if isinstance(n, ast.Call) and isinstance(n.func, ast.Name) and n.func.id == "EnhancedFoldedProtein":
            kws = {k.arg: k.value for k in n.keywords if k.arg}
            v = kws.get("valid")
            if not (isinstance(v, ast.Constant) and v.value is valid):
                continue
            if "confidence" in kws:
                found.add(_num(kws["confidence"]))
    if len(found) == 1 and None not in found:
        return found.pop()
    return None


def _max_formula(fn):
    """`confidence = max(floor, base - (len(x) * step))` -> (base, step, floor)"""
    hits = []
    for n in ast.walk(fn):
        if isinstance(n, ast.Assign) and len(n.targets) == 1 and isinstance(n.targets[0], ast.Name) \
                and n.targets[0].id == "confidence":
            c = n.value
            if not (isinstance(c, ast.Call) and isinstance(c.func, ast.Name) and c.func.id == "max" and len(c.args) == 2
                    and not c.keywords):
                return None
            a, b = c.args
            if _num(a) is None:
                a, b = b, a
            floor = _num(a)
            if floor is None or not (isinstance(b, ast.BinOp) and isinstance(b.op, ast.Sub)):
                return None
            base = _num(b.left)
            m = b.right
            if base is None or not (isinstance(m, ast.BinOp) and isinstance(m.op, ast.Mult)):
                return None
            l, r = m.left, m.right
            if _num(l) is not None:
                l, r = r, l
            step = _num(r)
            if step is None or not (isinstance(l, ast.Call) and isinstance(l.func, ast.Name) and l.func.id == "len"):
                return None
            hits.append((base, step, floor))
    return hits[0] if len(hits) == 1 else None


def _cps(s: str) -> str:
    return "[" + ", ".join(str(ord(c)) for c in s) + "]"


def _guard(fn):
    try:
        return fn()
    except Exception:
        return None


class _Probe:
    """stands in for a Chaperone handed to one of the library's wrappers: every METHOD the wrapper calls on it is logged
    (reads of attributes are not: a wrapper may look), everything is forwarded to a real instance"""

    def __init__(self, inner):
        object.__setattr__(self, "_inner", inner)
        object.__setattr__(self, "_calls", [])

    def __getattr__(self, name):
        v = getattr(self._inner, name)
        if callable(v) and not isinstance(v, type):
            def logged(*a, _v=v, _n=name, **kw):
                if _n != "get_statistics":         # a read-only report: a wrapper may look
                    self._calls.append(_n)
                return _v(*a, **kw)
            return logged
        return v

    def __setattr__(self, name, value):
        self._calls.append("set:" + name)
        setattr(self._inner, name, value)


def _config_of(ch):
    """what a fold on this instance depends on besides the counters (objects by identity where they are callables)"""
    return (list(ch.strategies), sorted((repr(k), id(v)) for k, v in ch.co_chaperones.items()), id(ch.on_misfold),
            ch.on_misfold is None, list(ch.JSON_EXTRACTION_PATTERNS), list(ch.JSON_REPAIRS), ch.max_retries)


def wrapper_facts(mod):
    """EVALUATED on the real classes: what `ChaperoneLoop` does to the Chaperone it is handed (construction; one healing
    run over a misfold followed by clean JSON), and what `BioAgent` constructs as its organelle.  None = not observable."""
    facts = {"ctor_calls": None, "ctor_leaves": None, "heal_calls": None, "heal_leaves": None, "agent_default": None,
             "exports_same": None, "omitted_is_none": None}
    try:
        from pydantic import BaseModel
        import operon_ai.healing.chaperone_loop as loop_mod

        class ProbeSchema(BaseModel):
            a: int

        def keep(text):
            return text
        inner = mod.Chaperone(strategies=[mod.FoldingStrategy.REPAIR, mod.FoldingStrategy.STRICT], silent=True)
        inner.register_co_chaperone(dict, keep)          # a co-chaperone for another class: must stay, nothing may be added
        before = _config_of(inner)
        probe = _Probe(inner)
        outs = iter(["nope", '{"a": 1}'])
        loop = loop_mod.ChaperoneLoop(generator=lambda prompt, error_context=None: next(outs), chaperone=probe,
                                      schema=ProbeSchema, max_retries=3, silent=True)
        facts["ctor_calls"] = list(probe._calls)
        facts["ctor_leaves"] = _config_of(inner) == before
        del probe._calls[:]
        res = loop.heal("prompt")
        if res.valid and len(res.attempts) == 2:
            facts["heal_calls"] = list(probe._calls)
            facts["heal_leaves"] = _config_of(inner) == before
    except Exception:
        pass
    try:
        import operon_ai.core.agent as agent_mod
        import operon_ai.state.metabolism as atp_mod
        ch = agent_mod.BioAgent("probe", "Worker", atp_mod.ATP_Store(budget=1, silent=True)).chaperone
        ref = mod.Chaperone()
        facts["agent_default"] = (type(ch) is mod.Chaperone and list(ch.strategies) == list(ref.strategies)
                                  and ch.co_chaperones == {} and ch.on_misfold is None
                                  and ch.JSON_EXTRACTION_PATTERNS is mod.Chaperone.JSON_EXTRACTION_PATTERNS
                                  and ch.JSON_REPAIRS is mod.Chaperone.JSON_REPAIRS
                                  and ch.strategies is not ref.strategies)
    except Exception:
        pass
    try:
        import operon_ai as top
        import operon_ai.organelles as org
        import operon_ai.healing as heal
        import operon_ai.healing.chaperone_loop as loop_mod
        import operon_ai.core.types as types_mod
        facts["exports_same"] = all([
            top.Chaperone is mod.Chaperone, org.Chaperone is mod.Chaperone,
            top.FoldingStrategy is mod.FoldingStrategy, org.FoldingStrategy is mod.FoldingStrategy,
            top.EnhancedFoldedProtein is mod.EnhancedFoldedProtein, org.EnhancedFoldedProtein is mod.EnhancedFoldedProtein,
            top.FoldedProtein is types_mod.FoldedProtein, mod.FoldedProtein is types_mod.FoldedProtein,
            top.ChaperoneLoop is loop_mod.ChaperoneLoop, heal.ChaperoneLoop is loop_mod.ChaperoneLoop,
            top.HealingResult is loop_mod.HealingResult, loop_mod.Chaperone is mod.Chaperone,
            loop_mod.EnhancedFoldedProtein is mod.EnhancedFoldedProtein])
    except Exception:
        pass
    try:
        import inspect
        facts["omitted_is_none"] = all(
            inspect.signature(f).parameters["strategies"].default is None
            for f in (mod.Chaperone.__init__, mod.Chaperone.fold, mod.Chaperone.fold_enhanced)) and all(
            inspect.signature(mod.Chaperone.__init__).parameters[k].default is None for k in ("co_chaperones", "on_misfold"))
    except Exception:
        pass
    return facts


def strict_trim_facts(mod):
    """EVALUATED on the real class through its public API: for every code point of the probe domain (all of Unicode's
    controls Cc, format characters Cf and separators Zs/Zl/Zp, the neighbours of every `str.isspace` code point, and a few
    noncharacters / private-use / tag / blank-looking ones) — does `fold` / `fold_enhanced` with STRICT alone accept clean
    JSON with that code point in front of it / behind it?  The model says: exactly when it is white space (`isSpace`).
    Also Python's `str.isspace` over ALL code points, as ranges.  None = not observable."""
    facts = {"domain": None, "plain_lead": None, "plain_trail": None, "enh_lead": None, "enh_trail": None, "space_ranges": None}
    try:
        import sys
        import unicodedata
        spaces = [cp for cp in range(sys.maxunicode + 1) if chr(cp).isspace()]
        ranges = []
        for cp in spaces:
            if ranges and ranges[-1][1] == cp - 1:
                ranges[-1][1] = cp
            else:
                ranges.append([cp, cp])
        facts["space_ranges"] = [tuple(r) for r in ranges]
        dom = set()
        for cp in range(sys.maxunicode + 1):
            if unicodedata.category(chr(cp)) in ("Cc", "Cf", "Zs", "Zl", "Zp"):
                dom.add(cp)
        for cp in spaces:
            dom.update((cp - 1, cp + 1))
        dom.update([0xfffe, 0xffff, 0xfffd, 0xe000, 0xf8ff, 0x2800, 0x3164, 0x115f, 0x1160, 0xfe0f, 0x034f, 0xd800, 0xdfff,
                    0x10ffff, 0x1fffe, 0xe0100, 0x30, 0x41, 0x5f, 0x22, 0x5c, 0x2c])
        dom = sorted(c for c in dom if 0 <= c <= sys.maxunicode)
        from pydantic import BaseModel

        class ProbeDoc(BaseModel):
            p: int
            q: dict

        doc = '{"p": 1, "q": {"r": [2]}}'          # nested: the bare-object pattern cannot rescue it, only STRICT reads it
        strict = [mod.FoldingStrategy.STRICT]
        ch = mod.Chaperone(silent=True)
        if not (ch.fold(doc, ProbeDoc, strict).valid and ch.fold_enhanced(doc, ProbeDoc, strict).valid):
            return facts
        res = {"plain_lead": [], "plain_trail": [], "enh_lead": [], "enh_trail": []}
        for cp in dom:
            c = chr(cp)
            for key, meth, text in (("plain_lead", ch.fold, c + doc), ("plain_trail", ch.fold, doc + c),
                                    ("enh_lead", ch.fold_enhanced, c + doc), ("enh_trail", ch.fold_enhanced, doc + c)):
                r = meth(text, ProbeDoc, strict)
                if r.valid is True:
                    if not (isinstance(r.structure, ProbeDoc) and r.structure.p == 1 and r.structure.q == {"r": [2]}):
                        return facts
                    res[key].append(cp)
                elif r.valid is not False:
                    return facts
        facts["domain"] = dom
        facts.update(res)
    except Exception:
        pass
    return facts


def generate(repo: Path, mod) -> str:
    src_path = repo / "operon_ai" / "organelles" / "chaperone.py"
    tree = _guard(lambda: ast.parse(src_path.read_text()))

    def fn(name):
        return _find_fn(tree, "Chaperone", name) if tree is not None else None

    def table2():
        t = mod.Chaperone.JSON_EXTRACTION_PATTERNS
        out = []
        for p, n in t:
            if not (isinstance(p, str) and isinstance(n, str)):
                return None
            out.append((p, n))
        return out

    def table3():
        t = mod.Chaperone.JSON_REPAIRS
        out = []
        for p, r, n in t:
            if not (isinstance(p, str) and isinstance(r, str) and isinstance(n, str)):
                return None
            out.append((p, r, n))
        return out

    pats = _guard(table2)
    reps = _guard(table3)
    order = _guard(lambda: [s.value for s in mod.Chaperone(silent=True).strategies])
    members = _guard(lambda: [s.value for s in mod.FoldingStrategy])
    dflt = _guard(lambda: _num(ast.Constant(mod.EnhancedFoldedProtein.__dataclass_fields__["confidence"].default)))
    strict = _guard(lambda: _confidence_kw(fn("_fold_strict_enhanced"), True))
    extraction = _guard(lambda: _confidence_kw(fn("_fold_extraction_enhanced"), True))
    failed = _guard(lambda: _confidence_kw(fn("fold_enhanced"), False))
    lenient = _guard(lambda: _max_formula(fn("_fold_lenient_enhanced")))
    repair = _guard(lambda: _max_formula(fn("_fold_repair_enhanced")))

    def pair(p):
        return "none" if p is None else f"some ({p[0]}, {p[1]})"

    def triple(t):
        if t is None:
            return "none"
        return "some (" + ", ".join(f"({a}, {b})" for a, b in t) + ")"

    def strs(l):
        if l is None or not all(isinstance(x, str) and x.isidentifier() for x in l):
            return "none"
        return "some [" + ", ".join(f'"{x}"' for x in l) + "]"

    out = ["/- GENERATED by harness/vf/extract/e5_chaperone.py from operon_ai/organelles/chaperone.py on every run of",
           "   ./check C11 — do not edit.  `none` = the extractor did not recognise the shape of the code (fail closed). -/",
           "namespace Operon.Gen.ChaperoneTables", ""]
    out.append("/-- JSON_EXTRACTION_PATTERNS as (regex source code points, name code points) -/")
    if pats is None:
        out.append("def patterns : Option (List (List Nat × List Nat)) := none")
    else:
        out.append("def patterns : Option (List (List Nat × List Nat)) := some [\n    "
                   + ",\n    ".join(f"({_cps(p)}, {_cps(n)})" for p, n in pats) + "]")
    out.append("/-- JSON_REPAIRS as (regex, replacement, name) code points -/")
    if reps is None:
        out.append("def repairs : Option (List (List Nat × List Nat × List Nat)) := none")
    else:
        out.append("def repairs : Option (List (List Nat × List Nat × List Nat)) := some [\n    "
                   + ",\n    ".join(f"({_cps(p)}, {_cps(r)}, {_cps(n)})" for p, r, n in reps) + "]")
    out.append("/-- values of Chaperone().strategies (the default order) -/")
    out.append(f"def defaultOrder : Option (List String) := {strs(order)}")
    out.append("/-- members of FoldingStrategy -/")
    out.append(f"def strategyMembers : Option (List String) := {strs(members)}")
    out.append("/-- confidence literals as (numerator, denominator) -/")
    out.append(f"def strictConfidence : Option (Nat × Nat) := {pair(strict)}")
    out.append(f"def extractionConfidence : Option (Nat × Nat) := {pair(extraction)}")
    out.append(f"def failedConfidence : Option (Nat × Nat) := {pair(failed)}")
    out.append(f"def defaultConfidence : Option (Nat × Nat) := {pair(dflt)}")
    out.append("/-- (base, step, floor) of `max(floor, base - len(..) * step)` -/")
    out.append(f"def lenientFormula : Option ((Nat × Nat) × (Nat × Nat) × (Nat × Nat)) := {triple(lenient)}")
    out.append(f"def repairFormula : Option ((Nat × Nat) × (Nat × Nat) × (Nat × Nat)) := {triple(repair)}")
    wf = _guard(lambda: wrapper_facts(mod)) or {}

    def names(l):
        if l is None or not all(isinstance(x, str) and x.replace(":", "_").isidentifier() for x in l):
            return "none"
        return "some [" + ", ".join(f'"{x}"' for x in l) + "]"

    def boolean(b):
        return "none" if b is None else ("some true" if b else "some false")
    out.append("/-- the library's own wrappers (EVALUATED): methods of the Chaperone that `ChaperoneLoop(…, chaperone=c, …)` calls")
    out.append("    while it is constructed; whether c's configuration (strategies, co-chaperones, on_misfold, tables) is the same")
    out.append("    afterwards; the methods one `heal` over [misfold, clean JSON] calls; the same for the configuration; whether")
    out.append("    `BioAgent(…).chaperone` is a default-configured `Chaperone` with a strategy list of its own -/")
    out.append(f"def loopCtorCalls : Option (List String) := {names(wf.get('ctor_calls'))}")
    out.append(f"def loopCtorLeavesConfig : Option Bool := {boolean(wf.get('ctor_leaves'))}")
    out.append(f"def healCalls : Option (List String) := {names(wf.get('heal_calls'))}")
    out.append(f"def healLeavesConfig : Option Bool := {boolean(wf.get('heal_leaves'))}")
    out.append(f"def agentChaperoneIsDefault : Option Bool := {boolean(wf.get('agent_default'))}")
    out.append("/-- `operon_ai`, `operon_ai.organelles`, `operon_ai.healing` export the very classes the modules define (Chaperone,")
    out.append("    FoldingStrategy, FoldedProtein, EnhancedFoldedProtein, ChaperoneLoop, HealingResult), and the loop module uses them -/")
    out.append(f"def exportsAreTheDefinitions : Option Bool := {boolean(wf.get('exports_same'))}")
    out.append("/-- the `strategies` parameter of `__init__`, `fold`, `fold_enhanced` (and `co_chaperones`, `on_misfold` of `__init__`)")
    out.append("    default to `None`: an omitted argument is `None` -/")
    out.append(f"def omittedArgumentIsNone : Option Bool := {boolean(wf.get('omitted_is_none'))}")
    tf = _guard(lambda: strict_trim_facts(mod)) or {}

    def nats(l):
        if l is None or not all(isinstance(x, int) and not isinstance(x, bool) and x >= 0 for x in l):
            return "none"
        return "some [" + ", ".join(str(x) for x in l) + "]"
    out.append("/-- STRICT alone, EVALUATED through the public API over the probe domain (every Cc / Cf / Zs / Zl / Zp code point,")
    out.append("    the neighbours of every white-space code point, some noncharacters / private-use / tag / blank-looking ones):")
    out.append("    the code points that `fold` / `fold_enhanced` accept in front of / behind clean (nested) JSON -/")
    out.append(f"def strictProbeDomain : Option (List Nat) := {nats(tf.get('domain'))}")
    out.append(f"def strictPlainAcceptsLeading : Option (List Nat) := {nats(tf.get('plain_lead'))}")
    out.append(f"def strictPlainAcceptsTrailing : Option (List Nat) := {nats(tf.get('plain_trail'))}")
    out.append(f"def strictEnhancedAcceptsLeading : Option (List Nat) := {nats(tf.get('enh_lead'))}")
    out.append(f"def strictEnhancedAcceptsTrailing : Option (List Nat) := {nats(tf.get('enh_trail'))}")
    out.append("/-- Python's `str.isspace` over ALL code points (evaluated), as inclusive ranges -/")
    sr = tf.get("space_ranges")
    out.append("def pythonSpaceRanges : Option (List (Nat × Nat)) := "
               + ("none" if sr is None else "some [" + ", ".join(f"({a}, {b})" for a, b in sr) + "]"))
    out.append("")
    out.append("end Operon.Gen.ChaperoneTables")
    return "\n".join(out) + "\n"
