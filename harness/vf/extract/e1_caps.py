"""E1 (capability part): does a capability-subset test dominate `tool.execute(...)` on each code path?

Pure `ast` analysis of operon_ai/organelles/mitochondria.py.  A *guard* is an `if` whose test reads
`allowed_capabilities` and whose body raises (or returns) — either inline, or inside a helper method of the same
class that is called unconditionally as `self.<helper>(...)`.  The guard *dominates* the execute call when it
occurs earlier in the same statement list as the statement containing the call, at some nesting level on the way
from the function body to the call (so a guard hidden inside another `if`/loop does not count).  Fails closed:
anything unrecognised yields `false`.
"""
from __future__ import annotations

import ast
from pathlib import Path


def _ceiling_aliases(fn) -> set[str]:
    """local names of a function that were assigned from an expression reading `.allowed_capabilities`
    (`ceiling = self.allowed_capabilities`): a test on such a name is a test of the ceiling"""
    out = set()
    for x in ast.walk(fn):
        val, tgts = None, []
        if isinstance(x, ast.Assign):
            val, tgts = x.value, x.targets
        elif isinstance(x, (ast.AnnAssign, ast.NamedExpr)) and x.value is not None:
            val, tgts = x.value, [x.target]
        if val is not None and any(isinstance(y, ast.Attribute) and y.attr == "allowed_capabilities" for y in ast.walk(val)):
            out.update(t.id for t in tgts if isinstance(t, ast.Name))
    return out


def _is_guard_if(n, aliases=frozenset()) -> bool:
    if not isinstance(n, ast.If):
        return False
    reads = any((isinstance(x, ast.Attribute) and x.attr == "allowed_capabilities") or
                (isinstance(x, ast.Name) and x.id in aliases) for x in ast.walk(n.test))
    stops = any(isinstance(x, ast.Raise) for s in n.body for x in ast.walk(s)) or \
        any(isinstance(s, ast.Return) for s in n.body)
    return reads and stops


def _helper_guards(cls) -> set[str]:
    out = set()
    for f in cls.body:
        if isinstance(f, ast.FunctionDef):
            al = _ceiling_aliases(f)
            if any(_is_guard_if(s, al) for s in f.body):
                out.add(f.name)
    return out


def _is_guard_stmt(s, helpers, aliases=frozenset()) -> bool:
    if _is_guard_if(s, aliases):
        return True
    if isinstance(s, ast.Expr) and isinstance(s.value, ast.Call):
        f = s.value.func
        if isinstance(f, ast.Attribute) and isinstance(f.value, ast.Name) and f.value.id == "self" and f.attr in helpers:
            return True
    return False


def _contains_execute(node) -> bool:
    return any(isinstance(x, ast.Call) and isinstance(x.func, ast.Attribute) and x.func.attr == "execute"
               for x in ast.walk(node))


def _dominated(stmts, helpers, aliases=frozenset()) -> bool | None:
    """None = no execute call here; True/False = every execute call below is / is not dominated."""
    verdict = None
    guarded = False
    for s in stmts:
        if _is_guard_stmt(s, helpers, aliases):
            guarded = True
            continue
        if not _contains_execute(s):
            continue
        if guarded:
            v = True
        else:
            subs = []
            for fld in ("body", "orelse", "finalbody"):
                sub = getattr(s, fld, None)
                if isinstance(sub, list) and sub and isinstance(sub[0], ast.stmt):
                    subs.append(_dominated(sub, helpers, aliases))
            for h in getattr(s, "handlers", []) or []:
                subs.append(_dominated(h.body, helpers, aliases))
            subs = [x for x in subs if x is not None]
            v = bool(subs) and all(subs)
        verdict = v if verdict is None else (verdict and v)
    return verdict


ENGINE_API = {"metabolize", "digest_glucose", "execute_tool_call", "export_tool_schemas", "list_tools", "engulf_tool",
              "register_function", "get_statistics", "get_ros_level", "get_efficiency", "repair"}
GUARDED = {"_oxidative_phosphorylation", "execute_tool_call"}


class _Scan(ast.NodeVisitor):
    """One file of the package: where can a tool body be run, who touches the registry, how is an engine used."""

    def __init__(self, rel, is_mito):
        self.rel, self.is_mito = rel, is_mito
        self.stack = []          # enclosing class / function names
        self.sites, self.reg, self.eng = [], [], []
        self.called = set()      # ids of Attribute nodes that are the callee of a Call

    def _where(self):
        return f"{self.rel}:{'.'.join(self.stack) or '<module>'}"

    def _cls(self):
        return self.stack[0] if self.stack else None

    def visit_ClassDef(self, n):
        self.stack.append(n.name)
        self.generic_visit(n)
        self.stack.pop()

    def visit_FunctionDef(self, n):
        self.stack.append(n.name)
        self.generic_visit(n)
        self.stack.pop()

    visit_AsyncFunctionDef = visit_FunctionDef

    def visit_Call(self, n):
        f = n.func
        if isinstance(f, ast.Attribute):
            self.called.add(id(f))
            if f.attr == "execute" or (f.attr == "func" and (self._toolish(f.value) or
                                                             (isinstance(f.value, ast.Name) and f.value.id == "self"))):
                in_guarded = self.is_mito and len(self.stack) == 2 and self.stack[0] == "Mitochondria" and \
                    self.stack[1] in GUARDED and f.attr == "execute"
                wrapper = self.is_mito and self.stack == ["SimpleTool", "execute"] and f.attr == "func" and \
                    isinstance(f.value, ast.Name) and f.value.id == "self"
                if not in_guarded and not wrapper:
                    self.sites.append(f"{self._where()}:call .{f.attr}")
        if isinstance(f, ast.Name) and f.id == "getattr" and len(n.args) >= 2 and \
                isinstance(n.args[1], ast.Constant) and n.args[1].value in ("execute", "func"):
            self.sites.append(f"{self._where()}:getattr {n.args[1].value}")
        self.generic_visit(n)

    def visit_Attribute(self, n):
        if isinstance(n.ctx, ast.Load) and id(n) not in self.called:
            # `run = tool.execute` / `f = tool.func` handed on: the body can then be run from anywhere
            if n.attr == "execute" or (n.attr == "func" and self._toolish(n.value)):
                self.sites.append(f"{self._where()}:alias .{n.attr}")
        if n.attr == "tools" and not (self.is_mito and self._cls() == "Mitochondria"):
            self.reg.append(f"{self._where()}:.tools")
        v = n.value
        recv = v.id if isinstance(v, ast.Name) else v.attr if isinstance(v, ast.Attribute) else None
        if recv is not None and "mitochondria" in recv.lower() and not self.is_mito:
            if n.attr not in ENGINE_API:
                self.eng.append(f"{self._where()}:{recv}.{n.attr}")
        self.generic_visit(n)

    @staticmethod
    def _toolish(v):
        """is the receiver a tool object (named so, or taken out of a registry)?  `node.func` of the ast module is not"""
        try:
            return "tool" in ast.unparse(v).lower()
        except Exception:
            return True


def package_facts(repo: Path) -> dict:
    """Package-wide: every place outside the two guarded functions (and SimpleTool.execute's own `self.func(...)`) that
    calls / aliases `.execute` or `.func` in a module that knows the engine or a tool registry; every `.tools` access
    outside class Mitochondria; every use of an engine object outside mitochondria.py that is not its public API."""
    out = {"execute_sites": [], "registry_uses_outside": [], "engine_other_uses": []}
    pkg = repo / "operon_ai"
    for path in sorted(pkg.rglob("*.py")):
        rel = str(path.relative_to(repo))
        try:
            src = path.read_text()
            tree = ast.parse(src)
        except Exception:
            out["execute_sites"].append(f"{rel}:unparsable")
            continue
        is_mito = rel == "operon_ai/organelles/mitochondria.py"
        relevant = is_mito or "mitochondria" in src.lower() or any(
            isinstance(x, ast.Attribute) and x.attr == "tools" for x in ast.walk(tree))
        if not relevant:
            continue
        sc = _Scan(rel, is_mito)
        # callee attributes must be known before visit_Attribute sees them: two passes
        for x in ast.walk(tree):
            if isinstance(x, ast.Call) and isinstance(x.func, ast.Attribute):
                sc.called.add(id(x.func))
        sc.visit(tree)
        out["execute_sites"] += sc.sites
        out["registry_uses_outside"] += sc.reg
        out["engine_other_uses"] += sc.eng
    for k in out:
        out[k] = sorted(set(out[k]))
    return out


def extract(repo: Path) -> dict:
    src = (repo / "operon_ai/organelles/mitochondria.py").read_text()
    tree = ast.parse(src)
    cls = next((n for n in tree.body if isinstance(n, ast.ClassDef) and n.name == "Mitochondria"), None)
    facts = {"oxidative": False, "toolCall": False, "execute_sites": []}
    if cls is None:
        return facts
    helpers = _helper_guards(cls)
    fns = {f.name: f for f in cls.body if isinstance(f, ast.FunctionDef)}
    for key, fname in (("oxidative", "_oxidative_phosphorylation"), ("toolCall", "execute_tool_call")):
        f = fns.get(fname)
        if f is None:
            continue
        v = _dominated(f.body, helpers, _ceiling_aliases(f))
        facts[key] = bool(v)
    # any other place that can run a tool body is an unmodelled execution site: listed, makes the theorem fail
    pk = package_facts(repo)
    facts["execute_sites"] = pk["execute_sites"]
    facts["registry_uses_outside"] = pk["registry_uses_outside"]
    facts["engine_other_uses"] = pk["engine_other_uses"]
    facts["helpers"] = sorted(helpers)
    facts["perm_table"] = evaluate_table(repo)
    facts["on_demand_table"] = evaluate_table(repo, on_demand=True)
    facts["safe_names"], facts["safe_call1"] = evaluate_function_table(repo)
    facts["reg_table"] = evaluate_registration_table(repo)
    facts["name_table"] = evaluate_name_table(repo)
    return facts


NAME_BASE = "Net_x"


def name_spellings():
    """the registered name and its look-alikes: other case (upper / lower / swapped), trailing / leading blank, first
    letter full-width (NFKC-equivalent), a composed accent and the same accent decomposed (NFC / NFD of each other),
    qualified the way some providers echo schema names, hyphen for underscore"""
    b = NAME_BASE
    return [b, b.upper(), b.lower(), b.swapcase(), b + " ", " " + b, chr(ord(b[0]) + 0xFEE0) + b[1:], b + "\u00e9",
            b + "e\u0301", "functions." + b, b.replace("_", "-")]


def python_callee(text):
    """what PYTHON's parser reads as the callee of `text` (no library code involved): ('name', id) / ('notname',) /
    ('notcall',)"""
    try:
        body = ast.parse(text, mode="eval").body
    except Exception:
        return ("notcall",)
    if not isinstance(body, ast.Call):
        return ("notcall",)
    return ("name", body.func.id) if isinstance(body.func, ast.Name) else ("notname",)


def evaluate_name_table(repo: Path):
    """Evaluate how the REAL entry points resolve a requested tool name, on a complete finite domain: one tool is
    registered under spelling i of a name and requested under spelling j (11 x 11 spellings that differ in case, blanks,
    compatibility / decomposed forms, qualification, - for _), through execute_tool_call, metabolize forced OXIDATIVE,
    metabolize with the auto-detected pathway (the detection is recorded) and the tool loop - on an unrestricted engine
    (did the body run?) and, with the tool requiring Capability.NET, under the empty ceiling (did the body run on ANY of
    the four?).  -> rows or None (fail closed)."""
    import sys
    import warnings
    warnings.filterwarnings("ignore")
    root = str(repo)
    if root not in sys.path:
        sys.path.insert(0, root)
    try:
        from operon_ai.organelles.mitochondria import Mitochondria, MetabolicPathway
        from operon_ai.organelles.nucleus import Nucleus
        from operon_ai.core.types import Capability
        from operon_ai.providers import LLMResponse, ToolCall
        import operon_ai
        if not str(Path(operon_ai.__file__).resolve()).startswith(root):
            return None
        rows = []
        sp = name_spellings()
        for reg in sp:
            for req in sp:
                ran = []

                class T:
                    description = "t"
                    parameters_schema = {"type": "object", "properties": {}}

                    def execute(self, *a, **k):
                        ran.append(1)
                        return 1

                class Pushy:
                    name = "pushy"

                    def __init__(self):
                        self.n = 0

                    def is_available(self):
                        return True

                    def complete(self, prompt, config=None):
                        return LLMResponse(content="ok", model="m", tokens_used=1, latency_ms=0.0)

                    def complete_with_tools(self, prompt, tools=None, config=None):
                        self.n += 1
                        return self.complete(prompt), ([ToolCall(id="c", name=req, arguments={})] if self.n == 1 else [])

                def engine(restricted):
                    ran.clear()
                    t = T()
                    t.name = reg
                    t.required_capabilities = {Capability.NET}
                    m = Mitochondria(allowed_capabilities=set() if restricted else None, silent=True)
                    m.engulf_tool(t)
                    return m

                def four(restricted):
                    out = []
                    engine(restricted).execute_tool_call(ToolCall(id="c", name=req, arguments={}))
                    out.append(bool(ran))
                    engine(restricted).metabolize(f"{req}()", MetabolicPathway.OXIDATIVE)
                    out.append(bool(ran))
                    r3 = engine(restricted).metabolize(f"{req}()")
                    out.append(r3.pathway == MetabolicPathway.OXIDATIVE)
                    out.append(bool(ran))
                    Nucleus(provider=Pushy()).transcribe_with_tools("p", engine(restricted))
                    out.append(bool(ran))
                    return out
                call, met, auto_ox, auto, loop = four(False)
                d = four(True)
                rows.append((reg, req, python_callee(f"{req}()"), call, met, auto_ox, auto, loop,
                             bool(d[0] or d[1] or d[3] or d[4])))
        return rows
    except Exception:
        return None


REG_STYLES = ["ctor", "simple", "function", "object"]     # tools=[SimpleTool], engulf_tool(SimpleTool), register_function, engulf_tool(object)


def evaluate_registration_table(repo: Path):
    """Evaluate the REAL registration entry points on a complete finite domain: a name is registered through style s1
    (constructor tools=, engulf_tool of a SimpleTool, register_function, engulf_tool of a Tool-protocol object) with
    declaration d1, then AGAIN through style s2 with declaration d2, wrapping the same callable or another one
    (declarations: nothing / {Capability.NET}; engine ceiling: empty set).  Per row: does the registry now hold the
    second registration (object identity, or for register_function the callable and declaration it was given), and did
    execute_tool_call run a body.  -> rows (s1, s2, same, d1, d2, holds_second, ran) or None (fail closed)."""
    import sys
    import warnings
    warnings.filterwarnings("ignore")
    root = str(repo)
    if root not in sys.path:
        sys.path.insert(0, root)
    try:
        from operon_ai.organelles.mitochondria import Mitochondria, SimpleTool
        from operon_ai.core.types import Capability
        from operon_ai.providers import ToolCall
        import operon_ai
        if not str(Path(operon_ai.__file__).resolve()).startswith(root):
            return None
        rows = []
        for i1, s1 in enumerate(REG_STYLES):
            for i2, s2 in enumerate(REG_STYLES):
                if s2 == "ctor":
                    continue
                for same in (True, False):
                    for d1 in ([], [0]):
                        for d2 in ([], [0]):
                            ran = []

                            def f1(*a, **k):
                                ran.append(1)
                                return 1

                            def f2(*a, **k):
                                ran.append(2)
                                return 2
                            g = f1 if same else f2

                            def obj(fn, d):
                                class T:
                                    name = "t"
                                    description = "t"
                                    parameters_schema = {"type": "object", "properties": {}}

                                    def execute(self, *a, **k):
                                        return fn(*a, **k)
                                t = T()
                                t.required_capabilities = {Capability.NET} if d else set()
                                return t

                            def caps(d):
                                return {Capability.NET} if d else set()
                            if s1 == "ctor":
                                m = Mitochondria(allowed_capabilities=set(), silent=True,
                                                 tools=[SimpleTool(name="t", description="1", func=f1, required_capabilities=caps(d1))])
                            else:
                                m = Mitochondria(allowed_capabilities=set(), silent=True)
                                if s1 == "simple":
                                    m.engulf_tool(SimpleTool(name="t", description="1", func=f1, required_capabilities=caps(d1)))
                                elif s1 == "function":
                                    m.register_function("t", f1, "1", required_capabilities=caps(d1))
                                else:
                                    m.engulf_tool(obj(f1, d1))
                            if s2 == "simple":
                                second = SimpleTool(name="t", description="2", func=g, required_capabilities=caps(d2))
                                m.engulf_tool(second)
                                holds = m.tools.get("t") is second
                            elif s2 == "function":
                                m.register_function("t", g, "2", required_capabilities=caps(d2))
                                held = m.tools.get("t")
                                holds = (getattr(held, "func", None) is g and getattr(held, "description", None) == "2"
                                         and set(getattr(held, "required_capabilities", ())) == caps(d2))
                            else:
                                second = obj(g, d2)
                                m.engulf_tool(second)
                                holds = m.tools.get("t") is second
                            m.execute_tool_call(ToolCall(id="c", name="t", arguments={}))
                            rows.append((i1, i2, same, d1, d2, bool(holds), bool(ran)))
        return rows
    except Exception:
        return None


def evaluate_function_table(repo: Path):
    """The names of the evaluator's function table, read off the real class: all keys, and those whose entry can be
    called as f(4) (what an argument expression `name(4)` does).  ([], []) when the class cannot be evaluated."""
    import sys
    root = str(repo)
    if root not in sys.path:
        sys.path.insert(0, root)
    try:
        from operon_ai.organelles.mitochondria import Mitochondria
        table = dict(Mitochondria.SAFE_FUNCTIONS)
        names = sorted(k for k in table if isinstance(k, str) and k.isidentifier())
        ok = []
        for k in names:
            try:
                table[k](4)
                ok.append(k)
            except Exception:
                pass
        return names, ok
    except Exception:
        return [], []


def evaluate_table(repo: Path, on_demand: bool = False):
    """(on_demand=True: the declarations are PROPERTIES of the tool that build a fresh one-shot iterator - generator
    expression, map, iter(tuple), iter(set) by turns - from a manifest at every access, and every engine is asked
    TWICE: one row per request.)  Evaluate the REAL ceiling test on a complete finite domain: every ceiling (None or a subset of a 3-tag
    universe) x every declaration style (required_capabilities / capabilities each absent or a subset), through the
    public entry point execute_tool_call with a counting tool body.  -> list of rows (allowed, req, caps, ran) or None
    when the code cannot be evaluated (fail closed).  The universe holds one tag of each kind a declaration may carry:
    the core member Capability.NET, the plain string 'net' (its value) and the member NET = 'net' of a foreign Enum -
    three different tags that agree in name and value, so a test that compares anything but the tags themselves (or
    that only knows the core members) yields another table."""
    import itertools
    import sys
    import warnings
    warnings.filterwarnings("ignore")
    root = str(repo)
    if root not in sys.path:
        sys.path.insert(0, root)
    try:
        from operon_ai.organelles.mitochondria import Mitochondria
        from operon_ai.core.types import Capability
        from operon_ai.providers import ToolCall
        import operon_ai
        if not str(Path(operon_ai.__file__).resolve()).startswith(root):
            return None
        import enum

        class ForeignCapability(enum.Enum):      # a plug-in's own vocabulary
            NET = "net"
        C = [Capability.NET, "net", ForeignCapability.NET]
        from operon_ai.organelles.mitochondria import MetabolicPathway
        from operon_ai.organelles.nucleus import Nucleus
        from operon_ai.providers import LLMResponse
        subsets = [None] + [list(c) for k in range(4) for c in itertools.combinations(range(3), k)]
        rows = []

        class Pushy:                       # a provider that insists on the tool once
            name = "pushy"

            def __init__(self):
                self.n = 0

            def is_available(self):
                return True

            def complete(self, prompt, config=None):
                return LLMResponse(content="ok", model="m", tokens_used=1, latency_ms=0.0)

            def complete_with_tools(self, prompt, tools=None, config=None):
                self.n += 1
                return self.complete(prompt), ([ToolCall(id="c", name="t", arguments={})] if self.n == 1 else [])
        kinds = [lambda m: (x for x in m), lambda m: map(lambda x: x, m), lambda m: iter(tuple(m)), lambda m: iter(set(m))]
        for ia, al in enumerate(subsets):
            for ir, req in enumerate(subsets):
                for ic, caps in enumerate(subsets):
                    ran = []
                    if on_demand:
                        mk = kinds[(ia + ir + ic) % len(kinds)]

                        class OnDemand:
                            name = "t"
                            description = "t"
                            parameters_schema = {"type": "object", "properties": {}}

                            @property
                            def required_capabilities(self, _req=req, _mk=mk):
                                if _req is None:
                                    raise AttributeError("required_capabilities")
                                return _mk([C[i] for i in _req])

                            @property
                            def capabilities(self, _caps=caps, _mk=mk):
                                if _caps is None:
                                    raise AttributeError("capabilities")
                                return _mk([C[i] for i in _caps])

                            def execute(self, *a, **k):
                                ran.append(1)
                                return 1
                        t2 = OnDemand()
                        per = [[], []]
                        m = Mitochondria(allowed_capabilities=None if al is None else {C[i] for i in al}, silent=True)
                        m.engulf_tool(t2)
                        for k in (0, 1):
                            ran.clear()
                            r1 = m.execute_tool_call(ToolCall(id="c", name="t", arguments={}))
                            per[k].append((bool(ran), bool(r1.success)))
                        for pw in (MetabolicPathway.OXIDATIVE, None):
                            m = Mitochondria(allowed_capabilities=None if al is None else {C[i] for i in al}, silent=True)
                            m.engulf_tool(t2)
                            for k in (0, 1):
                                ran.clear()
                                r2 = m.metabolize("t()", pw)
                                per[k].append((bool(ran), bool(r2.success)))
                        m = Mitochondria(allowed_capabilities=None if al is None else {C[i] for i in al}, silent=True)
                        m.engulf_tool(t2)
                        for k in (0, 1):
                            ran.clear()
                            Nucleus(provider=Pushy()).transcribe_with_tools("p", m)
                            per[k].append(bool(ran))
                        for k in (0, 1):
                            rows.append((al, req, caps, *per[k]))
                        continue

                    class T:
                        name = "t"
                        description = "t"
                        parameters_schema = {"type": "object", "properties": {}}

                        def execute(self, *a, **k):
                            ran.append(1)
                            return 1
                    t = T()
                    if req is not None:
                        t.required_capabilities = {C[i] for i in req}
                    if caps is not None:
                        t.capabilities = {C[i] for i in caps}

                    def engine():
                        ran.clear()
                        m = Mitochondria(allowed_capabilities=None if al is None else {C[i] for i in al}, silent=True)
                        m.engulf_tool(t)
                        return m
                    r1 = engine().execute_tool_call(ToolCall(id="c", name="t", arguments={}))
                    call = (bool(ran), bool(r1.success))
                    r2 = engine().metabolize("t()", MetabolicPathway.OXIDATIVE)
                    met = (bool(ran), bool(r2.success))
                    r3 = engine().metabolize("t()")
                    auto = (bool(ran), bool(r3.success))
                    Nucleus(provider=Pushy()).transcribe_with_tools("p", engine())
                    loop = bool(ran)
                    rows.append((al, req, caps, call, met, auto, loop))
        return rows
    except Exception:
        return None


def render(facts: dict) -> str:
    b = lambda x: "true" if x else "false"
    sites = ", ".join(f'"{s}"' for s in facts["execute_sites"])

    def ol(x):
        return "none" if x is None else "(some [" + ", ".join(str(i) for i in x) + "])"
    rows = facts.get("perm_table")
    table = "none" if rows is None else "some [\n  " + ",\n  ".join(
        f"⟨{ol(a)}, {ol(r)}, {ol(c)}, {b(cl[0])}, {b(cl[1])}, {b(mt[0])}, {b(mt[1])}, {b(au[0])}, {b(au[1])}, {b(lp)}⟩"
        for (a, r, c, cl, mt, au, lp) in rows) + "]"
    orows = facts.get("on_demand_table")
    odtable = "none" if orows is None else "some [\n  " + ",\n  ".join(
        f"⟨{ol(a)}, {ol(r)}, {ol(c)}, {b(cl[0])}, {b(cl[1])}, {b(mt[0])}, {b(mt[1])}, {b(au[0])}, {b(au[1])}, {b(lp)}⟩"
        for (a, r, c, cl, mt, au, lp) in orows) + "]"
    rrows = facts.get("reg_table")
    regtable = "none" if rrows is None else "some [\n  " + ",\n  ".join(
        f"({a}, {c}, {b(sm)}, [{', '.join(map(str, d1))}], [{', '.join(map(str, d2))}], {b(h)}, {b(r)})"
        for (a, c, sm, d1, d2, h, r) in rrows) + "]"
    def lstr(x):
        return '"' + "".join(c if 32 <= ord(c) < 127 and c not in '"\\' else "\\u%04x" % ord(c) for c in x) + '"'

    def lcallee(c):
        return f"(.name {lstr(c[1])})" if c[0] == "name" else "." + {"notname": "notName", "notcall": "notCall"}[c[0]]
    nrows = facts.get("name_table")
    nametable = "none" if nrows is None else "some [\n  " + ",\n  ".join(
        f"⟨{lstr(rg)}, {lstr(rq)}, {lcallee(pc)}, {b(c1)}, {b(m1)}, {b(ax)}, {b(a1)}, {b(l1)}, {b(dn)}⟩"
        for (rg, rq, pc, c1, m1, ax, a1, l1, dn) in nrows) + "]"
    return f"""/- GENERATED by harness/vf/extract/e1_caps.py from operon_ai/organelles/mitochondria.py — do not edit. -/
import Operon.Model.MitoTools
namespace Operon.Gen.MitoCaps
open Operon.MitoTools

/-- does a capability-subset test dominate `tool.execute` in `_oxidative_phosphorylation` / `execute_tool_call`? -/
def guards : Guards := ⟨{b(facts['oxidative'])}, {b(facts['toolCall'])}⟩

/-- PACKAGE-WIDE (every module of operon_ai that mentions the engine or a `.tools` registry): places other than the two
    guarded functions and `SimpleTool.execute`'s own `self.func(...)` that call, alias or `getattr` a tool's `.execute` /
    `.func` (must be empty: they are not in the model) -/
def otherExecuteSites : List String := [{sites}]

/-- accesses to a `.tools` registry outside `class Mitochondria` (must be empty) -/
def registryUsesOutside : List String := [{", ".join(chr(34) + x + chr(34) for x in facts.get("registry_uses_outside", ["not-extracted"]))}]

/-- attributes of an engine object used outside mitochondria.py that are not its public API (the tool loop may only
    use `export_tool_schemas` / `execute_tool_call`; must be empty) -/
def engineOtherUses : List String := [{", ".join(chr(34) + x + chr(34) for x in facts.get("engine_other_uses", ["not-extracted"]))}]

/-- the REAL ceiling test evaluated through EVERY entry point - `execute_tool_call`, `metabolize("t()", OXIDATIVE)`,
    `metabolize("t()")` (auto-detected pathway), `Nucleus.transcribe_with_tools` with a provider that requests the tool -
    on every (ceiling, required_capabilities, capabilities) over a 3-tag universe - Capability.NET, 'net',
    ForeignCapability.NET - (each `none` = absent / unrestricted, or a subset): did the tool body run, and did the
    result report success?  `none` = the code could not be evaluated. -/
def permTable : Option (List PermRow) := {table}

/-- the same evaluation for declarations COMPUTED ON DEMAND: `required_capabilities` / `capabilities` are properties of
    the tool that build a fresh one-shot iterator (generator expression, `map`, `iter(tuple)`, `iter(set)` by turns) at
    every access; every engine is asked twice, one row per request (first, second, first, second, ...). -/
def onDemandTable : Option (List PermRow) := {odtable}

/-- the REAL registration entry points evaluated on every (first style, second style, same callable?, first declaration,
    second declaration) under the empty ceiling - styles 0 = constructor `tools=`, 1 = `engulf_tool(SimpleTool)`,
    2 = `register_function`, 3 = `engulf_tool(object)`: does the registry hold the SECOND registration, and did
    `execute_tool_call` run a body?  `none` = the code could not be evaluated. -/
def regTable : Option (List (Nat × Nat × Bool × List Cap × List Cap × Bool × Bool)) := {regtable}

/-- how the REAL entry points resolve a requested tool name: one tool registered under spelling `reg` of a name and
    requested under spelling `req` (11 x 11 look-alike spellings: case, blanks, full-width, NFC/NFD, qualified, - for _);
    `parsed` = what Python's parser reads as the callee of the expression text `<req>()`; did the body run through
    `execute_tool_call`, `metabolize(.., OXIDATIVE)`, `metabolize(..)` (with the pathway it detected), the tool loop on an
    unrestricted engine; and did it run on any of them when it requires NET under the empty ceiling?
    `none` = the code could not be evaluated. -/
def nameTable : Option (List NameRow) := {nametable}

/-- keys of the evaluator's function table `SAFE_FUNCTIONS` (a call of such a name evaluates its arguments on the
    math/logic pathways), read off the real class -/
def safeNames : List String := [{", ".join(chr(34) + x + chr(34) for x in facts.get("safe_names", []))}]

/-- those of them for which the argument expression `name(4)` evaluates without raising -/
def safeCall1 : List String := [{", ".join(chr(34) + x + chr(34) for x in facts.get("safe_call1", []))}]

end Operon.Gen.MitoCaps
"""
