"""Extractor E2 — operon_ai/topology/loops.py -> lean/Operon/Gen/GateTable.lean  (used by C07 and C08).

Three facts, regenerated from the source under test on every run:

1. `rows`: the COMPLETE decision table of `_apply_gate_logic`, obtained by *evaluating* the real method on
   every gate logic x executor verdict x assessor verdict, the verdicts ranging over the four literals the code
   knows plus representatives of "anything else" (DEFER, UNKNOWN, an out-of-vocabulary string).  For every row:
   success, action, blocked, and whether an approval token is attached; `tokensWellFormed` says that every
   attached token carried sha256(prompt)[:16] of the prompt passed in and the assessor's name.
2. `literals` / `shapeOk`: obtained by EVALUATION, not by reading syntax: every verdict handed to the real code in
   (1), (3) and in complete `run`s is a tracer string (`TStr`) that records what is done with it.  `literals` = the
   strings a verdict was compared against (==, !=, membership in a tuple/list — wherever the tuple is written: inline,
   class constant, module constant); `shapeOk` = nothing else was done with a verdict (no str method, ordering,
   indexing, length, hashing / dict dispatch, concatenation, verdict-vs-verdict comparison; formatting for log
   messages is allowed).  So two verdict strings that are not among the literals cannot be told apart by the code
   and the representatives of (1) — which include `permit`, `PERMIT ` and the empty string — cover every string.
3. `runClass`: how `run` feeds the circuit breaker, obtained by evaluating the real `run` with the gate replaced
   (instance attribute) by a function returning a result with given success/blocked flags, for every pair of
   verdict classes: success / neither / failure, read off the breaker's counters.

4. `carried`: which attributes of the loop object carry information from one phase of a request to a later phase
   of the SAME request, obtained by EVALUATION: `run` is executed on a subclass whose `__setattr__` /
   `__getattribute__` log every access to instance data, the stub agents mark the phase boundaries (look-up |
   executor consulted | assessor consulted | finish), and mutable containers are fingerprinted at the boundaries.
   An attribute is listed when it was modified in one phase and read in a later one.  The model's phases
   (`lookup`, `finish`, ... in Model/Cffl.lean) hand on nothing but the request's locals (prompt, verdicts) and the
   modelled state (`stateAttrs`); an attribute outside that list (a parked cache key, a parked agent output) makes
   `c07_request_state_is_local` fail: under overlapping requests it would be overwritten by the other request.

5. `rendered`: for every row of (1), whether `_apply_gate_logic` RENDERED the executor's / the assessor's payload
   (`str()`, an f-string, `repr()`), observed with tracer payload objects (`c07_renders_table_agrees`; the model's
   `renders` — it matters only for the pre-fix shape `runP false`).

6. `unrenderable`: for every row of (1), what the real `_apply_gate_logic` decides when the payloads CANNOT be rendered
   (`__str__`, `__repr__`, `__format__` raise): the gate is called three more times (executor's payload bad, assessor's
   bad, both bad); `some <decision>` when it never raised and decided the same each time (same flags, action, token
   attached - also compared with the renderable row), `none` otherwise.  `c07_gate_decides_whatever_the_payloads`
   proves every entry equal to `some (applyGate …)`: fail closed - a bare `str(payload)` / f-string puts `none` there.
   `handlerRendersSafely`: the real `run` with an executor (then an assessor) raising an Exception whose `__str__`
   raises answers the blocked unsuccessful ERROR result and counts exactly one failure.  `printRendersSafely`: the real
   `run` with the console on and an executor payload that cannot be rendered returns its SUCCESS result
   (`c07_current_source_renders_safely`).  Any exception during these probes yields `false`.

7. `cacheLookup`: what the real cache look-up does with an entry, by EVALUATION under a virtual clock: a request is answered
   under gate logic g1 (its result is cached), `loop.gate_logic = g2` is assigned, the clock advances by TTL-1 / TTL / TTL+1
   microseconds and the same prompt is asked again; the row records whether the reply was served from the cache without
   consulting an agent.  `c07_cache_lookup_table_agrees` proves the model's `checkCache` equal on all 6 x 6 x 3 rows
   (served iff strictly within the TTL AND decided under the logic configured now).

Fail closed: anything unexpected (import error, unknown action string, counters moving in an unforeseen way,
a verdict used in another way) yields `ok := false` and empty tables, which makes `c07_gate_table_*` /
`c08_run_classification_table` fail to check.
"""
from __future__ import annotations

import ast
import contextlib
import hashlib
import io
import traceback

from ..core import LEAN, REPO, write_if_changed

OUT = LEAN / "Operon" / "Gen" / "GateTable.lean"
GATE_LEAN = {"and": ".and", "or": ".or", "majority": ".majority", "unanimous": ".unanimous",
             "executor_priority": ".execPrio", "assessor_priority": ".assessPrio"}
ACTION_LEAN = {"SUCCESS": ".success", "BLOCKED": ".blocked", "FAILURE": ".failure", "SKIPPED": ".skipped",
               "ERROR": ".error", "CIRCUIT_OPEN": ".circuitOpen"}
REPS = ["EXECUTE", "PERMIT", "BLOCK", "FAILURE", "DEFER", "UNKNOWN", "out-of-vocabulary", "permit", "PERMIT ", ""]
CLASS_REPS = ["EXECUTE", "PERMIT", "BLOCK", "FAILURE", "DEFER"]


class Unrecognised(Exception):
    pass


def _b(x) -> str:
    return "true" if x else "false"


def _s(x: str) -> str:
    return '"' + x.replace("\\", "\\\\").replace('"', '\\"') + '"'


class _Stub:
    def __init__(self, name):
        self.name = name
        self.next = None
        self.n = 0

    def express(self, signal):
        self.n += 1
        return self.next


def _mk_loop(L, gate, **kw):
    from operon_ai.state.metabolism import ATP_Store
    store = ATP_Store(budget=10 ** 9, silent=True)
    with contextlib.redirect_stdout(io.StringIO()):
        loop = L.CoherentFeedForwardLoop(budget=store, gate_logic=gate, silent=True, **kw)
    loop.executor = _Stub("E2-executor")
    loop.assessor = _Stub("E2-assessor")
    return loop


class TPayload:
    """a payload that records whether it was rendered"""

    def __init__(self, text):
        self.text = text
        self.rendered = False

    def __str__(self):
        self.rendered = True
        return self.text

    def __repr__(self):
        self.rendered = True
        return repr(self.text)

    def __format__(self, spec):
        self.rendered = True
        return format(self.text, spec)


def _bad(kind, what):
    """how rendering fails: ValueError, a non-string result (str() raises TypeError), RuntimeError, KeyError()"""
    if kind == 0:
        raise ValueError("E2: " + what + " cannot be rendered")
    if kind == 1:
        return None
    if kind == 2:
        raise RuntimeError("E2: " + what + " cannot be rendered")
    raise KeyError()


BAD_KINDS = (0, 1, 2, 3)


class BadPayload:
    """a payload that cannot be rendered"""

    def __init__(self, kind=0):
        self.kind = kind

    def __str__(self):
        return _bad(self.kind, "payload")

    def __repr__(self):
        return _bad(self.kind, "payload")

    def __format__(self, spec):
        return _bad(self.kind, "payload")


class BadError(Exception):
    """an agent exception that cannot be rendered"""
    kind = 0

    def __str__(self):
        return _bad(self.kind, "exception")


def _decision(r, prompt):
    tok = r.approval_token
    if tok is not None and (tok.request_hash != hashlib.sha256(prompt.encode()).hexdigest()[:16]
                            or tok.issuer != "E2-assessor"):
        return None
    return (r.success, r.action, r.blocked, tok is not None)


def unrenderable_row(L, T, g, z, y, prompt, good):
    """the gate's decision on payloads that cannot be rendered (None: it raised, or decided differently)"""
    seen = set()
    for kind in BAD_KINDS:
        for zbad, ybad in ((True, False), (False, True), (True, True)):
            loop = _mk_loop(L, g)
            zo = T.ActionProtein(TStr(z), BadPayload(kind) if zbad else "z payload", 0.5)
            yo = T.ActionProtein(TStr(y), BadPayload(kind) if ybad else "y payload", 0.5)
            try:
                with contextlib.redirect_stdout(io.StringIO()):
                    r = loop._apply_gate_logic(zo, yo, prompt)
                seen.add(_decision(r, prompt))
            except Exception:  # noqa  (rendering failed inside the gate)
                return None
    return good if seen == {good} else None


def safe_rendering_probes(L, T):
    """(handlerRendersSafely, printRendersSafely) evaluated on the real run()"""
    state = {"kind": 0}

    def raiser():
        e = BadError()
        e.kind = state["kind"]
        raise e

    class A:
        def __init__(self, name, f):
            self.name, self.f, self.n = name, f, 0

        def express(self, signal):
            self.n += 1
            return self.f()
    handler = True
    try:
        for who, g, kind in [(w, g, k) for w in ("z", "y") for g in L.GateLogic for k in BAD_KINDS]:
            state["kind"] = kind
            loop = _mk_loop(L, g, enable_cache=False, failure_threshold=10 ** 6)
            loop.executor = A("E2-executor", raiser if who == "z" else (lambda: T.ActionProtein("EXECUTE", "p", 0.5)))
            loop.assessor = A("E2-assessor", raiser if who == "y" else (lambda: T.ActionProtein("PERMIT", "p", 0.5)))
            with contextlib.redirect_stdout(io.StringIO()):
                r = loop.run(f"E2 unprintable exception {who} {g.value}")
            st = loop.get_circuit_breaker_stats()
            if not (r.action == "ERROR" and r.blocked is True and r.success is False and r.approval_token is None
                    and st.failure_count == 1 and loop.executor.n == 1 and loop.assessor.n == (0 if who == "z" else 1)):
                handler = False
    except Exception:  # noqa
        handler = False
    printing = True
    try:
        for g, kind in [(g, k) for g in L.GateLogic for k in BAD_KINDS]:
            loop = _mk_loop(L, g, enable_cache=False)
            loop.silent = False
            loop.executor.next = T.ActionProtein("EXECUTE", BadPayload(kind), 0.5)
            loop.assessor.next = T.ActionProtein("PERMIT", "p", 0.5)
            with contextlib.redirect_stdout(io.StringIO()):
                r = loop.run(f"E2 unrenderable payload printed {g.value}")
            want = g.value != "majority"
            if (r.action == "SUCCESS" and r.blocked is False) != want:
                printing = False
    except Exception:  # noqa
        printing = False
    return handler, printing


CACHE_TTL_US = 5_000_000


def cache_lookup_rows(L, T):
    """(g1, g2, age in us, ttl in us, served from the cache) on the real run(), virtual clock"""
    import datetime as _dt
    from ..util import FakeClock
    rows = []
    for g1 in L.GateLogic:
        for g2 in L.GateLogic:
            for age in (CACHE_TTL_US - 1, CACHE_TTL_US, CACHE_TTL_US + 1):
                clock = FakeClock()
                L.datetime = clock.datetime_class()
                loop = _mk_loop(L, g1, enable_circuit_breaker=False, cache_ttl_seconds=CACHE_TTL_US / 1e6)
                if loop.cache_ttl != _dt.timedelta(microseconds=CACHE_TTL_US):
                    raise Unrecognised("cache_ttl is not the timedelta of the constructor argument")
                loop.executor.next = T.ActionProtein("EXECUTE", "p", 0.5)
                loop.assessor.next = T.ActionProtein("PERMIT", "p", 0.5)
                prompt = f"E2 cache probe {g1.value} {g2.value} {age}"
                with contextlib.redirect_stdout(io.StringIO()):
                    first = loop.run(prompt)
                if first.cached or loop.executor.n != 1:
                    raise Unrecognised("first request of the cache probe was not answered by the agents")
                loop.gate_logic = g2
                clock.advance_us(age)
                with contextlib.redirect_stdout(io.StringIO()):
                    second = loop.run(prompt)
                served = second.cached is True
                if served != (loop.executor.n == 1):
                    raise Unrecognised("cached flag and agent consultation disagree")
                rows.append((g1.value, g2.value, age, CACHE_TTL_US, served))
    return rows


def gate_rows(L, T):
    rows, tokens_ok = [], True
    gate_rows.rendered = []
    gate_rows.unrenderable = []
    gates = list(L.GateLogic)
    if sorted(g.value for g in gates) != sorted(GATE_LEAN):
        raise Unrecognised(f"gate logics {[g.value for g in gates]}")
    for g in gates:
        for z in REPS:
            for y in REPS:
                loop = _mk_loop(L, g)
                prompt = f"E2 probe {g.value} {z} {y}"
                zp, yp = TPayload("z payload"), TPayload("y payload")
                zo = T.ActionProtein(TStr(z), zp, 0.5)
                yo = T.ActionProtein(TStr(y), yp, 0.5)
                with contextlib.redirect_stdout(io.StringIO()):
                    r = loop._apply_gate_logic(zo, yo, prompt)
                gate_rows.rendered.append((g.value, z, y, zp.rendered, yp.rendered))
                if r.action not in ACTION_LEAN or r.action == "CIRCUIT_OPEN":
                    raise Unrecognised(f"action {r.action!r}")
                if not isinstance(r.success, bool) or not isinstance(r.blocked, bool):
                    raise Unrecognised("non-bool flags")
                tok = r.approval_token
                if tok is not None:
                    if tok.request_hash != hashlib.sha256(prompt.encode()).hexdigest()[:16] or tok.issuer != "E2-assessor":
                        tokens_ok = False
                rows.append((g.value, z, y, r.success, r.action, r.blocked, tok is not None))
                gate_rows.unrenderable.append((g.value, z, y, unrenderable_row(L, T, g, z, y, prompt, _decision(r, prompt))))
    return rows, tokens_ok


class TStr(str):
    """A verdict string that reports what the code under test does with it.  Comparisons (==, !=, membership in a
    tuple/list, which compares element by element) are recorded with the value compared against; anything that looks
    INTO the string (str methods, ordering, indexing, length, hashing - i.e. dict/set dispatch -, concatenation) or
    compares two verdicts with each other is recorded as a use the verdict classes cannot account for.  Formatting
    (str / repr / format, as in log messages) is allowed."""
    lits: set = set()
    other: set = set()

    def __eq__(self, o):
        if isinstance(o, TStr):
            TStr.other.add("verdicts compared with each other")
        elif isinstance(o, str):
            TStr.lits.add(str.__str__(o))
        return str.__eq__(self, o)

    def __ne__(self, o):
        if isinstance(o, TStr):
            TStr.other.add("verdicts compared with each other")
        elif isinstance(o, str):
            TStr.lits.add(str.__str__(o))
        return str.__ne__(self, o)

    def __hash__(self):
        TStr.other.add("hashed (dict / set dispatch)")
        return str.__hash__(self)

    def __getattribute__(self, name):
        if not name.startswith("__") and hasattr(str, name):
            TStr.other.add(f"str.{name}")
        return str.__getattribute__(self, name)


def _spy(op):
    def f(self, *a):
        TStr.other.add(op)
        return getattr(str, op)(self, *a)
    return f


for _op in ("__lt__", "__le__", "__gt__", "__ge__", "__len__", "__getitem__", "__iter__", "__contains__", "__add__",
            "__mod__", "__mul__", "__rmod__", "__rmul__"):
    setattr(TStr, _op, _spy(_op))


def traced_runs(L, T):
    """the whole `run` (cache and breaker off) on tracer verdicts, every gate logic x verdict x verdict"""
    for g in L.GateLogic:
        for z in REPS:
            for y in REPS:
                loop = _mk_loop(L, g, enable_circuit_breaker=False, enable_cache=False)
                loop.executor.next = T.ActionProtein(TStr(z), "p", 0.5)
                loop.assessor.next = T.ActionProtein(TStr(y), "p", 0.5)
                with contextlib.redirect_stdout(io.StringIO()):
                    loop.run(f"E2 traced run {g.value} {z} {y}")


def run_classification(L, T):
    out = []
    for s in (True, False):
        for b in (True, False):
            for z in CLASS_REPS:
                for y in CLASS_REPS:
                    loop = _mk_loop(L, L.GateLogic.AND, enable_circuit_breaker=True, failure_threshold=10 ** 6,
                                    enable_cache=False)
                    loop.executor.next = T.ActionProtein(TStr(z), "p", 0.5)
                    loop.assessor.next = T.ActionProtein(TStr(y), "p", 0.5)
                    loop._apply_gate_logic = (lambda zo, yo, pr, s=s, b=b, loop=loop:
                                              L.LoopResult(success=s, action="PROBE", blocked=b, gate_logic=loop.gate_logic))
                    with contextlib.redirect_stdout(io.StringIO()):
                        r = loop.run("E2 classification probe")
                    st = loop.get_circuit_breaker_stats()
                    if r.action != "PROBE" or loop.executor.n != 1 or loop.assessor.n != 1:
                        raise Unrecognised("run did not consult both agents and apply the gate once")
                    d = (st.failure_count, st.success_count)
                    ev = {(0, 1): ".success", (0, 0): ".neither", (1, 0): ".failure"}.get(d)
                    if ev is None:
                        raise Unrecognised(f"breaker counters moved by {d}")
                    out.append((s, b, z, y, ev))
    return out


def _fp(v):
    """fingerprint of an attribute value: changes whenever the value or the content of a container changes"""
    import collections
    if isinstance(v, dict):
        return ("dict", tuple((repr(k), id(x)) for k, x in v.items()))
    if isinstance(v, (list, tuple, set, frozenset, collections.deque)):
        return (type(v).__name__, tuple(id(x) for x in v))
    if v is None or isinstance(v, (bool, int, float, str, bytes)):
        return ("v", repr(v))
    return ("id", id(v))


def carried_state(L, T):
    """attributes modified in one phase of run() and read in a later phase of the same run()"""
    log = {"on": False, "phase": 0, "reads": set(), "writes": set(), "start": {}}
    flagged = set()

    class Traced(L.CoherentFeedForwardLoop):
        def __setattr__(self, k, v):
            if log["on"]:
                log["writes"].add((k, log["phase"]))
            object.__setattr__(self, k, v)

        def __getattribute__(self, k):
            if log["on"] and k in object.__getattribute__(self, "__dict__"):
                log["reads"].add((k, log["phase"]))
            return object.__getattribute__(self, k)

    def snapshot(loop):
        return {k: _fp(v) for k, v in object.__getattribute__(loop, "__dict__").items()}

    def boundary(loop):
        """end of the current phase: what did it modify?"""
        on = log["on"]
        log["on"] = False
        now = snapshot(loop)
        for k, f in now.items():
            if log["start"].get(k) != f:
                log["writes"].add((k, log["phase"]))
        log["start"] = now
        log["phase"] += 1
        log["on"] = on

    class Agent:
        def __init__(self, name, loop):
            self.name, self.loop, self.next = name, loop, None

        def express(self, signal):
            boundary(self.loop)
            if self.next is None:
                raise RuntimeError("E2 agent failure")
            return self.next

    def traced_run(loop, prompt, z, y):
        loop.executor.next = None if z is None else T.ActionProtein(z, "p", 0.5)
        loop.assessor.next = None if y is None else T.ActionProtein(y, "p", 0.5)
        log.update(phase=0, reads=set(), writes=set(), start=snapshot(loop))
        log["on"] = True
        try:
            with contextlib.redirect_stdout(io.StringIO()):
                loop.run(prompt)
        finally:
            log["on"] = False
        boundary(loop)
        for (k, j) in log["writes"]:
            if any(k2 == k and j2 > j for (k2, j2) in log["reads"]):
                flagged.add(k)

    from operon_ai.state.metabolism import ATP_Store
    for kw in ({}, {"failure_threshold": 1, "recovery_timeout_seconds": 0, "cache_ttl_seconds": 0},
               {"enable_cache": False, "enable_circuit_breaker": False}):
        for g in L.GateLogic:
            with contextlib.redirect_stdout(io.StringIO()):
                loop = Traced(budget=ATP_Store(budget=10 ** 9, silent=True), gate_logic=g, silent=True, **kw)
            loop.executor = Agent("E2-executor", loop)
            loop.assessor = Agent("E2-assessor", loop)
            traced_run(loop, "carried probe 1", "EXECUTE", "PERMIT")     # miss, success
            traced_run(loop, "carried probe 1", "EXECUTE", "PERMIT")     # hit (or expired entry replaced)
            traced_run(loop, "carried probe 2", "FAILURE", "PERMIT")     # failure (trips at threshold 1)
            traced_run(loop, "carried probe 3", "EXECUTE", "PERMIT")     # probe after the (zero) timeout
            traced_run(loop, "carried probe 4", None, "PERMIT")          # executor raises
            traced_run(loop, "carried probe 5", "EXECUTE", None)         # assessor raises
            traced_run(loop, "carried probe 6", "EXECUTE", "BLOCK")      # intentional block
            traced_run(loop, "carried probe 2", "EXECUTE", "PERMIT")
    return sorted(flagged)


def render(ok, rows, tokens_ok, lits, shape_ok, rc, carried=None, why="", rendered=(), unrenderable=(),
           safe=(False, False), cache_rows=()) -> str:
    L = ["import Operon.Model.Cffl",
         "/-! GENERATED by harness/vf/extract/e2.py from operon_ai/topology/loops.py — do not edit.",
         "    Regenerated on every run of the C07 / C08 checks; the committed copy is the snapshot of the clean tree. -/",
         "namespace Operon.Gen.GateTable", "open Operon.Cffl", ""]
    L.append(f"/-- the extractor recognised the code's shape{(' — NO: ' + why) if not ok else ''} -/")
    L.append(f"def ok : Bool := {_b(ok)}")
    L.append("")
    L.append("/-- `_apply_gate_logic` evaluated on gate logic x executor verdict x assessor verdict -/")
    L.append("def rows : List (Gate × String × String × GateOut) := [")
    L.append(",\n".join(f"  ({GATE_LEAN[g]}, {_s(z)}, {_s(y)}, ⟨{_b(s)}, {ACTION_LEAN[a]}, {_b(b)}, {_b(t)}⟩)"
                        for (g, z, y, s, a, b, t) in rows))
    L.append("]")
    L.append("")
    L.append("/-- every attached token carried sha256(prompt)[:16] of the probed prompt and the assessor's name -/")
    L.append(f"def tokensWellFormed : Bool := {_b(tokens_ok)}")
    L.append("")
    L.append("/-- the strings a verdict was compared against while the real code ran (tracer strings) -/")
    L.append("def literals : List String := [" + ", ".join(_s(x) for x in lits) + "]")
    L.append("/-- a verdict was used in no other way than such comparisons (and formatting) -/")
    L.append(f"def shapeOk : Bool := {_b(shape_ok)}")
    L.append("")
    L.append("/-- `run`: (result.success, result.blocked, executor verdict, assessor verdict) ↦ what the breaker records -/")
    L.append("def runClass : List (Bool × Bool × String × String × BEvent) := [")
    L.append(",\n".join(f"  ({_b(s)}, {_b(b)}, {_s(z)}, {_s(y)}, {ev})" for (s, b, z, y, ev) in rc))
    L.append("]")
    L.append("")
    L.append("/-- attributes of the loop object that were modified in one phase of a `run` (look-up | executor consulted |")
    L.append("    assessor consulted | finish) and read in a later phase of the same `run`, observed on the real code;")
    L.append("    `none`: the observation failed -/")
    L.append("def carried : Option (List String) := "
             + ("none" if carried is None else "some [" + ", ".join(_s(x) for x in carried) + "]"))
    L.append("")
    L.append("/-- for every row of `rows`: did `_apply_gate_logic` render the executor's / the assessor's payload")
    L.append("    (observed with tracer payloads on the real code) -/")
    L.append("def rendered : List (Gate × String × String × Bool × Bool) := [")
    L.append(",\n".join(f"  ({GATE_LEAN[g]}, {_s(z)}, {_s(y)}, {_b(a)}, {_b(b)})" for (g, z, y, a, b) in rendered))
    L.append("]")
    L.append("")
    L.append("/-- for every row of `rows`: what `_apply_gate_logic` decides when the payloads CANNOT be rendered (`__str__`")
    L.append("    raises; executor's, assessor's, both) - `none`: the gate raised or decided differently -/")
    L.append("def unrenderable : List (Gate × String × String × Option GateOut) := [")
    L.append(",\n".join(f"  ({GATE_LEAN[g]}, {_s(z)}, {_s(y)}, "
                        + ("none" if d is None or d[1] not in ACTION_LEAN else
                           f"some ⟨{_b(d[0])}, {ACTION_LEAN[d[1]]}, {_b(d[2])}, {_b(d[3])}⟩") + ")"
                        for (g, z, y, d) in unrenderable))
    L.append("]")
    L.append("")
    L.append("/-- the real `run` answers an agent Exception whose `__str__` raises (executor / assessor, every gate logic)")
    L.append("    with the blocked ERROR result and counts one failure -/")
    L.append(f"def handlerRendersSafely : Bool := {_b(safe[0])}")
    L.append("/-- the real `run` with the console on returns the SUCCESS whose executor payload cannot be rendered -/")
    L.append(f"def printRendersSafely : Bool := {_b(safe[1])}")
    L.append("")
    L.append("/-- the real cache look-up: (gate logic the cached result was decided under, gate logic configured at the repeat,")
    L.append("    age of the entry in us, TTL in us, served from the cache without consulting an agent) -/")
    L.append("def cacheLookup : List (Gate × Gate × Nat × Int × Bool) := [")
    L.append(",\n".join(f"  ({GATE_LEAN[a]}, {GATE_LEAN[b]}, {age}, {ttl}, {_b(hit)})" for (a, b, age, ttl, hit) in cache_rows))
    L.append("]")
    L.append("")
    L.append("end Operon.Gen.GateTable")
    return "\n".join(L) + "\n"


def extract():
    """Called under the build lock by C07 and C08 (after core.import_repo())."""
    try:
        from operon_ai.topology import loops as L
        from operon_ai.core import types as T
        saved_dt = L.datetime
        TStr.lits, TStr.other = set(), set()
        rows, tokens_ok = gate_rows(L, T)
        rc = run_classification(L, T)
        traced_runs(L, T)
        lits, shape_ok = sorted(TStr.lits), not TStr.other
        try:
            carried = carried_state(L, T)
        except Exception as e:  # fail closed: `none` makes c07_request_state_is_local fail
            carried = None
            carried_err = f"{type(e).__name__}: {e}"[:200]
        L.datetime = saved_dt
        safe = safe_rendering_probes(L, T)
        cache_rows = cache_lookup_rows(L, T)
        L.datetime = saved_dt
        text = render(True, rows, tokens_ok, lits, shape_ok, rc, carried, rendered=gate_rows.rendered,
                      unrenderable=gate_rows.unrenderable, safe=safe, cache_rows=cache_rows)
        note = (f"{len(rows)} gate rows, {len(rc)} run-classification rows, literals {lits}"
                + (f", OTHER USES of action_type: {sorted(TStr.other)}" if TStr.other else "")
                + (f", {sum(1 for u in gate_rows.unrenderable if u[3] is None)} gate rows RAISE / DIFFER on unrenderable "
                   f"payloads" if any(u[3] is None for u in gate_rows.unrenderable) else "")
                + ("" if all(safe) else f", run() does not render safely (handler, print) = {safe}")
                + (f", state carried across phases of run(): {carried}" if carried is not None
                   else f", CARRIED-STATE OBSERVATION FAILED: {carried_err}"))
    except Exception as e:  # fail closed
        try:
            L.datetime = saved_dt
        except Exception:  # noqa
            pass
        why = f"{type(e).__name__}: {e}".replace("\n", " ")[:200].replace("-/", "- /")
        text = render(False, [], False, [], False, [], None, why)
        note = "UNRECOGNISED: " + why + " | " + traceback.format_exc()[-300:]
    changed = write_if_changed(OUT, text)
    return [{"id": "E2", "file": str(OUT.relative_to(LEAN)), "facts_changed": changed, "note": note}]
