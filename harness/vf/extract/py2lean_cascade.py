"""py2lean (cascade): symbolic execution of the SOURCE of `Cascade.run` into Lean decision trees, regenerated into
lean/Operon/Gen/CascadeTranslated.lean on every run and proved equal to the hand-written model by
`c19_translation_agrees_init / _loop_body / _finish` and `c19_translated_run_is_model` (Props/C19.lean).

How: the Python AST of `run` is interpreted on symbolic values.  The user callbacks (checkpoint, processor, error handler,
`on_stage_complete`, `on_cascade_complete`) and the configuration (`halt_on_failure`, `required`, presence of a checkpoint /
handler / observer, the clamp comparison) are the branching points: every path through ONE iteration of the stage loop (and
through the code after the loop) is executed, by replaying a growing script of decisions, and the paths are folded back
into a tree of `if` / `match`.  Own methods called from `run` are inlined (wherever they are defined, whatever they are
called and whatever they return: tuples, None, records), local variables may be renamed, re-assigned, introduced or
removed, statements may be reordered as long as the callbacks are called in the same order with the same arguments and the
loop-carried values / recorded stage results / returned record come out the same.

Understood (nothing more):
  * statements: assignment (names, tuple unpacking, fields of a result record, write-only `self._x` bookkeeping attributes),
    augmented assignment, `if/elif/else`, `try/except Exception [as e]/else/finally`, the one `for … in [enumerate(]self._stages[)]`
    loop of `run` with `break` / `continue`, `return`, `pass`, `with self._lock:` (transparent), expression statements;
  * `self.silent` may be read anywhere: both settings are explored and must give the same tree;
  * no-ops: docstrings, `print`, calls on a `logging.Logger` (resolved by value), updates of the statistics attributes
    (`_runs_count`, `_successful_runs`, `_failed_runs`, `_total_amplification`, `_results_history`; also `del` of a slice of one),
    and any `if` whose test
    calls nothing but len/str/int/float/round/repr/max/min/bool and whose branches are all no-ops;
  * values: None/bool/int/float/str constants, the input signal and callback results (opaque signals), amplification
    arithmetic (`*`, `min`, `max`, comparisons) over the stage factor / running gain / `max_amplification`, wall-clock values
    and strings (opaque: nothing modelled may depend on them), `StageResult` / `CascadeResult` records (dataclass defaults
    read from the evaluated class), enum members (by value), tuples, the list of stage results (append / `+ [..]`),
    `sum(1 for r in results if r.status == COMPLETED)` and `len([r for r in results if …])`, `len(self._stages)`,
    conditional expressions, `and` / `or` / `not`, `is None` / `is not None`, `==` / `!=` on enum members and counts.
Every subclass of Cascade in the evaluated module must inherit `run` unchanged (the preset and AgentCascade do).
Anything else → the path's leaf is `none` (or the whole definition, when the shape of `run` itself is not recognised):
exactly the agreement theorems fail (fail closed).  The generated file is elaborated before it replaces the previous one; if
it does not elaborate, all three definitions are emitted as `none`.
"""
from __future__ import annotations

import ast
import dataclasses
import enum
import importlib.util
import logging
import os
import subprocess
import sys
import tempfile
from fractions import Fraction
from pathlib import Path

REL = "operon_ai/topology/cascade.py"
CLASS = "Cascade"
STATS = {"_runs_count", "_successful_runs", "_failed_runs", "_total_amplification", "_results_history"}
CONFIG = {"halt_on_failure", "max_amplification", "on_stage_complete", "on_cascade_complete", "_stages", "silent", "name",
          "mode", "_lock"}
HARMLESS_CALLS = {"len", "str", "int", "float", "round", "repr", "max", "min", "bool", "format", "type"}
MAX_PATHS = 4000


class Unsupported(Exception):
    pass


def bad(node, what):
    raise Unsupported(f"{what} (line {getattr(node, 'lineno', '?')})")


# ------------------------------------------------------------------------------------------------------- symbolic values
class Opaque:
    """wall-clock values, strings, the loop index: nothing modelled may depend on them"""
    def __repr__(self):
        return "<opaque>"


OPAQUE = Opaque()


class Sig:
    def __init__(self, code):
        self.code = code


class RatV:
    def __init__(self, code):
        self.code = code


class BoolSym:
    def __init__(self, code):
        self.code = code


class PropSym:
    def __init__(self, code):
        self.code = code


class OptFn:
    def __init__(self, kind, code, bind):
        self.kind, self.code, self.bind = kind, code, bind


class Fn:
    def __init__(self, kind, code):
        self.kind, self.code = kind, code


class StageSym:
    pass


class SelfSym:
    pass


class StagesList:
    pass


class LenStages:
    pass


class CountV:
    def __init__(self, code):
        self.code = code


class IdxName:
    """stage.name of the stage being worked"""


class OptIdx:
    """the loop-carried blocked_at"""
    def __init__(self, code):
        self.code = code


class Rec:
    def __init__(self, cls, fields):
        self.cls, self.fields = cls, fields


class ListV:
    def __init__(self, prefix, items):
        self.prefix, self.items = prefix, items


class Exc:
    def __init__(self, kind, origin=None):
        self.kind, self.origin = kind, origin


class EnumV:
    def __init__(self, member):
        self.member = member


class ModuleV:
    def __init__(self, value):
        self.value = value


class _Break(Exception):
    pass


class _Continue(Exception):
    pass


class _Return(Exception):
    def __init__(self, value):
        self.value = value


class _PyRaise(Exception):
    def __init__(self, exc):
        self.exc = exc


def vrepr(v):
    if isinstance(v, (Sig, RatV, BoolSym, PropSym, CountV, OptIdx)):
        return f"{type(v).__name__}:{v.code}"
    if isinstance(v, ListV):
        return f"list:{v.prefix}:[{','.join(vrepr(x) for x in v.items)}]"
    if isinstance(v, Rec):
        return f"rec:{v.cls}:{{{','.join(k + '=' + vrepr(x) for k, x in sorted(v.fields.items()))}}}"
    if isinstance(v, tuple):
        return "(" + ",".join(vrepr(x) for x in v) + ")"
    if isinstance(v, EnumV):
        return f"enum:{v.member}"
    if v is None or isinstance(v, (bool, int, float, str)):
        return repr(v)
    return type(v).__name__


def rat_code(v, node=None):
    if isinstance(v, RatV):
        return v.code
    if isinstance(v, bool):
        bad(node, "a bool used as a number")
    if isinstance(v, (int, float)):
        f = Fraction(v)
        if f.denominator == 1:
            return f"({f.numerator} : Rat)" if f.numerator >= 0 else f"(-{-f.numerator} : Rat)"
        return f"(({f.numerator} : Rat) / {f.denominator})"
    bad(node, f"a {type(v).__name__} where a number is expected")


def is_self(node, attr=None):
    return (isinstance(node, ast.Attribute) and isinstance(node.value, ast.Name) and node.value.id == "self"
            and (attr is None or node.attr == attr))


class Executor:
    """one symbolic execution along the path selected by `script` (a list of alternative indices)"""

    def __init__(self, tr, script):
        self.tr = tr
        self.script = script
        self.trail = []          # (key, nalts, chosen)
        self.known = {}          # memo of decisions on conditions (not on calls)
        self.evs = []
        self.seen = []
        self.cseen = []
        self.depth = 0

    # --- decisions ------------------------------------------------------------------------------------------------
    def decide(self, key, nalts, memo=True):
        if memo and key in self.known:
            return self.known[key]
        k = len(self.trail)
        c = self.script[k] if k < len(self.script) else 0
        self.trail.append((key, nalts, c))
        if memo:
            self.known[key] = c
        return c

    def truth(self, v, node=None):
        if v is None or isinstance(v, (bool, int, float, str)):
            return bool(v)
        if isinstance(v, BoolSym):
            return self.decide(("bool", v.code), 2) == 0
        if isinstance(v, PropSym):
            return self.decide(("prop", v.code), 2) == 0
        if isinstance(v, OptFn):
            return self.decide(("opt", v.code, v.bind), 2) == 0
        if isinstance(v, (Fn, Rec, StageSym, SelfSym, EnumV, Exc)):
            return True
        if isinstance(v, tuple):
            return len(v) > 0
        if isinstance(v, ListV):
            if v.items:
                return True
            if v.prefix is None:
                return False
        bad(node, f"truth value of a {type(v).__name__}")

    # --- expressions ----------------------------------------------------------------------------------------------
    def harmless(self, node):
        """calls nothing that could reach a user callback or an own method"""
        for c in ast.walk(node):
            if isinstance(c, ast.Call):
                f = c.func
                if isinstance(f, ast.Name) and f.id in HARMLESS_CALLS:
                    continue
                if isinstance(f, ast.Attribute) and f.attr in ("time", "now", "perf_counter", "monotonic") \
                        and isinstance(f.value, ast.Name) and f.value.id in ("time", "datetime"):
                    continue
                return False
            if isinstance(c, (ast.NamedExpr, ast.Await, ast.Yield, ast.YieldFrom, ast.Lambda)):
                return False
        return True

    def is_logger(self, node):
        while isinstance(node, ast.Attribute):
            node = node.value
        if not isinstance(node, ast.Name):
            return False
        v = getattr(self.tr.mod, node.id, None)
        return isinstance(v, (logging.Logger, logging.LoggerAdapter)) or v is logging

    def ev(self, n, env):
        if isinstance(n, ast.Constant):
            return n.value
        if isinstance(n, ast.Name):
            if n.id in env:
                return env[n.id]
            if n.id == "self":
                return SelfSym()
            mv = getattr(self.tr.mod, n.id, None)
            if mv is not None and n.id not in self.tr.rebound:
                if isinstance(mv, type) or type(mv).__name__ == "module":
                    return ModuleV(mv)
                if isinstance(mv, (bool, int, float)):
                    return mv
            bad(n, f"name {n.id}")
        if isinstance(n, ast.NamedExpr) and isinstance(n.target, ast.Name):
            v = self.ev(n.value, env)
            env[n.target.id] = v
            return v
        if isinstance(n, ast.JoinedStr):
            if not self.harmless(n):
                bad(n, "f-string with a call inside")
            return OPAQUE
        if isinstance(n, ast.Tuple):
            return tuple(self.ev(e, env) for e in n.elts)
        if isinstance(n, ast.List):
            return ListV(None, [self.ev(e, env) for e in n.elts])
        if isinstance(n, ast.Attribute):
            return self.attr(n, env)
        if isinstance(n, ast.IfExp):
            return self.ev(n.body if self.truth(self.ev(n.test, env), n) else n.orelse, env)
        if isinstance(n, ast.BoolOp):
            v = None
            for i, x in enumerate(n.values):
                v = self.ev(x, env)
                t = self.truth(v, x)
                if isinstance(n.op, ast.And) and not t or isinstance(n.op, ast.Or) and t:
                    return v
            return v
        if isinstance(n, ast.UnaryOp):
            if isinstance(n.op, ast.Not):
                return not self.truth(self.ev(n.operand, env), n)
            if isinstance(n.op, ast.USub):
                v = self.ev(n.operand, env)
                if isinstance(v, (int, float)) and not isinstance(v, bool):
                    return -v
            bad(n, f"unary {type(n.op).__name__}")
        if isinstance(n, ast.BinOp):
            return self.binop(n, self.ev(n.left, env), self.ev(n.right, env))
        if isinstance(n, ast.Compare):
            return self.compare(n, env)
        if isinstance(n, ast.Call):
            return self.call(n, env)
        if isinstance(n, ast.Subscript):
            base = self.ev(n.value, env)
            idx = self.ev(n.slice, env)
            if isinstance(base, StagesList) and isinstance(idx, Opaque) and idx is self.tr.loop_index:
                return self.tr.stage
            if isinstance(base, tuple) and isinstance(idx, int) and not isinstance(idx, bool) and -len(base) <= idx < len(base):
                return base[idx]
            if isinstance(base, ListV) and isinstance(idx, int) and not isinstance(idx, bool) and idx < 0 and -idx <= len(base.items):
                return base.items[idx]
            bad(n, "subscript")
        bad(n, f"expression {type(n).__name__}")

    def attr(self, n, env):
        base = self.ev(n.value, env)
        a = n.attr
        if isinstance(base, SelfSym):
            if a == "halt_on_failure":
                return BoolSym("cfg.halt")
            if a == "max_amplification":
                return RatV("cfg.maxAmp")
            if a == "on_stage_complete":
                return OptFn("obs", "obs", "ob")
            if a == "on_cascade_complete":
                return OptFn("cobs", "cobs", "cob")
            if a == "_stages":
                return StagesList()
            if a in ("name", "mode"):
                return OPAQUE
            if a == "silent":
                return BoolSym("silent")      # both settings are explored; they must give the same tree (see build)
            bad(n, f"read of self.{a}")
        if isinstance(base, StageSym):
            if a == "name":
                return IdxName()
            if a == "checkpoint":
                return OptFn("cp", "s.checkpoint", "cp")
            if a == "processor":
                return Fn("proc", "s.processor")
            if a == "on_error":
                return OptFn("eh", "s.onError", "h")
            if a == "amplification":
                return RatV("s.amp")
            if a == "required":
                return BoolSym("s.required")
            if a == "timeout_seconds":
                return OPAQUE
            bad(n, f"read of stage.{a}")
        if isinstance(base, Rec):
            if a in base.fields:
                return base.fields[a]
            bad(n, f"field {a}")
        if isinstance(base, ModuleV):
            v = getattr(base.value, a, None)
            if isinstance(v, enum.Enum):
                return EnumV(v)
            if isinstance(v, type) or type(v).__name__ in ("module", "builtin_function_or_method", "function"):
                return ModuleV(v)
            bad(n, f"attribute {a} of {getattr(base.value, '__name__', base.value)}")
        if isinstance(base, EnumV) and a in ("value", "name"):
            return OPAQUE
        if isinstance(base, (Exc, Opaque)):
            return OPAQUE
        bad(n, f"attribute {a} of a {type(base).__name__}")

    def binop(self, n, a, b):
        if isinstance(a, Opaque) or isinstance(b, Opaque):
            return OPAQUE
        num = lambda v: isinstance(v, RatV) or (isinstance(v, (int, float)) and not isinstance(v, bool))
        if num(a) and num(b):
            if not isinstance(a, RatV) and not isinstance(b, RatV):
                try:
                    return {ast.Add: a + b, ast.Sub: a - b, ast.Mult: a * b}[type(n.op)]
                except KeyError:
                    bad(n, f"operator {type(n.op).__name__} on constants")
            sym = {ast.Add: "+", ast.Sub: "-", ast.Mult: "*"}.get(type(n.op))
            if sym is None:
                bad(n, f"operator {type(n.op).__name__} on the running gain")
            return RatV(f"({rat_code(a, n)} {sym} {rat_code(b, n)})")
        if isinstance(n.op, ast.Add) and isinstance(a, ListV) and isinstance(b, ListV) and b.prefix is None:
            return ListV(a.prefix, a.items + b.items)
        bad(n, f"operator {type(n.op).__name__} on {type(a).__name__}/{type(b).__name__}")

    def compare(self, n, env):
        if len(n.ops) != 1:
            bad(n, "chained comparison")
        op = n.ops[0]
        a, b = self.ev(n.left, env), self.ev(n.comparators[0], env)
        if isinstance(op, (ast.Is, ast.IsNot)):
            if b is not None:
                a, b = b, a
            if b is not None:
                bad(n, "`is` other than with None")
            if a is None:
                r = True
            elif isinstance(a, OptFn):
                r = not self.truth(a, n)
            elif isinstance(a, OptIdx):
                r = self.truth(PropSym(f"({a.code} = none)"), n)
            elif isinstance(a, (Rec, tuple, Fn, Exc, EnumV, IdxName, StageSym, ListV, BoolSym, RatV)) \
                    or isinstance(a, (bool, int, float, str)):
                r = False
            else:
                bad(n, f"`is None` on a {type(a).__name__}")     # a signal may be None: not decidable here
            return r if isinstance(op, ast.Is) else not r
        if isinstance(op, (ast.Eq, ast.NotEq)):
            if isinstance(a, EnumV) and isinstance(b, EnumV):
                r = a.member is b.member
            elif isinstance(a, (CountV, LenStages)) and isinstance(b, (CountV, LenStages)):
                code = lambda v: v.code if isinstance(v, CountV) else "n"
                r = self.truth(PropSym(f"({code(a)} = {code(b)})"), n)
            elif type(a) in (bool, int, float, str, type(None)) and type(b) in (bool, int, float, str, type(None)):
                r = a == b
            else:
                bad(n, f"== on {type(a).__name__}/{type(b).__name__}")
            return r if isinstance(op, ast.Eq) else not r
        sym = {ast.Lt: "<", ast.LtE: "≤", ast.Gt: ">", ast.GtE: "≥"}.get(type(op))
        if sym is None:
            bad(n, f"comparison {type(op).__name__}")
        if isinstance(a, Opaque) or isinstance(b, Opaque):
            bad(n, "comparison on a wall-clock value / string")
        if isinstance(a, RatV) or isinstance(b, RatV):
            return PropSym(f"({rat_code(a, n)} {sym} {rat_code(b, n)})")
        if all(isinstance(v, (int, float)) and not isinstance(v, bool) for v in (a, b)):
            return {"<": a < b, "≤": a <= b, ">": a > b, "≥": a >= b}[sym]
        bad(n, f"comparison on {type(a).__name__}/{type(b).__name__}")

    # --- calls ------------------------------------------------------------------------------------------------------
    def call(self, n, env):
        f = n.func
        if any(isinstance(a, ast.Starred) for a in n.args) or any(k.arg is None for k in n.keywords):
            bad(n, "* / ** in a call")
        if isinstance(f, ast.Name) and f.id not in env:
            name = f.id
            if name == "print":
                if not self.harmless(ast.Tuple(elts=list(n.args) + [k.value for k in n.keywords])):
                    bad(n, "print with a call inside")
                return None
            if name in ("str", "repr", "int", "round", "format", "type"):
                for a in n.args:
                    self.ev(a, env)
                return OPAQUE
            if name == "float" and len(n.args) == 1:
                v = self.ev(n.args[0], env)
                return v if isinstance(v, RatV) else float(v) if isinstance(v, (int, float)) and not isinstance(v, bool) else OPAQUE
            if name == "bool" and len(n.args) == 1:
                v = self.ev(n.args[0], env)
                return v if isinstance(v, BoolSym) else self.truth(v, n)
            if name == "len" and len(n.args) == 1 and isinstance(n.args[0], ast.ListComp):
                return self.count(n.args[0], env, summed=False)
            if name == "len" and len(n.args) == 1:
                return self.length(n, self.ev(n.args[0], env), n.args[0], env)
            if name == "sum" and len(n.args) == 1 and isinstance(n.args[0], ast.GeneratorExp):
                return self.count(n.args[0], env, summed=True)
            if name in ("min", "max") and len(n.args) == 2 and not n.keywords:
                a, b = self.ev(n.args[0], env), self.ev(n.args[1], env)
                ca, cb = rat_code(a, n), rat_code(b, n)
                # min(a, b) is b when b < a, else a; max(a, b) is b when b > a, else a
                pick_b = self.truth(PropSym(f"({cb} {'<' if name == 'min' else '>'} {ca})"), n)
                return b if pick_b else a
            if name in ("list", "tuple") and len(n.args) == 1:
                v = self.ev(n.args[0], env)
                if isinstance(v, StagesList):
                    return v
                bad(n, f"{name}(...)")
            mv = getattr(self.tr.mod, name, None)
            if isinstance(mv, type) and dataclasses.is_dataclass(mv) and name not in self.tr.rebound:
                return self.record(n, mv, env)
            bad(n, f"call of {name}")
        if isinstance(f, ast.Attribute):
            if self.is_logger(f.value):
                if not self.harmless(ast.Tuple(elts=list(n.args) + [k.value for k in n.keywords])):
                    bad(n, "logging call with a call inside")
                return None
            if is_self(f) and f.attr in self.tr.fns and f.attr not in env:
                return self.inline(n, f.attr, env)
            base = self.ev(f.value, env)
            if isinstance(base, ListV) and f.attr == "append" and len(n.args) == 1 and not n.keywords:
                base.items.append(self.ev(n.args[0], env))
                return None
            if isinstance(base, ListV) and f.attr == "extend" and len(n.args) == 1 and not n.keywords:
                more = self.ev(n.args[0], env)
                if isinstance(more, ListV) and more.prefix is None:
                    base.items.extend(more.items)
                    return None
                if isinstance(more, tuple):
                    base.items.extend(more)
                    return None
                bad(n, "extend with something that is not a literal list")
            if isinstance(base, ModuleV) and isinstance(getattr(base.value, f.attr, None), type) \
                    and dataclasses.is_dataclass(getattr(base.value, f.attr)):
                return self.record(n, getattr(base.value, f.attr), env)
            if isinstance(base, ModuleV) and f.attr in ("time", "now", "perf_counter", "monotonic", "utcnow"):
                return OPAQUE
            if isinstance(base, Opaque):
                for a in n.args:
                    self.ev(a, env)
                return OPAQUE
        fv = self.ev(f, env)
        if isinstance(fv, OptFn):
            if ("opt", fv.code, fv.bind) not in self.known:
                bad(n, f"call of {fv.code}, which may be None here")
            if self.known[("opt", fv.code, fv.bind)] != 0:
                raise _PyRaise(Exc("other"))         # calling None: TypeError
            fv = Fn(fv.kind, fv.bind)
        if isinstance(fv, Fn):
            if n.keywords:
                bad(n, "keyword arguments in a callback call")
            return self.callback(n, fv, [self.ev(a, env) for a in n.args])
        bad(n, f"call of {ast.unparse(f)}")

    def length(self, n, v, argnode, env):
        if isinstance(v, StagesList):
            return LenStages()
        if isinstance(v, tuple):
            return len(v)
        if isinstance(v, ListV) and v.prefix is None:
            return len(v.items)
        if isinstance(v, CountV):
            return v
        bad(n, f"len of a {type(v).__name__}")

    def count(self, g, env, summed):
        """sum(1 for r in L if r.status == COMPLETED) / len([r for r in L if …]) / sum(r.status == COMPLETED for r in L)"""
        if len(g.generators) != 1 or g.generators[0].is_async or not isinstance(g.generators[0].target, ast.Name):
            bad(g, "comprehension")
        gen = g.generators[0]
        lst = self.ev(gen.iter, env)
        var = gen.target.id
        conds = list(gen.ifs)
        if summed and isinstance(g.elt, ast.Constant) and g.elt.value == 1 and type(g.elt.value) is int:
            pass
        elif summed and not conds:
            conds = [g.elt]
        elif not summed and isinstance(g.elt, ast.Name) and g.elt.id == var:
            pass
        else:
            bad(g, "comprehension element")
        if len(conds) != 1:
            bad(g, "comprehension filter")
        c = conds[0]
        ok = (isinstance(c, ast.Compare) and len(c.ops) == 1 and isinstance(c.ops[0], (ast.Eq, ast.Is))
              and isinstance(c.left, ast.Attribute) and isinstance(c.left.value, ast.Name) and c.left.value.id == var
              and c.left.attr == "status")
        if not ok:
            bad(g, "comprehension filter")
        m = self.ev(c.comparators[0], env)
        if not (isinstance(m, EnumV) and m.member.name == "COMPLETED"):
            bad(g, "count of something other than COMPLETED results")
        if not isinstance(lst, ListV) or lst.prefix is None or lst.items:
            bad(g, "count over something other than the list of stage results after the loop")
        return CountV(f"completedCount {lst.prefix}")

    def record(self, n, cls, env):
        flds = dataclasses.fields(cls)
        vals = {}
        for f in flds:
            if f.default is not dataclasses.MISSING:
                vals[f.name] = f.default
            elif f.default_factory is not dataclasses.MISSING:
                vals[f.name] = OPAQUE if f.name != "stage_results" else ListV(None, [])
        names = [f.name for f in flds]
        if len(n.args) > len(names):
            bad(n, "too many arguments")
        for i, a in enumerate(n.args):
            vals[names[i]] = self.ev(a, env)
        for k in n.keywords:
            if k.arg not in names:
                bad(n, f"unknown field {k.arg}")
            vals[k.arg] = self.ev(k.value, env)
        if set(vals) != set(names):
            bad(n, f"{cls.__name__}(...) without {sorted(set(names) - set(vals))}")
        return Rec(cls.__name__, vals)

    def inline(self, n, name, env):
        fn = self.tr.fns[name]
        a = fn.args
        if a.vararg or a.kwarg or a.posonlyargs or fn.decorator_list:
            bad(n, f"signature of {name}")
        if self.depth > 6:
            bad(n, f"recursion through {name}")
        params = [x.arg for x in a.args[1:]]
        new = {}
        if len(n.args) > len(params):
            bad(n, f"too many arguments for {name}")
        for p, x in zip(params, n.args):
            new[p] = self.ev(x, env)
        kwonly = [x.arg for x in a.kwonlyargs]
        for k in n.keywords:
            if k.arg in new or k.arg not in params + kwonly:
                bad(n, f"keyword {k.arg} for {name}")
            new[k.arg] = self.ev(k.value, env)
        nd = len(a.defaults)
        for i, p in enumerate(params):
            if p not in new:
                j = i - (len(params) - nd)
                if j < 0:
                    bad(n, f"no argument for {p} of {name}")
                new[p] = self.ev(a.defaults[j], {})
        for p, d in zip(kwonly, a.kw_defaults):
            if p not in new:
                if d is None:
                    bad(n, f"no argument for {p} of {name}")
                new[p] = self.ev(d, {})
        self.depth += 1
        try:
            self.block(fn.body, new)
            return None
        except _Return as r:
            return r.value
        except (_Break, _Continue):
            bad(n, "break / continue outside a loop")
        finally:
            self.depth -= 1

    def callback(self, n, fn, args):
        d = len(self.trail)
        if fn.kind == "cp":
            if len(args) != 1 or not isinstance(args[0], Sig):
                bad(n, "checkpoint called with something that is not the signal")
            c = self.decide(("call", "cp", fn.code, args[0].code), 3, memo=False)
            self.evs.append(f".cp i {args[0].code} " + ["(.ok true)", "(.ok false)", ".raise"][c])
            if c == 2:
                raise _PyRaise(Exc("cp", args[0]))
            return c == 0
        if fn.kind == "proc":
            if len(args) != 1 or not isinstance(args[0], Sig):
                bad(n, "processor called with something that is not the signal")
            c = self.decide(("call", "proc", fn.code, args[0].code, f"v{d}"), 2, memo=False)
            self.evs.append(f".proc i {args[0].code}")
            if c == 1:
                raise _PyRaise(Exc("proc", args[0]))
            return Sig(f"v{d}")
        if fn.kind == "eh":
            if len(args) != 1 or not isinstance(args[0], Exc) or args[0].kind != "proc":
                bad(n, "error handler called with something that is not the processor's exception")
            c = self.decide(("call", "eh", fn.code, args[0].origin.code, f"v{d}"), 2, memo=False)
            self.evs.append(".eh i")
            if c == 1:
                raise _PyRaise(Exc("eh"))
            return Sig(f"v{d}")
        if fn.kind == "obs":
            if len(args) != 1 or not isinstance(args[0], Rec) or args[0].cls != "StageResult" \
                    or not isinstance(args[0].fields.get("stage_name"), IdxName):
                bad(n, "on_stage_complete called with something that is not this stage's result")
            c = self.decide(("call", "obs", fn.code, "i"), 2, memo=False)
            self.seen.append("i")
            if c == 1:
                raise _PyRaise(Exc("obs"))
            return None
        if fn.kind == "cobs":
            if len(args) != 1 or not isinstance(args[0], Rec) or args[0].cls != "CascadeResult":
                bad(n, "on_cascade_complete called with something that is not the result")
            c = self.decide(("call", "cobs", fn.code, "()"), 2, memo=False)
            self.cseen.append(args[0])
            if c == 1:
                raise _PyRaise(Exc("cobs"))
            return None
        bad(n, f"callback kind {fn.kind}")

    # --- statements -------------------------------------------------------------------------------------------------
    def noop(self, st):
        if isinstance(st, ast.Pass):
            return True
        if isinstance(st, ast.Expr):
            v = st.value
            if isinstance(v, ast.Constant):
                return True
            if isinstance(v, ast.Call):
                f = v.func
                args = ast.Tuple(elts=list(v.args) + [k.value for k in v.keywords])
                if isinstance(f, ast.Name) and f.id == "print":
                    return self.harmless(args)
                if isinstance(f, ast.Attribute) and self.is_logger(f.value):
                    return self.harmless(args)
                if isinstance(f, ast.Attribute) and is_self(f.value) and f.value.attr in STATS:
                    return self.harmless(args)
            return False
        if isinstance(st, (ast.Assign, ast.AnnAssign, ast.AugAssign)):
            tg = st.targets if isinstance(st, ast.Assign) else [st.target]
            if isinstance(st, ast.AnnAssign) and st.value is None:
                return True
            if all(is_self(t) and t.attr in STATS for t in tg):
                return self.harmless(st.value)
            return False
        if isinstance(st, ast.Delete):
            # `del self._results_history[:-1000]`: trimming a statistics attribute in place
            def stat_target(t):
                if isinstance(t, ast.Subscript):
                    return is_self(t.value) and t.value.attr in STATS and self.harmless(t.slice)
                return False
            return all(stat_target(t) for t in st.targets)
        if isinstance(st, ast.If):
            if not self.harmless(st.test):
                return False
            # locals that exist only for the console output inside this `if` (e.g. `status = "ok" if success else "failed"`)
            scratch = set()
            for x in st.body + st.orelse:
                if self.noop(x):
                    continue
                if isinstance(x, ast.Assign) and len(x.targets) == 1 and isinstance(x.targets[0], ast.Name) \
                        and self.harmless(x.value):
                    scratch.add(x.targets[0].id)
                    continue
                return False
            if scratch:
                fn = self.tr.fn_of.get(id(st))
                if fn is None:
                    return False
                inside = {id(n) for n in ast.walk(st)}
                in_loop = any(id(st) in {id(x) for x in ast.walk(l)} for l in ast.walk(fn)
                              if isinstance(l, (ast.For, ast.While)))
                for n in ast.walk(fn):
                    if isinstance(n, ast.Name) and n.id in scratch and id(n) not in inside \
                            and (in_loop or n.lineno > st.end_lineno):
                        return False         # something else could see the value assigned here
            return True
        return False

    def assign(self, tgt, val, env, node):
        if isinstance(tgt, ast.Name):
            env[tgt.id] = val
            return
        if isinstance(tgt, (ast.Tuple, ast.List)):
            if not isinstance(val, tuple) or len(val) != len(tgt.elts) or any(isinstance(e, ast.Starred) for e in tgt.elts):
                bad(node, "unpacking")
            for t, v in zip(tgt.elts, val):
                self.assign(t, v, env, node)
            return
        if isinstance(tgt, ast.Attribute):
            if is_self(tgt):
                if tgt.attr in CONFIG or tgt.attr in self.tr.fns:
                    bad(node, f"assignment to self.{tgt.attr}")
                self.tr.written.add(tgt.attr)        # write-only bookkeeping: reads of it are not understood
                return
            base = self.ev(tgt.value, env)
            if isinstance(base, Rec) and tgt.attr in base.fields:
                base.fields[tgt.attr] = val
                return
        bad(node, "assignment target")

    def block(self, stmts, env):
        for st in stmts:
            self.stmt(st, env)

    def stmt(self, st, env):
        if self.noop(st):
            return
        if isinstance(st, ast.Expr):
            self.ev(st.value, env)
            return
        if isinstance(st, ast.Assign):
            v = self.ev(st.value, env)
            for t in st.targets:
                self.assign(t, v, env, st)
            return
        if isinstance(st, ast.AnnAssign):
            self.assign(st.target, self.ev(st.value, env), env, st)
            return
        if isinstance(st, ast.AugAssign):
            cur = self.ev(ast.copy_location(ast.Name(id=st.target.id, ctx=ast.Load()), st)
                          if isinstance(st.target, ast.Name) else
                          ast.copy_location(ast.Attribute(value=st.target.value, attr=st.target.attr, ctx=ast.Load()), st)
                          if isinstance(st.target, ast.Attribute) else bad(st, "augmented assignment target"), env)
            fake = ast.copy_location(ast.BinOp(left=st.target, op=st.op, right=st.value), st)
            self.assign(st.target, self.binop(fake, cur, self.ev(st.value, env)), env, st)
            return
        if isinstance(st, ast.If):
            self.block(st.body if self.truth(self.ev(st.test, env), st) else st.orelse, env)
            return
        if isinstance(st, ast.With):
            if len(st.items) == 1 and is_self(st.items[0].context_expr, "_lock") and st.items[0].optional_vars is None:
                self.block(st.body, env)
                return
            bad(st, "`with` on something other than self._lock")
        if isinstance(st, ast.Try):
            self.try_(st, env)
            return
        if isinstance(st, ast.Return):
            raise _Return(None if st.value is None else self.ev(st.value, env))
        if isinstance(st, ast.Break):
            raise _Break()
        if isinstance(st, ast.Continue):
            raise _Continue()
        if isinstance(st, ast.Raise):
            if st.exc is None and "__exc__" in env:
                raise _PyRaise(env["__exc__"])
            raise _PyRaise(Exc("other"))
        bad(st, f"statement {type(st).__name__}")

    def try_(self, st, env):
        def protected():
            try:
                self.block(st.body, env)
            except _PyRaise as pr:
                for h in st.handlers:
                    t = h.type
                    catches_all = t is None or (isinstance(t, ast.Name) and t.id in ("Exception", "BaseException")
                                                and t.id not in env)
                    if not catches_all:
                        bad(h, "except clause for a particular exception class")
                    if h.name:
                        env[h.name] = pr.exc
                    old = env.get("__exc__")
                    env["__exc__"] = pr.exc
                    try:
                        self.block(h.body, env)
                    finally:
                        if old is None:
                            env.pop("__exc__", None)
                        else:
                            env["__exc__"] = old
                    return
                raise
            else:
                self.block(st.orelse, env)
        if st.finalbody:
            try:
                protected()
            except Unsupported:
                raise
            except BaseException:
                self.block(st.finalbody, env)
                raise
            self.block(st.finalbody, env)
        else:
            protected()


# ------------------------------------------------------------------------------------------------------------- translator
class Translator:
    def __init__(self, src, mod):
        self.ast_tree = ast.parse(src)
        self.mod = mod
        cls = [n for n in self.ast_tree.body if isinstance(n, ast.ClassDef) and n.name == CLASS]
        if len(cls) != 1:
            raise Unsupported("class Cascade not found exactly once")
        self.fns = {n.name: n for n in cls[0].body if isinstance(n, ast.FunctionDef)}
        if "run" not in self.fns:
            raise Unsupported("Cascade.run not found")
        self.rebound = set()
        for n in ast.walk(self.ast_tree):
            if isinstance(n, (ast.Global, ast.Nonlocal)):
                self.rebound |= set(n.names)
        # the translation speaks for every cascade class of the module only if none of them replaces `run`
        base = getattr(mod, CLASS, None)
        if not isinstance(base, type) or "run" not in vars(base):
            raise Unsupported("Cascade.run is not defined on the evaluated class")
        for name, v in sorted(vars(mod).items()):
            if isinstance(v, type) and v is not base and issubclass(v, base) and v.run is not base.run:
                raise Unsupported(f"{name} overrides run")
        self.written = set()
        self.pro_rest = None
        self.fn_of = {}
        for f in self.fns.values():
            for n in ast.walk(f):
                self.fn_of[id(n)] = f
        self.stage = StageSym()
        self.loop_index = Opaque()
        self.split()

    def split(self):
        fn = self.fns["run"]
        a = fn.args
        if a.vararg or a.kwarg or a.kwonlyargs or a.posonlyargs or fn.decorator_list or len(a.args) != 2:
            bad(fn, "signature of run")
        self.param = a.args[1].arg
        body = list(fn.body)
        # `with self._lock:` around everything is transparent
        while True:
            flat = []
            changed = False
            for st in body:
                if isinstance(st, ast.With) and len(st.items) == 1 and is_self(st.items[0].context_expr, "_lock") \
                        and st.items[0].optional_vars is None:
                    flat += st.body
                    changed = True
                else:
                    flat.append(st)
            body = flat
            if not changed:
                break
        loops = [k for k, st in enumerate(body) if isinstance(st, (ast.For, ast.While))]
        if len(loops) != 1 or not isinstance(body[loops[0]], ast.For):
            bad(fn, "run does not consist of prologue, one for-loop over the stages, epilogue")
        k = loops[0]
        self.pro, self.loop, self.epi = body[:k], body[k], body[k + 1:]
        for part in (self.pro, self.epi):
            for st in part:
                for n in ast.walk(st):
                    if isinstance(n, (ast.For, ast.While, ast.AsyncFor)):
                        bad(n, "a second loop in run")
        for n in ast.walk(self.loop):
            if n is not self.loop and isinstance(n, (ast.For, ast.While, ast.AsyncFor)):
                bad(n, "a loop nested in the stage loop")
        for name, f in self.fns.items():
            if name == "run":
                continue
        if self.loop.orelse:
            bad(self.loop, "for … else")
        it, tg = self.loop.iter, self.loop.target
        over_stages = lambda e: is_self(e, "_stages") or (isinstance(e, ast.Call) and isinstance(e.func, ast.Name)
                                                          and e.func.id in ("list", "tuple") and len(e.args) == 1
                                                          and not e.keywords and is_self(e.args[0], "_stages"))
        self.bind = {}
        if over_stages(it) and isinstance(tg, ast.Name):
            self.bind[tg.id] = self.stage
        elif (isinstance(it, ast.Call) and isinstance(it.func, ast.Name) and it.func.id == "enumerate" and it.args
              and over_stages(it.args[0]) and isinstance(tg, ast.Tuple) and len(tg.elts) == 2
              and all(isinstance(e, ast.Name) for e in tg.elts)):
            self.bind[tg.elts[0].id] = self.loop_index
            self.bind[tg.elts[1].id] = self.stage
        elif (isinstance(it, ast.Call) and isinstance(it.func, ast.Name) and it.func.id == "range" and len(it.args) == 1
              and isinstance(it.args[0], ast.Call) and isinstance(it.args[0].func, ast.Name) and it.args[0].func.id == "len"
              and len(it.args[0].args) == 1 and is_self(it.args[0].args[0], "_stages") and isinstance(tg, ast.Name)):
            self.bind[tg.id] = self.loop_index
        else:
            bad(self.loop, "loop header")

    # --- the three pieces -------------------------------------------------------------------------------------------
    def prologue(self, ex):
        env = {self.param: Sig("x")}
        try:
            ex.block(self.pro, env)
        except (_Return, _Break, _Continue, _PyRaise):
            bad(self.pro[0] if self.pro else self.loop, "prologue leaves run")
        return env

    def roles(self, env):
        stored = set()
        for n in ast.walk(self.loop):
            if isinstance(n, ast.Name) and isinstance(n.ctx, ast.Store):
                stored.add(n.id)
            if isinstance(n, ast.Call) and isinstance(n.func, ast.Attribute) and n.func.attr == "append" \
                    and isinstance(n.func.value, ast.Name):
                stored.add(n.func.value.id)
        # a helper that is handed the list appends to it under another name: every list of the prologue is carried
        for k, v in env.items():
            if isinstance(v, ListV):
                stored.add(k)
        # the variables the epilogue reads are carried as well
        roles = {}
        for k in sorted(stored & set(env)):
            v = env[k]
            r = None
            if isinstance(v, Sig):
                r = "cur"
            elif isinstance(v, RatV) or (isinstance(v, (int, float)) and not isinstance(v, bool)):
                r = "amp"
            elif v is None:
                r = "blk"
            elif isinstance(v, ListV):
                r = "results"
            elif isinstance(v, Opaque):
                continue
            else:
                bad(self.loop, f"loop-carried variable {k} of an unknown kind")
            if r in roles:
                bad(self.loop, f"two loop-carried variables of the same kind ({roles[r]}, {k})")
            roles[r] = k
        if set(roles) != {"cur", "amp", "blk", "results"}:
            bad(self.loop, f"loop-carried variables found: {sorted(roles)}")
        if env[roles["results"]].items or env[roles["results"]].prefix is not None:
            bad(self.loop, "the list of stage results does not start empty")
        return roles

    def leaf_init(self, script):
        ex = Executor(self, script)
        env = self.prologue(ex)
        roles = self.roles(env)
        # what the loop and the epilogue see of the prologue besides the loop-carried variables must not depend on the
        # decisions taken in it (the other pieces are translated with the prologue's first path)
        rest = sorted((k, vrepr(v)) for k, v in env.items() if k not in roles.values())
        if self.pro_rest is None:
            self.pro_rest = rest
        elif rest != self.pro_rest:
            bad(self.loop, "a variable set before the loop depends on the configuration")
        return ex, f"some ⟨{env[roles['cur']].code}, {rat_code(env[roles['amp']])}, none⟩"

    def stage_res(self, r):
        if not isinstance(r, Rec) or r.cls != "StageResult":
            bad(self.loop, "something other than a StageResult in the list of stage results")
        f = r.fields
        if not isinstance(f["stage_name"], IdxName):
            bad(self.loop, "stage result under another name than the stage's")
        st = f["status"]
        names = {"COMPLETED": ".completed", "FAILED": ".failed", "SKIPPED": ".skipped", "BLOCKED": ".blocked"}
        if not isinstance(st, EnumV) or st.member.name not in names:
            bad(self.loop, "stage result with a status outside completed/failed/skipped/blocked")
        if not isinstance(f["input_signal"], Sig):
            bad(self.loop, "stage result without the input signal")
        out = f["output_signal"]
        if out is None:
            oc = "none"
        elif isinstance(out, Sig):
            oc = f"(some {out.code})"
        else:
            bad(self.loop, "stage result with an output that is not a signal")
        return f"⟨i, {names[st.member.name]}, {f['input_signal'].code}, {oc}, {rat_code(f['amplification_factor'])}⟩"

    def leaf_body(self, script):
        env = self.prologue(Executor(self, []))      # decisions of the prologue only shape `init` (checked there)
        roles = self.roles(env)
        ex = Executor(self, script)
        res = ListV("R", [])
        env[roles["cur"]] = Sig("a.cur")
        env[roles["amp"]] = RatV("a.amp")
        env[roles["blk"]] = OptIdx("a.blockedAt")
        env[roles["results"]] = res
        env.update(self.bind)
        stop = False
        try:
            ex.block(self.loop.body, env)
        except _Continue:
            pass
        except _Break:
            stop = True
        except _Return:
            bad(self.loop, "return inside the stage loop")
        except _PyRaise:
            return ex, "none"              # an exception that escapes run: the model has no such run
        cur, amp, blk, lst = (env.get(roles[k]) for k in ("cur", "amp", "blk", "results"))
        if not isinstance(cur, Sig):
            bad(self.loop, "the current signal is not a signal at the end of the iteration")
        if isinstance(blk, OptIdx):
            bc = blk.code
        elif isinstance(blk, IdxName):
            bc = "(some i)"
        elif blk is None:
            bc = "none"
        else:
            bad(self.loop, "blocked_at is neither None nor a stage name")
        if not isinstance(lst, ListV) or lst.prefix != "R":
            bad(self.loop, "the list of stage results was replaced")
        rs = ", ".join(self.stage_res(r) for r in lst.items)
        return ex, (f"some ⟨⟨{cur.code}, {rat_code(amp)}, {bc}⟩, [{rs}], [{', '.join(ex.evs)}], "
                    f"{'true' if stop else 'false'}, [{', '.join(ex.seen)}]⟩")

    def leaf_finish(self, script):
        env = self.prologue(Executor(self, []))      # decisions of the prologue only shape `init` (checked there)
        roles = self.roles(env)
        ex = Executor(self, script)
        env[roles["cur"]] = Sig("r.acc.cur")
        env[roles["amp"]] = RatV("r.acc.amp")
        env[roles["blk"]] = OptIdx("r.acc.blockedAt")
        env[roles["results"]] = ListV("r.results", [])
        try:
            ex.block(self.epi, env)
            bad(self.loop, "run ends without returning the result")
        except _Return as r:
            val = r.value
        except (_Break, _Continue):
            bad(self.loop, "break / continue after the loop")
        except _PyRaise as pr:
            if pr.exc.kind == "cobs":
                return ex, "some .raise"
            return ex, "none"
        if not isinstance(val, Rec) or val.cls != "CascadeResult":
            bad(self.loop, "run returns something other than a CascadeResult")
        if any(c is not val for c in ex.cseen):
            bad(self.loop, "on_cascade_complete is shown another record than the one returned")
        f = val.fields
        ok = ex.truth(f["success"]) if not isinstance(f["success"], bool) else f["success"]
        fin = f["final_output"]
        if fin is None:
            fc = "none"
        elif isinstance(fin, Sig):
            fc = f"(some {fin.code})"
        else:
            bad(self.loop, "final_output is neither None nor a signal")
        comp, tot = f["stages_completed"], f["stages_total"]
        if not isinstance(comp, CountV) or not isinstance(tot, LenStages):
            bad(self.loop, "stages_completed / stages_total")
        blk = f["blocked_at"]
        if not isinstance(blk, OptIdx):
            bad(self.loop, "blocked_at of the result")
        lst = f["stage_results"]
        if not isinstance(lst, ListV) or lst.prefix != "r.results" or lst.items:
            bad(self.loop, "stage_results of the result")
        return ex, (f"some (.ok {{ success := {'true' if ok else 'false'}, final := {fc}, completed := {comp.code}, "
                    f"total := n, amplification := {rat_code(f['total_amplification'])}, blockedAt := {blk.code}, "
                    f"results := {lst.prefix}, log := r.log }})")

    # --- path enumeration -------------------------------------------------------------------------------------------
    def tree(self, leaf_fn):
        """all paths -> nested decision tree {key, alts: [subtree...]} | leaf string"""
        paths = []
        script = []
        while True:
            try:
                ex, leaf = leaf_fn(script)
            except Unsupported as e:
                # this path left the subset: its leaf is `none`; the decisions taken so far are not known (the executor
                # is lost), so the whole piece is given up unless at least the trail can be recovered
                raise
            trail = ex.trail
            paths.append(([(k, c) for (k, _, c) in trail], leaf))
            if len(paths) > MAX_PATHS:
                raise Unsupported("too many paths")
            # next script: increment the last decision that has alternatives left
            nxt = None
            for j in range(len(trail) - 1, -1, -1):
                key, nalts, c = trail[j]
                if c + 1 < nalts:
                    nxt = [t[2] for t in trail[:j]] + [c + 1]
                    break
            if nxt is None:
                break
            script = nxt

        def build(ps, depth):
            if len(ps) == 1 and len(ps[0][0]) == depth:
                return ps[0][1]
            key = ps[0][0][depth][0]
            groups = {}
            for p in ps:
                if len(p[0]) <= depth or p[0][depth][0] != key:
                    raise Unsupported("non-deterministic replay")
                groups.setdefault(p[0][depth][1], []).append(p)
            alts = {c: build(g, depth + 1) for c, g in groups.items()}
            if key == ("bool", "silent"):
                # console output on / off: must not matter
                subs = list(alts.values())
                if any(render_tree(x, 0) != render_tree(subs[0], 0) for x in subs[1:]):
                    raise Unsupported("what run does depends on `silent`")
                return subs[0]
            return {"key": key, "alts": alts}
        return build(paths, 0), len(paths)


def render_tree(t, ind):
    pad = "  " * ind
    if isinstance(t, str):
        return pad + t
    key, alts = t["key"], t["alts"]
    sub = lambda c: render_tree(alts[c], ind + 1)
    if key[0] == "bool":
        return f"{pad}if {key[1]} = true then\n{sub(0)}\n{pad}else\n{sub(1)}"
    if key[0] == "prop":
        return f"{pad}if {key[1]} then\n{sub(0)}\n{pad}else\n{sub(1)}"
    if key[0] == "opt":
        return f"{pad}match {key[1]} with\n{pad}| some {key[2]} =>\n{sub(0)}\n{pad}| none =>\n{sub(1)}"
    if key[0] == "call":
        kind = key[1]
        if kind == "cp":
            return (f"{pad}match {key[2]} {key[3]} with\n{pad}| .ok true =>\n{sub(0)}\n{pad}| .ok false =>\n{sub(1)}\n"
                    f"{pad}| .raise =>\n{sub(2)}")
        if kind in ("proc", "eh"):
            return f"{pad}match {key[2]} {key[3]} with\n{pad}| .ok {key[4]} =>\n{sub(0)}\n{pad}| .raise =>\n{sub(1)}"
        return f"{pad}match {key[2]} {key[3]} with\n{pad}| .ok _ =>\n{sub(0)}\n{pad}| .raise =>\n{sub(1)}"
    raise Unsupported(f"decision {key}")


HEAD = ("import Operon.Model.CascadeTr\n"
        "/- GENERATED by harness/vf/extract/py2lean_cascade.py from operon_ai/topology/cascade.py on every run; do not edit.\n"
        "   `init` / `body` / `finish` are the prologue, one iteration of the stage loop and the epilogue of `Cascade.run`,\n"
        "   obtained by executing its source symbolically along every path (see the translator for the supported subset).\n"
        "   `none` marks a path (or a whole piece) that left the subset: the agreement theorems c19_translation_agrees_*\n"
        "   then fail. -/\n"
        "namespace Operon.Gen.CascadeTranslated\n"
        "open Operon.Cascade\n"
        "set_option linter.unusedVariables false\n\n")

SIGS = {
    "init": "def init {σ : Type} (cfg : Cfg) (x : σ) : Option (Acc σ) :=",
    "body": "def body {σ : Type} (cfg : Cfg) (obs : Option StageObs) (i : Nat) (s : Stage σ) (a : Acc σ) : Option (TrStep σ) :=",
    "finish": "def finish {σ : Type} (cobs : Option CascObs) (n : Nat) (r : Run σ) : Option (Out (Result σ)) :=",
}
DOC = {"init": "the loop-carried state before the first stage (current signal, running gain, blocked_at)",
       "body": "one iteration of the stage loop",
       "finish": "the code after the loop: the result record and `on_cascade_complete`"}


def render(src: str, mod) -> tuple[str, dict]:
    info = {"unsupported": {}, "paths": {}}
    pieces = {}
    try:
        if mod is None:
            raise Unsupported("the module could not be evaluated")
        tr = Translator(src, mod)
    except (Unsupported, SyntaxError, RecursionError) as e:
        tr = None
        for k in SIGS:
            info["unsupported"][k] = str(e)
    if tr is not None:
        for k, fn in (("init", tr.leaf_init), ("body", tr.leaf_body), ("finish", tr.leaf_finish)):
            try:
                t, n = tr.tree(fn)
                pieces[k] = render_tree(t, 1)
                info["paths"][k] = n
            except (Unsupported, RecursionError, KeyError, AttributeError, TypeError, IndexError) as e:
                info["unsupported"][k] = f"{type(e).__name__}: {e}"
        info["write_only_attributes"] = sorted(tr.written)
    out = HEAD
    for k in ("init", "body", "finish"):
        why = info["unsupported"].get(k)
        out += f"/-- {DOC[k]}" + (f" — UNTRANSLATABLE: {why}".replace("-/", "- /")[:400] if why else "") + " -/\n"
        out += SIGS[k] + "\n" + (pieces[k] if k in pieces else "  none") + "\n\n"
    return out + "end Operon.Gen.CascadeTranslated\n", info


def load_module(repo: Path):
    """the evaluated module (constants, dataclass defaults, enum members and loggers are resolved by VALUE)"""
    root = str(repo)
    if root not in sys.path:
        sys.path.insert(0, root)
    try:
        import operon_ai
        if not str(Path(operon_ai.__file__).resolve()).startswith(str(Path(root).resolve())):
            return None
        from operon_ai.topology import cascade as m
        return m
    except BaseException:  # noqa
        return None


def elaborates(lean_dir: Path, text: str) -> tuple[bool, str]:
    try:
        with tempfile.NamedTemporaryFile("w", suffix=".lean", delete=False, dir="/tmp") as f:
            f.write(text)
            tmp = f.name
        p = subprocess.run(["lake", "env", "lean", tmp], cwd=str(lean_dir), capture_output=True, text=True, timeout=300)
        os.unlink(tmp)
        errs = [l for l in (p.stdout + p.stderr).splitlines() if "error" in l]
        return p.returncode == 0 and not errs, "; ".join(errs)[:300]
    except Exception as e:  # noqa
        return False, repr(e)


def run(repo: Path, lean_dir: Path, write_if_changed) -> list[dict]:
    path = Path(repo) / REL
    try:
        src = path.read_text()
    except OSError:
        src = ""
    mod = load_module(Path(repo)) if src else None
    text, info = render(src, mod)
    target = Path(lean_dir) / "Operon/Gen/CascadeTranslated.lean"
    if not (target.exists() and target.read_text() == text):
        subprocess.run(["lake", "build", "Operon.Model.CascadeTr"], cwd=str(lean_dir), capture_output=True, text=True)
        ok, why = elaborates(Path(lean_dir), text)
        if not ok:
            info["unsupported"] = {k: f"generated code does not elaborate: {why}" for k in SIGS}
            text, _ = render("", None)
    changed = write_if_changed(target, text)
    return [{"id": "py2lean-cascade", "facts_changed": bool(changed), "paths": info.get("paths"),
             "unsupported": info["unsupported"], "write_only_attributes": info.get("write_only_attributes", []),
             "module_evaluated": mod is not None}]


if __name__ == "__main__":
    root = Path(sys.argv[1] if len(sys.argv) > 1 else "/repo")
    t, i = render((root / REL).read_text(), load_module(root))
    print(t)
    print(i, file=sys.stderr)
