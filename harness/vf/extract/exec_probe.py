"""Probe of CoordinationSystem.execute_operation on the complete domain of its callback outcomes (C14).

The real method is EVALUATED, through the same runner the correspondence uses (`_coord.Impl`), on a fresh system with one
free resource, requesting it, for every combination of
    4 checkpoint evaluations x {default condition, returns False, raises}   (81)
  x work_fn {returns, raises}                                              (2)
  x validate_fn {absent, True, False, raises}                              (4)
= 648 calls, and what happened - success flag, the phase reported, and the order of the callback events (`cp<i>:<b>`,
`work:<b>`, `val:<b>`) - is emitted as a Lean table into Operon/Gen/CoordExecProbe.lean.
`c14_exec_table_agrees_with_source` (Props/C14.lean) proves by `decide` over the complete table that the hand-written
model `exec` produces exactly these event sequences, success flags and phases: the skeleton of `execute_operation` (which
callback runs after which, what makes it stop, when success is reported) is the code's, not only the model's.
Fails closed: an exception escaping the call, a hang or a malformed observation sets `execProbeOk := false`.
"""
from __future__ import annotations

import itertools
from pathlib import Path

PHASE_LEAN = {"g0": "Phase.g0", "g1": "Phase.g1", "s": "Phase.s", "g2": "Phase.g2", "m": "Phase.m"}
CP_LEAN = {"b": "CpOut.base", "n": "CpOut.no", "x": "CpOut.raise"}
VAL_LEAN = {"absent": "ValOut.absent", "yes": "ValOut.yes", "no": "ValOut.no", "raise": "ValOut.raise"}


def probe(prop):
    from ..props._coord import Impl
    rows, problems = [], []
    for cps in itertools.product("bnx", repeat=4):
        for work in ("ok", "raise"):
            for val in ("absent", "yes", "no", "raise"):
                try:
                    impl = Impl(prop)
                    impl.step("cfg none none none priority")
                    impl.step("res 1 0")
                    res, info = impl.step(f"exec 1 3 1 {''.join(cps)} n:{work} {val}")
                    if res is None or "raised" in info or "success" not in info:
                        problems.append(f"{''.join(cps)} {work} {val}: {res!r}")
                        continue
                    phase = res.split()[1]
                    st = impl.snapshot()
                    clean = not st["active"] and all(l["owner"] == "-" for l in st["locks"].values())
                    if phase not in PHASE_LEAN:
                        problems.append(f"{''.join(cps)} {work} {val}: phase {phase}")
                        continue
                    rows.append(("".join(cps), work == "ok", val, bool(info["success"]), phase, list(info["log"]), clean))
                except Exception as e:  # noqa
                    problems.append(f"{''.join(cps)} {work} {val}: {type(e).__name__}: {e}")
    return rows, problems


KILL_VALS = ("absent", "yes", "no", "raise")


def kill_domain():
    """(position, how, work returns?, validate): position 0..3 = the i-th checkpoint condition, 4 = work_fn, 5 = validate_fn;
    how 0 = kill_operation(own id), 1 = shutdown()"""
    return [(pos, how, w, v) for pos in range(6) for how in (0, 1) for w in (True, False) for v in KILL_VALS
            if not (pos == 5 and v == "absent")]


def probe_kills(prop):
    """the real execute_operation with the operation ENDED from inside each of its six callbacks (all checkpoint
    conditions otherwise default): does the work function still run, holding what, what is reported, is anything left"""
    from ..props._coord import Impl
    rows, problems = [], []
    for pos, how, wok, val in kill_domain():
        act = "k1" if how == 0 else "s"
        work = "ok" if wok else "raise"
        if pos < 4:
            line = f"exec 1 3 1 bbbb@{pos}{act} n:{work} {val}"
        elif pos == 4:
            line = f"exec 1 3 1 bbbb {act}:{work} {val}"
        else:
            line = f"exec 1 3 1 bbbb n:{work} {val}@{act}"
        try:
            impl = Impl(prop)
            impl.step("cfg none none none priority")
            impl.step("res 1 0")
            res, info = impl.step(line)
            if res is None or "raised" in info or "success" not in info:
                problems.append(f"{line}: {res!r}")
                continue
            phase = res.split()[1]
            st = impl.snapshot()
            clean = not st["active"] and all(l["owner"] == "-" for l in st["locks"].values())
            own = info.get("own", [])
            if phase not in PHASE_LEAN or len(own) > 1 or any(o not in ("0", "1") for o in own):
                problems.append(f"{line}: phase {phase} own {own}")
                continue
            rows.append((pos, how, wok, val, bool(info["success"]), phase, list(info["log"]),
                         (own[0] == "1") if own else None, clean))
        except Exception as e:  # noqa
            problems.append(f"{line}: {type(e).__name__}: {e}")
    return rows, problems


def render_kills(rows, problems):
    def b(x):
        return "true" if x else "false"
    ok = not problems and len(rows) == len(kill_domain())
    try:
        for r in rows:
            for e in r[6]:
                ev(e)
    except Exception as e:  # noqa
        problems = list(problems) + [f"event {e!r}"]
        rows, ok = [], False
    out = ("\n/- the real execute_operation EVALUATED with the operation ended - kill_operation(own id) / shutdown() - from inside\n"
           "   each of its six callbacks (checkpoint conditions 0..3, work_fn = 4, validate_fn = 5), work returning / raising,\n"
           "   validate absent / True / False / raising.  Row = (position, how, work returns?, validate, success, phase\n"
           "   reported, callback events in order, the resource owned inside work_fn (none = work_fn did not run), nothing\n"
           "   active / owned afterwards). -/\n"
           f"def execKillProbeOk : Bool := {b(ok)}\n\n")
    for p in problems[:10]:
        out += "-- problem: " + p.replace("\n", " ")[:200] + "\n"
    out += "def execKillProbe : List (Nat × Nat × Bool × ValOut × Bool × Phase × List Ev × Option Bool × Bool) := [\n"
    lines = []
    for pos, how, wok, val, succ, phase, log, own, clean in rows:
        lg = "[" + ", ".join(ev(e) for e in log) + "]"
        o = "none" if own is None else f"some {b(own)}"
        lines.append(f"  ({pos}, {how}, {b(wok)}, {VAL_LEAN[val]}, {b(succ)}, {PHASE_LEAN[phase]}, {lg}, {o}, {b(clean)})")
    out += ",\n".join(lines) + "]\n"
    return out, ok


def ev(e):
    """'cp2:1' / 'work:0' / 'val:1' -> a term of Operon.Coord.Ev"""
    k, _, v = e.partition(":")
    flag = {"1": "true", "0": "false"}[v]
    if k.startswith("cp") and k[2:].isdigit():
        return f"Ev.cp {int(k[2:])} {flag}"
    return {"work": f"Ev.work {flag}", "val": f"Ev.validate {flag}"}[k]


def render(rows, problems):
    def b(x):
        return "true" if x else "false"
    ok = not problems and len(rows) == 648
    try:
        for r in rows:
            for e in r[5]:
                ev(e)
    except Exception as e:  # noqa
        problems = list(problems) + [f"event {e!r}"]
        rows, ok = [], False
    out = ("import Operon.Model.CoordExec\n"
           "/- GENERATED by harness/vf/extract/exec_probe.py on every run of the C14 check: the real\n"
           "   CoordinationSystem.execute_operation EVALUATED on every combination of callback outcomes (4 checkpoint\n"
           "   evaluations x work x validate) on a fresh system with one free resource; do not edit.\n"
           "   Row = (checkpoint outcomes, work returns?, validate, success, phase reported, callback events in order,\n"
           "   nothing active / owned afterwards). -/\n"
           "namespace Operon.Coord.Gen\n\n"
           f"def execProbeOk : Bool := {b(ok)}\n\n")
    for p in problems[:10]:
        out += "-- problem: " + p.replace("\n", " ")[:200] + "\n"
    out += "def execProbe : List (List CpOut × Bool × ValOut × Bool × Phase × List Ev × Bool) := [\n"
    lines = []
    for cps, wok, val, succ, phase, log, clean in rows:
        lg = "[" + ", ".join(ev(e) for e in log) + "]"
        lines.append(f"  ([{', '.join(CP_LEAN[c] for c in cps)}], {b(wok)}, {VAL_LEAN[val]}, {b(succ)}, {PHASE_LEAN[phase]}, {lg}, {b(clean)})")
    out += ",\n".join(lines) + "]\n"
    return out, ok


def run(prop, lean_dir: Path, write_if_changed) -> list[dict]:
    rows, problems = probe(prop)
    text, ok = render(rows, problems)
    krows, kproblems = probe_kills(prop)
    ktext, kok = render_kills(krows, kproblems)
    changed = write_if_changed(Path(lean_dir) / "Operon/Gen/CoordExecProbe.lean", text + ktext + "\nend Operon.Coord.Gen\n")
    return [{"id": "exec-probe", "facts_changed": bool(changed), "rows": len(rows) + len(krows), "ok": ok and kok,
             "problems": (problems + kproblems)[:5]}]
