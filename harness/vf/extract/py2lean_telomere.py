"""py2lean (telomere): translate the Python AST of the Telomere methods the C09 automaton models into Lean
definitions over the model's `State`, regenerated into lean/Operon/Gen/TelomereTranslated.lean on every run.

Every translated method is a function
    Tr.<name> (cfg : Cfg) (s : State) (evs : List Ev) <params> : State × List Ev × Ret
(state after, callbacks emitted so far, Python return value: `.unit` for None, `.bool b`).

Supported subset — nothing more:
  * assignments / `+=` / `-=` to `self.<modelled field>` and to locals;
  * `if/elif/else` with comparisons on ints, enum members, `is None`, `in (tuple of enum members)`, truthiness of
    bool parameters / optional timestamps / optional timedeltas, `and` / `or` / `not`;
  * `min`, `max`, integer `+ - *`, `a / b` only as the left side of a comparison with a class-level threshold
    (translated by exact cross-multiplication with Operon.Gen.TelomereConsts), `x or default` on an optional int;
  * `datetime.now()` -> `s.now`; timestamp difference -> microseconds (Nat, the model's monotone clock);
    timedelta comparison -> integer comparison; arithmetic on an Optional is accepted only under a dominating
    truthiness test of the same attribute;
  * early `return`; `with self._lock:` is transparent (the lock is the subject of E3, not of this translation);
  * console `print`, `self._log_event(...)` (payload must be call-free), `self._events.clear()`, writes to
    `_terminated_at` are dropped; an `if` whose branches consist only of dropped statements is dropped;
  * `self.<method>(args)` as a statement -> call of the translated method; `self.on_phase_change(a, b)` /
    `self.on_senescence(r)` -> appended to the emitted-events list, `if self.on_phase_change:` is taken as true
    (the events list IS what an installed callback sees).
Anything else: the method's definition becomes `untranslatable "<construct>"`, which makes its agreement theorem
`c09_translation_agrees_<method>` fail (fail closed).  Division by zero (`max_operations = 0` with positive length, not
reachable) and negative clock differences are not represented: the cross-multiplied / truncated forms are total.
"""
from __future__ import annotations

import ast
from pathlib import Path

CLASS = "Telomere"
REL = "operon_ai/state/telomere.py"
PUBLIC = ["start", "tick", "record_error", "heartbeat", "check_timeouts", "renew", "trigger_apoptosis", "terminate",
          "reset"]

# python attribute -> (lean field, type)
FIELDS = {
    "_phase": ("phase", "phase"), "_telomere_length": ("length", "int"), "_error_count": ("errors", "nat"),
    "_operations_count": ("ops", "nat"), "_renewal_count": ("renewals", "nat"),
    "_senescence_reason": ("reason", "oreason"), "_started_at": ("started", "otime"),
    "_last_activity": ("lastAct", "otime"),
}
DROPPED_FIELDS = {"_terminated_at", "_events"}
CFG = {"max_operations": ("cfg.maxOps", "nat"), "error_threshold": ("cfg.errThr", "nat"),
       "allow_renewal": ("cfg.allowRenew", "bool"), "max_lifetime": ("cfg.life", "odur"),
       "idle_timeout": ("cfg.idle", "odur")}
CONSTS = {"SENESCENCE_THRESHOLD": "senescence", "WARNING_THRESHOLD": "warning", "ERROR_SENESCENCE_RATE": "errorRate"}
PHASES = {"NASCENT": "Phase.nascent", "ACTIVE": "Phase.active", "SENESCENT": "Phase.senescent",
          "APOPTOTIC": "Phase.apoptotic", "TERMINATED": "Phase.terminated"}
REASONS = {"TELOMERE_DEPLETION": "Reason.depletion", "ERROR_ACCUMULATION": "Reason.errors", "TIMEOUT": "Reason.timeout",
           "IDLE_TIMEOUT": "Reason.idle"}
LEAN_T = {"nat": "Nat", "onat": "Option Nat", "bool": "Bool", "reason": "Reason", "phase": "Phase", "str": "Unit"}


class Unsupported(Exception):
    pass


def bad(node, what):
    raise Unsupported(f"{what} (line {getattr(node, 'lineno', '?')})")


def is_self(node, attr=None):
    return (isinstance(node, ast.Attribute) and isinstance(node.value, ast.Name) and node.value.id == "self"
            and (attr is None or node.attr == attr))


def lname(method):
    return method.lstrip("_")


def param_type(ann):
    if ann is None:
        return None
    src = ast.unparse(ann).replace(" ", "")
    return {"int": "nat", "int|None": "onat", "Optional[int]": "onat", "bool": "bool", "str": "str",
            "SenescenceReason": "reason", "LifecyclePhase": "phase"}.get(src)


class Translator:
    def __init__(self, src: str):
        self.tree = ast.parse(src)
        cls = [n for n in self.tree.body if isinstance(n, ast.ClassDef) and n.name == CLASS]
        if len(cls) != 1:
            raise Unsupported("class Telomere not found exactly once")
        self.fns = {n.name: n for n in cls[0].body if isinstance(n, ast.FunctionDef)}
        self.sigs: dict[str, list] = {}     # method -> [(pyname, type)]
        self.needed: list[str] = []         # translation order is fixed later (callees first)
        self.calls: dict[str, set] = {}
        self.cur = None

    # ---------------------------------------------------------------------------------------------- signatures
    def sig(self, m):
        if m in self.sigs:
            return self.sigs[m]
        fn = self.fns.get(m)
        if fn is None:
            raise Unsupported(f"method {m} not found")
        a = fn.args
        if a.vararg or a.kwarg or a.kwonlyargs or a.posonlyargs or fn.decorator_list:
            bad(fn, f"signature of {m}")
        ps = []
        for arg in a.args[1:]:
            t = param_type(arg.annotation)
            if t is None and m == "_enter_senescence":
                t = "reason"
            if t is None and m == "_transition_to":
                t = "phase"
            if t is None:
                bad(fn, f"parameter {arg.arg} of {m}: unsupported annotation")
            ps.append((arg.arg, t))
        self.sigs[m] = ps
        return ps

    # ---------------------------------------------------------------------------------------------- expressions
    def coerce_int(self, c, t):
        if t == "int":
            return c
        if t == "nat":
            return f"(({c} : Nat) : Int)"
        return None

    def num2(self, a, b, node):
        """two numeric operands brought to a common type"""
        (ca, ta), (cb, tb) = a, b
        if ta == tb and ta in ("nat", "int", "dur"):
            return ca, cb, ta
        if {ta, tb} <= {"nat", "int"}:
            return self.coerce_int(ca, ta), self.coerce_int(cb, tb), "int"
        bad(node, f"operands of types {ta}/{tb}")

    def ex(self, n, env):
        """value expression -> (lean code, type)"""
        if isinstance(n, ast.Constant):
            if n.value is None:
                return "none", "none"
            if isinstance(n.value, bool):
                return ("true" if n.value else "false"), "bool"
            if isinstance(n.value, int):
                return (str(n.value), "nat") if n.value >= 0 else (f"({n.value} : Int)", "int")
            bad(n, f"constant {n.value!r}")
        if isinstance(n, ast.Name):
            if n.id in env["locals"]:
                return env["locals"][n.id]
            bad(n, f"name {n.id}")
        if isinstance(n, ast.Attribute):
            if is_self(n):
                if n.attr in FIELDS:
                    f, t = FIELDS[n.attr]
                    if t in ("otime",) and n.attr in env["nonnull"]:
                        return f"(s.{f}.getD 0)", "time"
                    return f"s.{f}", t
                if n.attr in CFG:
                    c, t = CFG[n.attr]
                    if t == "odur" and n.attr in env["nonnull"]:
                        return f"({c}.getD 0)", "dur"
                    return c, t
                if n.attr in CONSTS:
                    k = CONSTS[n.attr]
                    return (f"Gen.TelomereConsts.{k}Num", f"Gen.TelomereConsts.{k}Den"), "cfrac"
                bad(n, f"attribute self.{n.attr}")
            if isinstance(n.value, ast.Name) and n.value.id == "LifecyclePhase" and n.attr in PHASES:
                return PHASES[n.attr], "phase"
            if isinstance(n.value, ast.Name) and n.value.id == "SenescenceReason" and n.attr in REASONS:
                return REASONS[n.attr], "reason"
            bad(n, f"attribute {ast.unparse(n)}")
        if isinstance(n, ast.BinOp):
            a, b = self.ex(n.left, env), self.ex(n.right, env)
            if isinstance(n.op, ast.Sub) and a[1] == "time" and b[1] == "time":
                return f"({a[0]} - {b[0]})", "dur"
            if isinstance(n.op, ast.Div):
                ca, cb = self.coerce_int(*a), self.coerce_int(*b)
                if ca is None or cb is None:
                    bad(n, "division of non-integers")
                return (ca, cb), "frac"
            if isinstance(n.op, (ast.Add, ast.Mult)):
                ca, cb, t = self.num2(a, b, n)
                if t == "dur":
                    bad(n, "arithmetic on durations")
                return f"({ca} {'+' if isinstance(n.op, ast.Add) else '*'} {cb})", t
            if isinstance(n.op, ast.Sub):
                ca, cb = self.coerce_int(*a), self.coerce_int(*b)
                if ca is None or cb is None:
                    bad(n, f"subtraction on {a[1]}/{b[1]}")
                return f"({ca} - {cb})", "int"
            bad(n, f"operator {type(n.op).__name__}")
        if isinstance(n, ast.Call):
            f = n.func
            if isinstance(f, ast.Name) and f.id in ("min", "max") and len(n.args) == 2 and not n.keywords:
                ca, cb, t = self.num2(self.ex(n.args[0], env), self.ex(n.args[1], env), n)
                return f"({f.id} {ca} {cb})", t
            if (isinstance(f, ast.Attribute) and f.attr == "now" and isinstance(f.value, ast.Name)
                    and f.value.id == "datetime" and not n.args and not n.keywords):
                return "s.now", "time"
            bad(n, f"call {ast.unparse(f)}(...) in an expression")
        if isinstance(n, ast.BoolOp) and isinstance(n.op, ast.Or) and len(n.values) == 2:
            a, b = self.ex(n.values[0], env), self.ex(n.values[1], env)
            if a[1] == "onat" and b[1] == "nat":
                return f"(pyOr {a[0]} {b[0]})", "nat"
            bad(n, f"`or` on {a[1]}/{b[1]} as a value")
        if isinstance(n, (ast.Compare, ast.BoolOp, ast.UnaryOp)):
            return f"(decide {self.prop(n, env)})", "bool"
        bad(n, f"expression {type(n).__name__}")

    def truthy(self, n, env):
        """truthiness of a non-boolean-operator expression, as a Lean Prop"""
        if is_self(n) and n.attr in ("on_phase_change", "on_senescence"):
            return "True"
        c, t = self.ex(n, env)
        if t == "bool":
            return f"({c} = true)"
        if t == "otime":
            return f"({c} ≠ none)"
        if t == "odur":
            return f"({c} ≠ none ∧ {c} ≠ some 0)"
        if t == "onat":
            return f"({c} ≠ none ∧ {c} ≠ some 0)"
        if t in ("nat", "dur"):
            return f"({c} ≠ 0)"
        if t == "int":
            return f"({c} ≠ 0)"
        bad(n, f"truthiness of a value of type {t}")

    def prop(self, n, env):
        if isinstance(n, ast.BoolOp):
            op = " ∧ " if isinstance(n.op, ast.And) else " ∨ "
            # `a and b`: operands to the right of a truthiness test of an optional see it as non-null
            parts, env2 = [], env
            for v in n.values:
                parts.append(self.prop(v, env2))
                if isinstance(n.op, ast.And):
                    env2 = self.with_nonnull(env2, [v])
            return "(" + op.join(parts) + ")"
        if isinstance(n, ast.UnaryOp) and isinstance(n.op, ast.Not):
            return f"(¬ {self.prop(n.operand, env)})"
        if isinstance(n, ast.Compare):
            if len(n.ops) != 1:
                bad(n, "chained comparison")
            op, l, r = n.ops[0], n.left, n.comparators[0]
            if isinstance(op, (ast.In, ast.NotIn)):
                if not isinstance(r, ast.Tuple) or not r.elts:
                    bad(n, "`in` on something that is not a tuple literal")
                cl, tl = self.ex(l, env)
                alts = []
                for e in r.elts:
                    ce, te = self.ex(e, env)
                    if te != tl or tl not in ("phase", "reason"):
                        bad(n, f"`in` over {tl}/{te}")
                    alts.append(f"{cl} = {ce}")
                p = "(" + " ∨ ".join(alts) + ")"
                return p if isinstance(op, ast.In) else f"(¬ {p})"
            a, b = self.ex(l, env), self.ex(r, env)
            if isinstance(op, (ast.Is, ast.IsNot)):
                if b[1] != "none" or a[1] not in ("otime", "odur", "onat", "oreason"):
                    bad(n, "`is` other than `<optional> is None`")
                return f"({a[0]} = none)" if isinstance(op, ast.Is) else f"({a[0]} ≠ none)"
            sym = {ast.Eq: "=", ast.NotEq: "≠", ast.Lt: "<", ast.LtE: "≤", ast.Gt: ">", ast.GtE: "≥"}.get(type(op))
            if sym is None:
                bad(n, f"comparison {type(op).__name__}")
            if a[1] in ("phase", "reason") and a[1] == b[1] and sym in ("=", "≠"):
                return f"({a[0]} {sym} {b[0]})"
            if a[1] == "frac" and b[1] == "cfrac" and sym in ("<", "≤", ">", "≥"):
                (num, den), (cn, cd) = a[0], b[0]
                # num/den  sym  cn/cd   <=>   num*cd  sym  cn*den      (den, cd > 0)
                return f"({num} * (({cd} : Nat) : Int) {sym} (({cn} : Nat) : Int) * {den})"
            if a[1] in ("nat", "int", "dur") and b[1] in ("nat", "int", "dur"):
                ca, cb, _ = self.num2(a, b, n)
                return f"({ca} {sym} {cb})"
            bad(n, f"comparison of {a[1]} with {b[1]}")
        return self.truthy(n, env)

    def with_nonnull(self, env, tests):
        """attributes whose truthiness is established by the given conjunct tests"""
        nn = set(env["nonnull"])
        for t in tests:
            if isinstance(t, ast.BoolOp) and isinstance(t.op, ast.And):
                nn |= self.with_nonnull(env, t.values)["nonnull"]
            elif is_self(t) and (t.attr in FIELDS and FIELDS[t.attr][1] == "otime" or t.attr in CFG and CFG[t.attr][1] == "odur"):
                nn.add(t.attr)
        return dict(env, nonnull=nn)

    # ---------------------------------------------------------------------------------------------- statements
    def droppable(self, st):
        if isinstance(st, ast.Pass):
            return True
        if isinstance(st, ast.Expr):
            v = st.value
            if isinstance(v, ast.Constant) and isinstance(v.value, str):
                return True
            if isinstance(v, ast.Call):
                f = v.func
                if isinstance(f, ast.Name) and f.id == "print":
                    return self.callfree(v.args + [k.value for k in v.keywords], allow_int=True)
                if is_self(f, "_log_event"):
                    return self.callfree(v.args + [k.value for k in v.keywords])
                if (isinstance(f, ast.Attribute) and f.attr == "clear" and is_self(f.value, "_events")
                        and not v.args):
                    return True
            return False
        if isinstance(st, ast.Assign) and len(st.targets) == 1 and is_self(st.targets[0]) \
                and st.targets[0].attr in DROPPED_FIELDS:
            return self.callfree([st.value], allow_now=True)
        if isinstance(st, ast.If):
            return self.pure_test(st.test) and all(self.droppable(x) for x in st.body + st.orelse)
        return False

    def callfree(self, nodes, allow_int=False, allow_now=False):
        for n in nodes:
            for c in ast.walk(n):
                if isinstance(c, ast.Call):
                    f = c.func
                    if allow_int and isinstance(f, ast.Name) and f.id in ("int", "str", "round"):
                        continue
                    if allow_now and isinstance(f, ast.Attribute) and f.attr == "now":
                        continue
                    return False
                if isinstance(c, (ast.NamedExpr, ast.Await, ast.Yield, ast.YieldFrom, ast.Lambda)):
                    return False
        return True

    def pure_test(self, n):
        return self.callfree([n])

    def assign_field(self, attr, val, node):
        f, ft = FIELDS[attr]
        c, t = val
        if ft == t and t in ("phase", "nat", "int", "oreason", "otime"):
            pass
        elif ft == "int" and t == "nat":
            c = self.coerce_int(c, t)
        elif ft == "otime" and t == "time":
            c = f"(some {c})"
        elif ft == "oreason" and t == "reason":
            c = f"(some {c})"
        elif ft in ("otime", "oreason") and t == "none":
            c = "none"
        else:
            bad(node, f"assignment of a {t} to self.{attr} ({ft})")
        return f"let s : State := {{ s with {f} := {c} }}"

    def body(self, stmts, env, ind):
        """Lean term for the statement list (continuation = the rest of the list)"""
        pad = "  " * ind
        if not stmts:
            return f"{pad}(s, evs, Ret.unit)"
        st, rest = stmts[0], stmts[1:]
        if self.droppable(st):
            return self.body(rest, env, ind)
        if isinstance(st, ast.With):
            if len(st.items) == 1 and is_self(st.items[0].context_expr, "_lock") and st.items[0].optional_vars is None:
                return self.body(st.body + rest, env, ind)
            bad(st, "`with` on something other than self._lock")
        if isinstance(st, ast.Return):
            if st.value is None or (isinstance(st.value, ast.Constant) and st.value.value is None):
                return f"{pad}(s, evs, Ret.unit)"
            c, t = self.ex(st.value, env)
            if t != "bool":
                bad(st, f"return of a {t}")
            return f"{pad}(s, evs, Ret.bool {c})"
        if isinstance(st, ast.If):
            test = st.test
            if is_self(test) and test.attr in ("on_phase_change", "on_senescence") and not st.orelse:
                return self.body(st.body + rest, env, ind)
            p = self.prop(test, env)
            env_t = self.with_nonnull(env, [test])
            a = self.body(st.body + rest, env_t, ind + 1)
            b = self.body(st.orelse + rest, env, ind + 1)
            return f"{pad}if {p} then\n{a}\n{pad}else\n{b}"
        if isinstance(st, (ast.Assign, ast.AugAssign)):
            if isinstance(st, ast.Assign):
                if len(st.targets) != 1:
                    bad(st, "multiple assignment targets")
                tgt, val = st.targets[0], self.ex(st.value, env)
            else:
                tgt = st.target
                cur = self.ex(ast.copy_location(ast.Attribute(value=tgt.value, attr=tgt.attr, ctx=ast.Load()), tgt)
                              if isinstance(tgt, ast.Attribute) else ast.Name(id=tgt.id, ctx=ast.Load()), env)
                rhs = self.ex(st.value, env)
                if isinstance(st.op, ast.Add):
                    ca, cb, t = self.num2(cur, rhs, st)
                    if t == "dur":
                        bad(st, "+= on a duration")
                    val = (f"({ca} + {cb})", t)
                elif isinstance(st.op, ast.Sub):
                    ca, cb = self.coerce_int(*cur), self.coerce_int(*rhs)
                    if ca is None or cb is None:
                        bad(st, "-= on non-integers")
                    val = (f"({ca} - {cb})", "int")
                else:
                    bad(st, f"augmented assignment {type(st.op).__name__}")
            if is_self(tgt):
                if tgt.attr not in FIELDS:
                    bad(st, f"assignment to self.{tgt.attr}")
                line = self.assign_field(tgt.attr, val, st)
                env2 = dict(env, nonnull=set(env["nonnull"]) - {tgt.attr})
                # locals that aliased the old value stay as they were (they are let-bound values)
                return f"{pad}{line}\n{self.body(rest, env2, ind)}"
            if isinstance(tgt, ast.Name):
                c, t = val
                if t in ("frac", "cfrac", "none"):
                    if t == "none":
                        bad(st, "local bound to None")
                    loc = dict(env["locals"]); loc[tgt.id] = (c, t)
                    return self.body(rest, dict(env, locals=loc), ind)
                v = f"v_{tgt.id}"
                loc = dict(env["locals"]); loc[tgt.id] = (v, t)
                return f"{pad}let {v} := {c}\n{self.body(rest, dict(env, locals=loc), ind)}"
            bad(st, "assignment target")
        if isinstance(st, ast.Expr) and isinstance(st.value, ast.Call):
            call = st.value
            f = call.func
            if call.keywords:
                bad(st, "keyword arguments in a call")
            if is_self(f, "on_phase_change") and len(call.args) == 2:
                a, b = self.ex(call.args[0], env), self.ex(call.args[1], env)
                if a[1] != "phase" or b[1] != "phase":
                    bad(st, "on_phase_change arguments")
                return f"{pad}let evs := evs ++ [Ev.change {a[0]} {b[0]}]\n{self.body(rest, env, ind)}"
            if is_self(f, "on_senescence") and len(call.args) == 1:
                a = self.ex(call.args[0], env)
                if a[1] != "reason":
                    bad(st, "on_senescence argument")
                return f"{pad}let evs := evs ++ [Ev.senescence {a[0]}]\n{self.body(rest, env, ind)}"
            if is_self(f) and f.attr in self.fns:
                ps = self.sig(f.attr)
                if len(call.args) != len(ps):
                    bad(st, f"call of {f.attr} with {len(call.args)} arguments (defaults are not supported)")
                args = []
                for a, (_, pt) in zip(call.args, ps):
                    c, t = self.ex(a, env)
                    if t != pt:
                        bad(st, f"argument of type {t} for a {pt} parameter of {f.attr}")
                    args.append(c if " " not in c else f"({c})")
                self.calls.setdefault(self.cur, set()).add(f.attr)
                if f.attr not in self.needed:
                    self.needed.append(f.attr)
                app = " ".join([f"Tr.{lname(f.attr)}", "cfg", "s", "evs"] + args)
                # a call may change any field: nothing stays known non-null
                env2 = dict(env, nonnull=set())
                return (f"{pad}let r := {app}\n{pad}let s : State := r.1\n{pad}let evs : List Ev := r.2.1\n"
                        f"{self.body(rest, env2, ind)}")
            bad(st, f"call {ast.unparse(f)}(...)")
        bad(st, f"statement {type(st).__name__}")

    # ---------------------------------------------------------------------------------------------- methods
    def check_log_event(self):
        fn = self.fns.get("_log_event")
        if fn is None:
            raise Unsupported("_log_event not found")
        for n in ast.walk(fn):
            if is_self(n) and isinstance(n.ctx, (ast.Store, ast.Del)) and n.attr not in DROPPED_FIELDS:
                bad(n, f"_log_event writes self.{n.attr}")
            if isinstance(n, ast.Call) and is_self(n.func):
                bad(n, f"_log_event calls self.{n.func.attr}")

    def method(self, m):
        self.cur = m
        ps = self.sig(m)
        locs = {}
        for name, t in ps:
            locs[name] = ("()" if t == "str" else f"p_{name}", t)
        env = {"locals": locs, "nonnull": set()}
        return self.body(self.fns[m].body, env, 2)


def render(src: str) -> tuple[str, dict]:
    info = {"unsupported": {}, "methods": []}
    head = ("import Operon.Model.Telomere\n"
            "/- GENERATED by harness/vf/extract/py2lean_telomere.py from operon_ai/state/telomere.py on every run; do not edit.\n"
            "   Each definition is the translation of the Python method of the same name (see the translator for the\n"
            "   supported subset).  `untranslatable \"...\"` marks a method that left the subset: its agreement theorem\n"
            "   c09_translation_agrees_<method> then fails. -/\n"
            "namespace Operon.Telomere\n"
            "set_option linter.unusedVariables false\n\n")
    try:
        tr = Translator(src)
        tr.check_log_event()
        glob_err = None
    except (Unsupported, SyntaxError) as e:
        tr, glob_err = None, str(e)
    bodies, sigs = {}, {}
    if tr is not None:
        tr.needed = list(PUBLIC)
        i = 0
        while i < len(tr.needed):
            m = tr.needed[i]
            i += 1
            try:
                sigs[m] = tr.sig(m)
                bodies[m] = tr.method(m)
            except Unsupported as e:
                info["unsupported"][m] = str(e)
                bodies[m] = None
                sigs.setdefault(m, None)
            except RecursionError:
                info["unsupported"][m] = "recursion"
                bodies[m] = None
        # callees first; recursion among translated methods -> untranslatable
        order, state = [], {}

        def visit(m):
            if state.get(m) == 2:
                return
            if state.get(m) == 1:
                info["unsupported"][m] = "recursion among methods"
                bodies[m] = None
                return
            state[m] = 1
            for c in sorted(tr.calls.get(m, ())):
                visit(c)
            state[m] = 2
            order.append(m)
        for m in tr.needed:
            visit(m)
    else:
        order = list(PUBLIC)
        for m in PUBLIC:
            info["unsupported"][m] = glob_err
            bodies[m] = None
            sigs[m] = None
    # fixed signatures of the public methods (what the agreement theorems expect), whatever the source says
    FIXED = {"tick": [("cost", "nat")], "renew": [("amount", "onat"), ("reset_errors", "bool")],
             "trigger_apoptosis": [("reason", "str")]}
    out = head
    # a method that calls an untranslatable one is untranslatable as well
    changed = True
    while changed and tr is not None:
        changed = False
        for m in order:
            if bodies.get(m) is not None and any(bodies.get(c) is None for c in tr.calls.get(m, ())):
                bodies[m] = None
                info["unsupported"][m] = "calls an untranslatable method"
                changed = True
    for m in order:
        ps = sigs.get(m)
        if m in PUBLIC:
            want = FIXED.get(m, [])
            if ps is None or [t for _, t in ps] != [t for _, t in want]:
                if bodies.get(m) is not None:
                    info["unsupported"][m] = f"signature {ps} differs from the modelled one"
                    bodies[m] = None
                ps = want
        if ps is None:
            continue          # an untranslatable private helper: its callers are already marked
        params = "".join(f" (p_{n} : {LEAN_T[t]})" for n, t in ps)
        out += f"/-- translation of `Telomere.{m}` -/\n"
        out += f"def Tr.{lname(m)} (cfg : Cfg) (s : State) (evs : List Ev){params} : State × List Ev × Ret :=\n"
        if bodies.get(m) is None:
            why = info["unsupported"].get(m, "unsupported").replace('"', "'").replace("\\", "/")
            out += f'    untranslatable "{why}"\n\n'
        else:
            out += bodies[m] + "\n\n"
        info["methods"].append(m)
    out += "end Operon.Telomere\n"
    return out, info


def run(repo: Path, lean_dir: Path, write_if_changed) -> list[dict]:
    try:
        src = (Path(repo) / REL).read_text()
    except OSError:
        src = ""
    text, info = render(src)
    changed = write_if_changed(Path(lean_dir) / "Operon/Gen/TelomereTranslated.lean", text)
    return [{"id": "py2lean-telomere", "facts_changed": bool(changed), "methods": info["methods"],
             "unsupported": info["unsupported"]}]


if __name__ == "__main__":
    import sys
    root = Path(sys.argv[1] if len(sys.argv) > 1 else "/repo")
    t, i = render((root / REL).read_text())
    print(t)
    print(i, file=sys.stderr)
