"""py2lean (telomere): translate the Python AST of the Telomere methods the C09 automaton models into Lean
definitions over the model's `State`, regenerated into lean/Operon/Gen/TelomereTranslated.lean on every run.

Every translated method is a function
    Tr.<name> (cfg : Cfg) (s : State) (evs : List Ev) <params> : State × List Ev × T
(state after, callbacks emitted so far, Python return value).  For the nine public methods T = `Ret` (`.unit` for
None, `.bool b`); for helpers T is inferred from their `return`s (Unit, Bool, Nat, Int, Phase, Reason, Option Reason,
Option Nat).  All definitions carry `@[simp]`, so the agreement proofs do not depend on which helpers exist or what they
are called: helper calls are resolved through the call graph, wherever the helper is defined and whatever its name.

What is understood (nothing more):
  * assignments / annotated assignments / `+=` / `-=` to `self.<modelled field>` and to locals (a local may be
    re-assigned, also inside a branch: flag-variable style and direct-return style translate to the same decisions);
  * `if/elif/else` with comparisons on ints, enum members, `is None` / `is not None`, `in` / `not in` over a tuple
    literal or over a module/class constant whose VALUE (read from the evaluated module) is a set/frozenset/tuple/
    list of enum members; truthiness of bools, optional timestamps / timedeltas / ints; `and` / `or` / `not`;
    a test that is decided at translation time (`x is None` on a local known to be None) selects its branch;
  * `min`, `max`, integer `+ - *`; `a / b` only compared with a class-level threshold (exact cross-multiplication with
    Operon.Gen.TelomereConsts); `x or default` on an optional int; module/class integer constants by value;
  * `datetime.now()` -> `s.now`; timestamp difference -> microseconds; timedelta comparison -> integer comparison;
    arithmetic on an Optional only under a dominating truthiness / `is not None` test (guard-clause form included);
  * early `return`; `with self._lock:` transparent (the lock is E3's subject);
  * calls of own methods: as a statement; as the whole value of an assignment / `return` / `if` test (also under `not`);
    anywhere inside an expression when the callee is pure (touches neither state nor callbacks); missing trailing
    arguments are filled from constant defaults; a public method may have extra trailing parameters with constant
    defaults (the modelled call path uses the defaults);
  * no-ops: docstrings, annotations, `pass`, console `print`, calls on a `logging.Logger` / the `logging` module (resolved
    by value), writes to `_terminated_at`, and an `if` all of whose branches are no-ops;
  * the event log: `self._log_event(...)` (payload call-free and total) -> one entry, `events := logged 1 events`;
    `self._events.clear()` / `self._events = []` -> `events := 0`; what `_log_event` itself does (append one entry, keep the
    last `logCap`) is MEASURED on the real method by the E5 probe, and `_log_event` is checked to write no modelled field
    and to call no own method;
  * `self.on_phase_change(a, b)` / `self.on_senescence(r)` -> appended to the emitted-events list; `if self.on_...:`
    counts as true (the events list IS what an installed callback sees).
Anything else: the method (and every method calling it) becomes `untranslatable "<construct (line)>"`, so exactly its
agreement theorem `c09_translation_agrees_<method>` fails (fail closed).  The generated file is elaborated before it
is written; if it does not build, all nine public methods are emitted as `untranslatable` instead, so the file always
builds and only the agreement theorems are affected.
"""
from __future__ import annotations

import ast
import copy
import importlib.util
import logging
import os
import subprocess
import sys
import tempfile
from pathlib import Path

CLASS = "Telomere"
REL = "operon_ai/state/telomere.py"
PUBLIC = ["start", "tick", "record_error", "heartbeat", "check_timeouts", "renew", "trigger_apoptosis", "terminate",
          "reset"]
FIXED = {"tick": ["nat"], "renew": ["onat", "bool"], "trigger_apoptosis": ["str"]}
# read-only accessors translated as pure helpers (`Tr.is_active cfg s evs : State × List Ev × Bool`); when one leaves the subset
# it is simply not emitted and its agreement theorem does not elaborate (fail closed)
ACCESSORS = ["is_active", "is_operational", "get_age"]
ACCESSOR_T = {"is_active": "bool", "is_operational": "bool", "get_age": "odur"}

FIELDS = {
    "_phase": ("phase", "phase"), "_telomere_length": ("length", "int"), "_error_count": ("errors", "nat"),
    "_operations_count": ("ops", "nat"), "_renewal_count": ("renewals", "nat"),
    "_senescence_reason": ("reason", "oreason"), "_started_at": ("started", "otime"),
    "_last_activity": ("lastAct", "otime"),
}
DROPPED_FIELDS = {"_terminated_at"}
CFG = {"max_operations": ("cfg.maxOps", "nat"), "error_threshold": ("cfg.errThr", "nat"),
       "allow_renewal": ("cfg.allowRenew", "bool"), "max_lifetime": ("cfg.life", "odur"),
       "idle_timeout": ("cfg.idle", "odur")}
CONSTS = {"SENESCENCE_THRESHOLD": "senescence", "WARNING_THRESHOLD": "warning", "ERROR_SENESCENCE_RATE": "errorRate"}
PHASES = {"NASCENT": "Phase.nascent", "ACTIVE": "Phase.active", "SENESCENT": "Phase.senescent",
          "APOPTOTIC": "Phase.apoptotic", "TERMINATED": "Phase.terminated"}
REASONS = {"TELOMERE_DEPLETION": "Reason.depletion", "ERROR_ACCUMULATION": "Reason.errors", "TIMEOUT": "Reason.timeout",
           "IDLE_TIMEOUT": "Reason.idle"}
LEAN_T = {"nat": "Nat", "int": "Int", "onat": "Option Nat", "bool": "Bool", "reason": "Reason", "phase": "Phase",
          "str": "Unit", "time": "Nat", "dur": "Nat", "otime": "Option Nat", "odur": "Option Nat",
          "oreason": "Option Reason", "unit": "Unit", "ret": "Ret"}
OPT_OF = {"reason": "oreason", "time": "otime", "nat": "onat", "dur": "odur"}
BASE_OF = {v: k for k, v in OPT_OF.items()}
DEFAULT_OF = {"oreason": "Reason.depletion", "otime": "0", "onat": "0", "odur": "0"}


class Unsupported(Exception):
    pass


def bad(node, what):
    raise Unsupported(f"{what} (line {getattr(node, 'lineno', '?')})")


def is_self(node, attr=None):
    return (isinstance(node, ast.Attribute) and isinstance(node.value, ast.Name) and node.value.id == "self"
            and (attr is None or node.attr == attr))


def lname(method):
    return method.strip("_") or "m"


def param_type(ann):
    if ann is None:
        return None
    src = ast.unparse(ann).replace(" ", "")
    return {"int": "nat", "int|None": "onat", "Optional[int]": "onat", "bool": "bool", "str": "str",
            "SenescenceReason": "reason", "LifecyclePhase": "phase", "datetime": "time",
            "SenescenceReason|None": "oreason", "Optional[SenescenceReason]": "oreason"}.get(src)


def load_module(path: Path):
    """Evaluate the module under translation (stdlib imports only) to resolve constants by VALUE; None on failure."""
    try:
        name = f"_py2lean_telomere_{abs(hash(str(path)))}"
        spec = importlib.util.spec_from_file_location(name, str(path))
        mod = importlib.util.module_from_spec(spec)
        sys.modules[name] = mod          # dataclasses look the module up while the class body runs
        try:
            spec.loader.exec_module(mod)
        finally:
            sys.modules.pop(name, None)
        return mod
    except BaseException:   # noqa
        return None


class Translator:
    def __init__(self, src: str, mod=None):
        from .e3_telomere import normalise_lock_idiom
        self.tree = normalise_lock_idiom(ast.parse(src))      # acquire(); try: … finally: release()  ==  with self._lock: …
        self.mod = mod
        cls = [n for n in self.tree.body if isinstance(n, ast.ClassDef) and n.name == CLASS]
        if len(cls) != 1:
            raise Unsupported("class Telomere not found exactly once")
        self.cls = cls[0]
        self.fns = {n.name: n for n in self.cls.body if isinstance(n, ast.FunctionDef)}
        self.done: dict[str, dict] = {}      # method -> {params, rtype, code, pure, calls} | {"error": ...}
        self.stack: list[dict] = []
        self.tmp = 0
        # names that may be resolved by value: bound exactly once at module level / class level, never rebound
        self.mod_once = self._bound_once(self.tree.body)
        self.cls_once = self._bound_once(self.cls.body)
        self.rebound = set()
        for n in ast.walk(self.tree):
            if isinstance(n, (ast.Global, ast.Nonlocal)):
                self.rebound |= set(n.names)
            if isinstance(n, ast.Attribute) and isinstance(n.ctx, (ast.Store, ast.Del)):
                self.rebound.add(n.attr)
        for fn in ast.walk(self.cls):
            if isinstance(fn, (ast.FunctionDef, ast.Lambda)):
                for n in ast.walk(fn):
                    if isinstance(n, ast.Name) and isinstance(n.ctx, (ast.Store, ast.Del)):
                        pass        # locals shadowing a module constant are looked up in env first

    @staticmethod
    def _bound_once(body):
        cnt = {}
        for st in body:
            tg = []
            if isinstance(st, ast.Assign):
                tg = st.targets
            elif isinstance(st, (ast.AnnAssign, ast.AugAssign)):
                tg = [st.target]
            for t in tg:
                for n in ast.walk(t):
                    if isinstance(n, ast.Name):
                        cnt[n.id] = cnt.get(n.id, 0) + 1
        return {k for k, v in cnt.items() if v == 1}

    # ---------------------------------------------------------------------------------------------- constants by value
    def const_value(self, kind, name, node):
        """('phaseset', [lean ctor...]) | (code, 'nat') for a module-level / class-level constant, else Unsupported"""
        if self.mod is None:
            bad(node, f"constant {name}: the module could not be evaluated")
        if name in self.rebound:
            bad(node, f"constant {name} is rebound somewhere")
        if kind == "module":
            if name not in self.mod_once or not hasattr(self.mod, name):
                bad(node, f"name {name}")
            v = getattr(self.mod, name)
        else:
            c = getattr(self.mod, CLASS, None)
            if name not in self.cls_once or c is None or name not in vars(c):
                bad(node, f"attribute self.{name}")
            v = vars(c)[name]
        if isinstance(v, bool):
            return ("true" if v else "false"), "bool"
        if isinstance(v, int):
            return (str(v), "nat") if v >= 0 else (f"({v} : Int)", "int")
        if isinstance(v, (frozenset, set, tuple, list)):
            out = []
            for e in v:
                cn = type(e).__name__
                if cn == "LifecyclePhase" and getattr(e, "name", None) in PHASES:
                    out.append(("phase", PHASES[e.name]))
                elif cn == "SenescenceReason" and getattr(e, "name", None) in REASONS:
                    out.append(("reason", REASONS[e.name]))
                else:
                    bad(node, f"constant {name} contains {e!r}")
            kinds = {k for k, _ in out}
            if len(kinds) > 1:
                bad(node, f"constant {name} mixes enum types")
            return sorted(c for _, c in out), ("set:" + (kinds.pop() if kinds else "phase"))
        bad(node, f"constant {name} of type {type(v).__name__}")

    def is_logger(self, node):
        """expression rooted at a module-level name whose VALUE is a logging.Logger or the logging module"""
        while isinstance(node, ast.Attribute):
            node = node.value
        if not isinstance(node, ast.Name) or self.mod is None or node.id in self.rebound:
            return False
        v = getattr(self.mod, node.id, None)
        return isinstance(v, (logging.Logger, logging.LoggerAdapter)) or v is logging

    # ---------------------------------------------------------------------------------------------- methods
    def info(self, m, node=None):
        """translate method m on demand (memoised)"""
        if m in self.done:
            d = self.done[m]
            if "error" in d:
                raise Unsupported(f"calls an untranslatable method ({m})")
            return d
        if any(c["method"] == m for c in self.stack):
            raise Unsupported(f"recursion through {m}")
        fn = self.fns.get(m)
        if fn is None:
            raise Unsupported(f"method {m} not found")
        try:
            params, extra = self.signature(m, fn)
            ctx = {"method": m, "rtype": None, "collect": set(), "pure": True, "calls": set()}
            self.stack.append(ctx)
            try:
                if m in PUBLIC:
                    ctx["rtype"] = "ret"
                else:
                    self.body(fn.body, self.env0(params, extra), 2)
                    ctx["rtype"] = self.unify(ctx["collect"], fn)
                    ctx["pure"] = True
                code = self.body(fn.body, self.env0(params, extra), 2)
            finally:
                self.stack.pop()
            d = {"params": params, "rtype": ctx["rtype"], "code": code, "pure": ctx["pure"], "calls": ctx["calls"],
                 "defaults": self.defaults(fn, len(params))}
        except Unsupported as e:
            self.done[m] = {"error": str(e), "own": True}
            raise
        except RecursionError:
            raise
        except Exception as e:   # noqa - FAIL CLOSED: a statement/expression shape the translator does not know (it indexed
            # into a node that is not what it assumed) makes THIS method untranslatable; it never crashes the run
            why = f"translator does not know this shape ({type(e).__name__}: {str(e)[:120]})"
            self.done[m] = {"error": why, "own": True}
            raise Unsupported(why)
        self.done[m] = d
        return d

    def signature(self, m, fn):
        a = fn.args
        if a.vararg or a.kwarg or a.kwonlyargs or a.posonlyargs or fn.decorator_list:
            bad(fn, f"signature of {m}")
        ps = []
        for arg in a.args[1:]:
            ps.append((arg.arg, param_type(arg.annotation), arg))
        extra = []
        if m in PUBLIC:
            want = FIXED.get(m, [])
            head, tail = ps[:len(want)], ps[len(want):]
            if [t for _, t, _ in head] != want:
                bad(fn, f"parameters of {m} differ from the modelled ones")
            # extra trailing parameters: the modelled call path passes nothing, so they take their constant defaults
            nd = len(a.defaults)
            for i, (name, _, arg) in enumerate(tail):
                k = len(a.args) - 1 - (len(want) + i)         # distance from the end
                if k >= nd:
                    bad(fn, f"extra parameter {name} of {m} has no default")
                dv = a.defaults[nd - 1 - k]
                if not isinstance(dv, ast.Constant):
                    bad(fn, f"default of extra parameter {name} is not a constant")
                extra.append((name, dv))
            ps = head
        for name, t, arg in ps:
            if t is None:
                bad(fn, f"parameter {name} of {m}: unsupported annotation")
        return [(n, t) for n, t, _ in ps], extra

    def defaults(self, fn, nparams):
        """constant defaults per parameter position (None where there is none)"""
        a = fn.args
        out = [None] * nparams
        nd = len(a.defaults)
        allp = a.args[1:]
        for i in range(min(nparams, len(allp))):
            k = len(allp) - 1 - i
            if k < nd and isinstance(a.defaults[nd - 1 - k], ast.Constant):
                out[i] = a.defaults[nd - 1 - k]
        return out

    def env0(self, params, extra):
        locs = {}
        for name, t in params:
            locs[name] = ("()" if t == "str" else f"p_{name}", t)
        env = {"locals": locs, "nonnull": set(), "strict": True}
        for name, dv in extra:
            locs[name] = self.ex(dv, env)
        return env

    def unify(self, types, node):
        ts = set(types)
        if not ts or ts == {"none"}:
            return "unit"
        if len(ts) == 1:
            t = next(iter(ts))
            if t in LEAN_T and t not in ("str", "ret"):
                return t
        if ts <= {"nat", "int"}:
            return "int"
        base = ts - {"none"}
        if len(base) == 1:
            b = next(iter(base))
            if b in OPT_OF:
                return OPT_OF[b]
            if b in BASE_OF:
                return b
        if len(base) == 2:
            for b, o in OPT_OF.items():
                if base == {b, o}:
                    return o
        bad(node, f"return values of types {sorted(ts)}")

    def coerce(self, val, target, node, what="value"):
        c, t = val
        if t == target:
            return c
        if target == "int" and t == "nat":
            return f"(({c} : Nat) : Int)"
        if target in BASE_OF and t == BASE_OF[target]:
            return f"(some {c})"
        if target in BASE_OF and t == "none":
            return "none"
        if target == "time" and t == "dur" or target == "dur" and t == "time":
            bad(node, f"{what}: time/duration confusion")
        bad(node, f"{what} of type {t} where {target} is expected")

    # ---------------------------------------------------------------------------------------------- expressions
    def coerce_int(self, c, t):
        if t == "int":
            return c
        if t == "nat":
            return f"(({c} : Nat) : Int)"
        return None

    def num2(self, a, b, node):
        (ca, ta), (cb, tb) = a, b
        if ta == tb and ta in ("nat", "int", "dur"):
            return ca, cb, ta
        if {ta, tb} <= {"nat", "int"}:
            return self.coerce_int(ca, ta), self.coerce_int(cb, tb), "int"
        bad(node, f"operands of types {ta}/{tb}")

    def call_args(self, m, call, env):
        d = self.info(m, call)
        ps = d["params"]
        if call.keywords:
            names = [n for n, _ in ps]
            extra = {}
            for k in call.keywords:
                if k.arg is None or k.arg not in names or names.index(k.arg) < len(call.args):
                    bad(call, f"keyword argument in a call of {m}")
                extra[names.index(k.arg)] = k.value
        else:
            extra = {}
        if len(call.args) > len(ps):
            bad(call, f"call of {m} with too many arguments")
        args = []
        for i, (pn, pt) in enumerate(ps):
            if i < len(call.args):
                node = call.args[i]
            elif i in extra:
                node = extra[i]
            elif d["defaults"][i] is not None:
                node = d["defaults"][i]
            else:
                bad(call, f"call of {m}: no argument for {pn}")
            if pt == "str":
                if not self.callfree([node]):
                    bad(call, "string argument with a call inside")
                args.append("()")
                continue
            c = self.coerce(self.ex(node, dict(env, strict=False)), pt, call, f"argument {pn} of {m}")
            args.append(c if c.startswith("(") or " " not in c else f"({c})")
        return d, " ".join([f"Tr.{lname(m)}", "cfg", "s", "evs"] + args)

    def ex(self, n, env):
        """value expression -> (lean code, type)"""
        if isinstance(n, ast.Constant):
            if n.value is None:
                return "none", "none"
            if isinstance(n.value, bool):
                return ("true" if n.value else "false"), "bool"
            if isinstance(n.value, int):
                return (str(n.value), "nat") if n.value >= 0 else (f"({n.value} : Int)", "int")
            bad(n, f"constant {n.value!r}")
        if isinstance(n, ast.Name):
            if n.id in env["locals"]:
                c, t = env["locals"][n.id]
                if t in DEFAULT_OF and ("local:" + n.id) in env["nonnull"]:
                    return f"({c}.getD {DEFAULT_OF[t]})", BASE_OF[t]
                return c, t
            return self.const_value("module", n.id, n)
        if isinstance(n, ast.Attribute):
            if is_self(n):
                if n.attr in FIELDS:
                    f, t = FIELDS[n.attr]
                    if t in DEFAULT_OF and n.attr in env["nonnull"]:
                        return f"(s.{f}.getD {DEFAULT_OF[t]})", BASE_OF[t]
                    return f"s.{f}", t
                if n.attr in CFG:
                    c, t = CFG[n.attr]
                    if t in DEFAULT_OF and n.attr in env["nonnull"]:
                        return f"({c}.getD {DEFAULT_OF[t]})", BASE_OF[t]
                    return c, t
                if n.attr in CONSTS:
                    k = CONSTS[n.attr]
                    return (f"Gen.TelomereConsts.{k}Num", f"Gen.TelomereConsts.{k}Den"), "cfrac"
                return self.const_value("class", n.attr, n)
            if isinstance(n.value, ast.Name) and n.value.id == CLASS and n.attr not in CONSTS:
                return self.const_value("class", n.attr, n)
            if isinstance(n.value, ast.Name) and n.value.id == "LifecyclePhase" and n.attr in PHASES:
                return PHASES[n.attr], "phase"
            if isinstance(n.value, ast.Name) and n.value.id == "SenescenceReason" and n.attr in REASONS:
                return REASONS[n.attr], "reason"
            bad(n, f"attribute {ast.unparse(n)}")
        if isinstance(n, ast.BinOp):
            a, b = self.ex(n.left, env), self.ex(n.right, env)
            if isinstance(n.op, ast.Sub) and a[1] == "time" and b[1] == "time":
                return f"({a[0]} - {b[0]})", "dur"
            if isinstance(n.op, ast.Div):
                ca, cb = self.coerce_int(*a), self.coerce_int(*b)
                if ca is None or cb is None:
                    bad(n, "division of non-integers")
                return (ca, cb), "frac"
            if isinstance(n.op, (ast.Add, ast.Mult)):
                ca, cb, t = self.num2(a, b, n)
                if t == "dur":
                    bad(n, "arithmetic on durations")
                return f"({ca} {'+' if isinstance(n.op, ast.Add) else '*'} {cb})", t
            if isinstance(n.op, ast.Sub):
                ca, cb = self.coerce_int(*a), self.coerce_int(*b)
                if ca is None or cb is None:
                    bad(n, f"subtraction on {a[1]}/{b[1]}")
                return f"({ca} - {cb})", "int"
            bad(n, f"operator {type(n.op).__name__}")
        if isinstance(n, ast.Call):
            f = n.func
            if isinstance(f, ast.Name) and f.id in ("min", "max") and len(n.args) == 2 and not n.keywords:
                ca, cb, t = self.num2(self.ex(n.args[0], env), self.ex(n.args[1], env), n)
                return f"({f.id} {ca} {cb})", t
            if (isinstance(f, ast.Attribute) and f.attr == "now" and isinstance(f.value, ast.Name)
                    and f.value.id == "datetime" and not n.args and not n.keywords):
                return "s.now", "time"
            if is_self(f) and f.attr in self.fns:
                d, app = self.call_args(f.attr, n, env)
                if not d["pure"]:
                    bad(n, f"call of self.{f.attr}, which changes state or emits callbacks, inside an expression")
                if d["rtype"] in ("ret", "unit"):
                    bad(n, f"value of self.{f.attr}() used ({d['rtype']})")
                self.stack[-1]["calls"].add(f.attr)
                return f"({app}).2.2", d["rtype"]
            bad(n, f"call {ast.unparse(f)}(...) in an expression")
        if isinstance(n, ast.BoolOp) and isinstance(n.op, ast.Or) and len(n.values) == 2:
            try:
                a, b = self.ex(n.values[0], env), self.ex(n.values[1], dict(env, strict=False))
            except Unsupported:
                a = b = (None, None)
            if a[1] == "onat" and b[1] == "nat":
                return f"(pyOr {a[0]} {b[0]})", "nat"
        if isinstance(n, ast.IfExp):
            # conditional expression `a if test else b`: both arms of one type (nat/int mixed -> int, `None` arm -> Optional)
            p = self.prop(n.test, env)
            if p == "True":
                return self.ex(n.body, self.refine(env, n.test, True))
            if p == "False":
                return self.ex(n.orelse, self.refine(env, n.test, False))
            a = self.ex(n.body, self.refine(env, n.test, True))
            b = self.ex(n.orelse, self.refine(env, n.test, False))
            t = self.unify({a[1], b[1]}, n) if a[1] != b[1] else a[1]
            if t not in LEAN_T or t in ("str", "ret", "unit"):
                bad(n, f"conditional expression of type {t}")
            return f"(if {p} then {self.coerce(a, t, n)} else {self.coerce(b, t, n)})", t
        if isinstance(n, (ast.Compare, ast.BoolOp, ast.UnaryOp)):
            p = self.prop(n, env)
            return ("true" if p == "True" else "false" if p == "False" else f"(decide {p})"), "bool"
        bad(n, f"expression {type(n).__name__}")

    def truthy(self, n, env):
        if is_self(n) and n.attr in ("on_phase_change", "on_senescence"):
            return "True"
        c, t = self.ex(n, env)
        if t == "bool":
            return "True" if c == "true" else "False" if c == "false" else f"({c} = true)"
        if t in ("otime", "oreason"):
            return f"({c} ≠ none)"
        if t in ("odur", "onat"):
            return f"({c} ≠ none ∧ {c} ≠ some 0)"
        if t in ("nat", "dur", "int"):
            return f"({c} ≠ 0)"
        if t in ("time", "reason", "phase"):
            return "True"
        if t == "none":
            return "False"
        bad(n, f"truthiness of a value of type {t}")

    def prop(self, n, env):
        if isinstance(n, ast.BoolOp):
            isand = isinstance(n.op, ast.And)
            parts, env2 = [], env
            for i, v in enumerate(n.values):
                parts.append(self.prop(v, env2 if i == 0 else dict(env2, strict=False)))
                env2 = self.refine(env2, v, isand)      # `a and b`: b sees a true; `a or b`: b sees a false
            absorbing, neutral = ("False", "True") if isand else ("True", "False")
            if absorbing in parts:
                return absorbing
            parts = [p for p in parts if p != neutral]
            if not parts:
                return neutral
            return parts[0] if len(parts) == 1 else "(" + (" ∧ " if isand else " ∨ ").join(parts) + ")"
        if isinstance(n, ast.UnaryOp) and isinstance(n.op, ast.Not):
            p = self.prop(n.operand, env)
            return "False" if p == "True" else "True" if p == "False" else f"(¬ {p})"
        if isinstance(n, ast.Compare):
            if len(n.ops) != 1:
                bad(n, "chained comparison")
            op, l, r = n.ops[0], n.left, n.comparators[0]
            if isinstance(op, (ast.In, ast.NotIn)):
                cl, tl = self.ex(l, env)
                if tl not in ("phase", "reason"):
                    bad(n, f"`in` on a value of type {tl}")
                if isinstance(r, (ast.Tuple, ast.List, ast.Set)):
                    members = []
                    for e in r.elts:
                        ce, te = self.ex(e, env)
                        if te != tl:
                            bad(n, f"`in` over {tl}/{te}")
                        members.append(ce)
                else:
                    members, ts = self.ex(r, env)
                    if ts != "set:" + tl:
                        bad(n, f"`in` on something that is not a collection of {tl} constants")
                p = "(" + " ∨ ".join(f"{cl} = {m}" for m in members) + ")" if members else "False"
                if isinstance(op, ast.In):
                    return p
                return "True" if p == "False" else f"(¬ {p})"
            a, b = self.ex(l, env), self.ex(r, env)
            if isinstance(op, (ast.Is, ast.IsNot)):
                if b[1] != "none":
                    bad(n, "`is` other than `<value> is None`")
                if a[1] == "none":
                    p = "True"
                elif a[1] in DEFAULT_OF:
                    p = f"({a[0]} = none)"
                elif a[1] in ("reason", "phase", "time", "nat", "int", "bool", "dur"):
                    p = "False"
                else:
                    bad(n, f"`is None` on a value of type {a[1]}")
                if isinstance(op, ast.Is):
                    return p
                return "False" if p == "True" else "True" if p == "False" else f"(¬ {p})"
            sym = {ast.Eq: "=", ast.NotEq: "≠", ast.Lt: "<", ast.LtE: "≤", ast.Gt: ">", ast.GtE: "≥"}.get(type(op))
            if sym is None:
                bad(n, f"comparison {type(op).__name__}")
            if a[1] in ("phase", "reason", "bool") and a[1] == b[1] and sym in ("=", "≠"):
                return f"({a[0]} {sym} {b[0]})"
            if sym in ("=", "≠") and a[1] in ("oreason",) and b[1] in ("reason", "none", "oreason") or \
                    sym in ("=", "≠") and b[1] in ("oreason",) and a[1] in ("reason", "none"):
                ca = self.coerce(a, "oreason", n, "comparison operand")
                cb = self.coerce(b, "oreason", n, "comparison operand")
                return f"({ca} {sym} {cb})"
            if a[1] == "frac" and b[1] == "cfrac" and sym in ("<", "≤", ">", "≥"):
                (num, den), (cn, cd) = a[0], b[0]
                return f"({num} * (({cd} : Nat) : Int) {sym} (({cn} : Nat) : Int) * {den})"
            if a[1] == "cfrac" and b[1] == "frac" and sym in ("<", "≤", ">", "≥"):
                (cn, cd), (num, den) = a[0], b[0]
                return f"((({cn} : Nat) : Int) * {den} {sym} {num} * (({cd} : Nat) : Int))"
            if a[1] in ("nat", "int", "dur") and b[1] in ("nat", "int", "dur"):
                ca, cb, _ = self.num2(a, b, n)
                return f"({ca} {sym} {cb})"
            bad(n, f"comparison of {a[1]} with {b[1]}")
        return self.truthy(n, env)

    # --- what a test establishes about Optionals ---------------------------------------------------------------
    def opt_key(self, n, env):
        if is_self(n) and (n.attr in FIELDS and FIELDS[n.attr][1] in DEFAULT_OF or n.attr in CFG and CFG[n.attr][1] in DEFAULT_OF):
            return n.attr
        if isinstance(n, ast.Name) and n.id in env["locals"] and env["locals"][n.id][1] in DEFAULT_OF:
            return "local:" + n.id
        return None

    def established(self, test, env, truth):
        """keys of Optionals known to be non-None when `test` evaluates to `truth`"""
        out = set()
        if isinstance(test, ast.UnaryOp) and isinstance(test.op, ast.Not):
            return self.established(test.operand, env, not truth)
        if isinstance(test, ast.BoolOp):
            if isinstance(test.op, ast.And) == truth:       # all conjuncts true / all disjuncts false
                for v in test.values:
                    out |= self.established(v, env, truth)
            return out
        if isinstance(test, ast.Compare) and len(test.ops) == 1 and isinstance(test.ops[0], (ast.Is, ast.IsNot)) \
                and isinstance(test.comparators[0], ast.Constant) and test.comparators[0].value is None:
            k = self.opt_key(test.left, env)
            if k and (isinstance(test.ops[0], ast.IsNot) == truth):
                out.add(k)
            return out
        k = self.opt_key(test, env)
        if k and truth:
            out.add(k)
        return out

    def refine(self, env, test, truth):
        return dict(env, nonnull=set(env["nonnull"]) | self.established(test, env, truth))

    # ---------------------------------------------------------------------------------------------- statements
    def noop(self, st):
        if isinstance(st, ast.Pass):
            return True
        if isinstance(st, ast.Expr):
            v = st.value
            if isinstance(v, ast.Constant):
                return True
            if isinstance(v, ast.Call):
                f = v.func
                args = v.args + [k.value for k in v.keywords]
                if isinstance(f, ast.Name) and f.id == "print":
                    return self.callfree(args, allow_fmt=True)
                if isinstance(f, ast.Attribute) and self.is_logger(f.value):
                    return self.callfree(args, allow_fmt=True)
            return False
        if isinstance(st, (ast.Assign, ast.AnnAssign)):
            tg = st.targets if isinstance(st, ast.Assign) else [st.target]
            if len(tg) == 1 and is_self(tg[0]) and tg[0].attr in DROPPED_FIELDS:
                return st.value is None or self.callfree([st.value], allow_now=True)
            if isinstance(st, ast.AnnAssign) and st.value is None:
                return True
            return False
        if isinstance(st, ast.If):
            return self.callfree([st.test]) and all(self.noop(x) for x in st.body + st.orelse)
        return False

    OPTIONAL_ATTRS = {"_senescence_reason", "_started_at", "_last_activity", "_terminated_at", "_created_at",
                      "max_lifetime", "idle_timeout", "on_phase_change", "on_senescence"}

    def total(self, n):
        """an expression whose value is dropped (log payload, print argument) must not be able to RAISE: no division /
        modulo by something that may be zero, no indexing, no attribute of an Optional field (seeded p3: a log payload
        `restored / deficit` made renew() raise half-way)"""
        for c in ast.walk(n):
            if isinstance(c, ast.BinOp) and isinstance(c.op, (ast.Div, ast.FloorDiv, ast.Mod)):
                r = c.right
                ok = (isinstance(r, ast.Constant) and isinstance(r.value, (int, float)) and not isinstance(r.value, bool)
                      and r.value != 0)
                if (isinstance(r, ast.Call) and isinstance(r.func, ast.Name) and r.func.id == "max" and not r.keywords
                        and any(isinstance(a, ast.Constant) and isinstance(a.value, (int, float))
                                and not isinstance(a.value, bool) and a.value > 0 for a in r.args)):
                    ok = True
                if not ok:
                    return False
            if isinstance(c, ast.BinOp) and isinstance(c.op, (ast.Pow, ast.LShift, ast.RShift, ast.MatMult)):
                return False
            if isinstance(c, ast.Subscript) and not isinstance(c.slice, ast.Slice):
                return False
            if isinstance(c, ast.Attribute) and is_self(c.value) and c.value.attr in self.OPTIONAL_ATTRS:
                return False
            if isinstance(c, (ast.Starred, ast.ListComp, ast.SetComp, ast.DictComp, ast.GeneratorExp)):
                return False
        return True

    def callfree(self, nodes, allow_fmt=False, allow_now=False):
        for n in nodes:
            if not self.total(n):
                return False
            for c in ast.walk(n):
                if isinstance(c, ast.Call):
                    f = c.func
                    if allow_fmt and isinstance(f, ast.Name) and f.id in ("int", "str", "round", "repr", "float", "len"):
                        continue
                    if allow_now and isinstance(f, ast.Attribute) and f.attr == "now":
                        continue
                    return False
                if isinstance(c, (ast.NamedExpr, ast.Await, ast.Yield, ast.YieldFrom, ast.Lambda)):
                    return False
        return True

    def impure_call(self, n):
        """n is `self.m(...)` (possibly under `not`) with an impure / unit-returning callee -> the Call node"""
        inner = n
        while isinstance(inner, ast.UnaryOp) and isinstance(inner.op, ast.Not):
            inner = inner.operand
        if isinstance(inner, ast.Call) and is_self(inner.func) and inner.func.attr in self.fns:
            if not self.info(inner.func.attr, inner)["pure"]:
                return inner
        return None

    def hoist(self, st, field, env, pad):
        """if the principal expression of `st` is an impure own-method call, bind it first; returns (lines, st', env')"""
        expr = getattr(st, field)
        if expr is None:
            return [], st, env
        call = self.impure_call(expr)
        if call is None:
            return [], st, env
        d, app = self.call_args(call.func.attr, call, env)
        if d["rtype"] in ("ret", "unit"):
            bad(call, f"value of self.{call.func.attr}() used ({d['rtype']})")
        self.tmp += 1
        tname = f"h{self.tmp}__"
        self.stack[-1]["calls"].add(call.func.attr)
        self.stack[-1]["pure"] = False
        lines = [f"{pad}let r := {app}", f"{pad}let s : State := r.1", f"{pad}let evs : List Ev := r.2.1",
                 f"{pad}let v_{tname} := r.2.2"]
        loc = dict(env["locals"]); loc[tname] = (f"v_{tname}", d["rtype"])
        env2 = dict(env, locals=loc, nonnull={k for k in env["nonnull"] if k.startswith("local:")})

        e2 = ast.copy_location(ast.Name(id=tname, ctx=ast.Load()), call)
        e = expr
        wraps = 0
        while e is not call:            # impure_call only looks through `not`
            e = e.operand
            wraps += 1
        for _ in range(wraps):
            e2 = ast.copy_location(ast.UnaryOp(op=ast.Not(), operand=e2), call)
        st2 = copy.copy(st)
        setattr(st2, field, e2)
        return lines, st2, env2

    def emit_return(self, val, node, pad):
        ctx = self.stack[-1]
        rt = ctx["rtype"]
        c, t = val
        if rt is None:
            ctx["collect"].add(t)
            return f"{pad}(s, evs, ())"
        if rt == "ret":
            if t == "none":
                return f"{pad}(s, evs, Ret.unit)"
            if t == "bool":
                return f"{pad}(s, evs, Ret.bool {c})"
            bad(node, f"return of a {t} from a public method")
        if rt == "unit":
            return f"{pad}(s, evs, ())"
        return f"{pad}(s, evs, {self.coerce(val, rt, node, 'return value')})"

    def assign_field(self, attr, val, node):
        f, ft = FIELDS[attr]
        return f"let s : State := {{ s with {f} := {self.coerce(val, ft, node, 'assignment to self.' + attr)} }}"

    def body(self, stmts, env, ind):
        pad = "  " * ind
        ctx = self.stack[-1]
        if not stmts:
            return self.emit_return(("none", "none"), None, pad)
        st, rest = stmts[0], stmts[1:]
        if self.noop(st):
            return self.body(rest, env, ind)
        if isinstance(st, ast.With):
            if len(st.items) == 1 and is_self(st.items[0].context_expr, "_lock") and st.items[0].optional_vars is None:
                return self.body(st.body + rest, env, ind)
            bad(st, "`with` on something other than self._lock")
        if isinstance(st, ast.Return):
            pre, st, env = self.hoist(st, "value", env, pad)
            if st.value is None:
                out = self.emit_return(("none", "none"), st, pad)
            else:
                out = self.emit_return(self.ex(st.value, env), st, pad)
            return "\n".join(pre + [out])
        if isinstance(st, ast.If):
            test = st.test
            if is_self(test) and test.attr in ("on_phase_change", "on_senescence") and not st.orelse:
                return self.body(st.body + rest, env, ind)
            pre, st, env = self.hoist(st, "test", env, pad)
            test = st.test
            p = self.prop(test, env)
            if p == "True":
                return "\n".join(pre + [self.body(st.body + rest, self.refine(env, test, True), ind)])
            if p == "False":
                return "\n".join(pre + [self.body(st.orelse + rest, self.refine(env, test, False), ind)])
            a = self.body(st.body + rest, self.refine(env, test, True), ind + 1)
            b = self.body(st.orelse + rest, self.refine(env, test, False), ind + 1)
            return "\n".join(pre + [f"{pad}if {p} then\n{a}\n{pad}else\n{b}"])
        if isinstance(st, (ast.Assign, ast.AugAssign, ast.AnnAssign)):
            pre, st, env = self.hoist(st, "value", env, pad)
            if isinstance(st, ast.AugAssign):
                tgt = st.target
                if not (isinstance(tgt, ast.Name) or is_self(tgt)):
                    bad(st, f"augmented assignment to {type(tgt).__name__} target")
                cur = self.ex(ast.Attribute(value=tgt.value, attr=tgt.attr, ctx=ast.Load())
                              if isinstance(tgt, ast.Attribute) else ast.Name(id=tgt.id, ctx=ast.Load()), env)
                rhs = self.ex(st.value, env)
                if isinstance(st.op, ast.Add):
                    ca, cb, t = self.num2(cur, rhs, st)
                    if t == "dur":
                        bad(st, "+= on a duration")
                    val = (f"({ca} + {cb})", t)
                elif isinstance(st.op, ast.Sub):
                    ca, cb = self.coerce_int(*cur), self.coerce_int(*rhs)
                    if ca is None or cb is None:
                        bad(st, "-= on non-integers")
                    val = (f"({ca} - {cb})", "int")
                else:
                    bad(st, f"augmented assignment {type(st.op).__name__}")
            else:
                tg = st.targets if isinstance(st, ast.Assign) else [st.target]
                if len(tg) != 1:
                    bad(st, "multiple assignment targets")
                tgt, val = tg[0], self.ex(st.value, env)
            if is_self(tgt, "_events") and isinstance(st, (ast.Assign, ast.AnnAssign)):
                v_ = st.value
                if (isinstance(v_, ast.List) and not v_.elts) or (isinstance(v_, ast.Call) and isinstance(v_.func, ast.Name)
                                                                  and v_.func.id == "list" and not v_.args and not v_.keywords):
                    ctx["pure"] = False
                    return "\n".join(pre + [f"{pad}let s : State := {{ s with events := 0 }}", self.body(rest, env, ind)])
                bad(st, "assignment to self._events other than an empty list")
            if is_self(tgt):
                if tgt.attr not in FIELDS:
                    bad(st, f"assignment to self.{tgt.attr}")
                ctx["pure"] = False
                line = self.assign_field(tgt.attr, val, st)
                env2 = dict(env, nonnull=set(env["nonnull"]) - {tgt.attr})
                return "\n".join(pre + [f"{pad}{line}", self.body(rest, env2, ind)])
            if isinstance(tgt, ast.Name):
                c, t = val
                loc = dict(env["locals"])
                nn = set(env["nonnull"]) - {"local:" + tgt.id}
                if t in ("frac", "cfrac", "none") or t.startswith("set:"):
                    loc[tgt.id] = (c, t)
                    return "\n".join(pre + [self.body(rest, dict(env, locals=loc, nonnull=nn), ind)])
                v = f"v_{tgt.id}"
                loc[tgt.id] = (v, t)
                return "\n".join(pre + [f"{pad}let {v} : {LEAN_T[t]} := {c}",
                                        self.body(rest, dict(env, locals=loc, nonnull=nn), ind)])
            bad(st, "assignment target")
        if isinstance(st, ast.Expr) and isinstance(st.value, ast.Call):
            call = st.value
            f = call.func
            if ((is_self(f, "_log_event") or (isinstance(f, ast.Name) and f.id == "print"))
                    and not all(self.total(a) for a in call.args + [k.value for k in call.keywords])):
                bad(st, "payload of a dropped call may raise (division / indexing / attribute of an Optional field)")
            if is_self(f, "_log_event"):
                # one entry appended to the event log, capped (the behaviour of `_log_event` itself is MEASURED by the E5
                # probe: Gen.TelomereConsts.logCap); the payload is dropped and must be call-free and total
                if not self.callfree(call.args + [k.value for k in call.keywords]):
                    bad(st, "payload of _log_event contains a call")
                ctx["pure"] = False
                return f"{pad}let s : State := {{ s with events := logged 1 s.events }}\n{self.body(rest, env, ind)}"
            if isinstance(f, ast.Attribute) and is_self(f.value, "_events"):
                if f.attr == "clear" and not call.args and not call.keywords:
                    ctx["pure"] = False
                    return f"{pad}let s : State := {{ s with events := 0 }}\n{self.body(rest, env, ind)}"
                bad(st, f"self._events.{f.attr}(...) outside _log_event")
            if is_self(f, "on_phase_change") and len(call.args) == 2 and not call.keywords:
                a, b = self.ex(call.args[0], env), self.ex(call.args[1], env)
                if a[1] != "phase" or b[1] != "phase":
                    bad(st, "on_phase_change arguments")
                ctx["pure"] = False
                return f"{pad}let evs := evs ++ [Ev.change {a[0]} {b[0]}]\n{self.body(rest, env, ind)}"
            if is_self(f, "on_senescence") and len(call.args) == 1 and not call.keywords:
                a = self.coerce(self.ex(call.args[0], env), "reason", st, "on_senescence argument")
                ctx["pure"] = False
                return f"{pad}let evs := evs ++ [Ev.senescence {a}]\n{self.body(rest, env, ind)}"
            if is_self(f) and f.attr in self.fns:
                d, app = self.call_args(f.attr, call, env)
                ctx["calls"].add(f.attr)
                if d["pure"]:
                    return self.body(rest, env, ind)          # a pure call whose value is discarded does nothing
                ctx["pure"] = False
                env2 = dict(env, nonnull={k for k in env["nonnull"] if k.startswith("local:")})
                return (f"{pad}let r := {app}\n{pad}let s : State := r.1\n{pad}let evs : List Ev := r.2.1\n"
                        f"{self.body(rest, env2, ind)}")
            bad(st, f"call {ast.unparse(f)}(...)")
        bad(st, f"statement {type(st).__name__}")

    def check_log_event(self):
        fn = self.fns.get("_log_event")
        if fn is None:
            raise Unsupported("_log_event not found")
        for n in ast.walk(fn):
            if is_self(n) and isinstance(n.ctx, (ast.Store, ast.Del)) and n.attr not in DROPPED_FIELDS | {"_events"}:
                bad(n, f"_log_event writes self.{n.attr}")
            if isinstance(n, ast.Call) and is_self(n.func):
                bad(n, f"_log_event calls self.{n.func.attr}")


HEAD = ("import Operon.Model.Telomere\n"
        "/- GENERATED by harness/vf/extract/py2lean_telomere.py from operon_ai/state/telomere.py on every run; do not edit.\n"
        "   Each definition is the translation of the Python method of the same name (see the translator for the\n"
        "   supported subset).  `untranslatable \"...\"` marks a method that left the subset: its agreement theorem\n"
        "   c09_translation_agrees_<method> then fails. -/\n"
        "namespace Operon.Telomere\n"
        "set_option linter.unusedVariables false\n\n")


def public_sig(m):
    return "".join(f" (p_{i} : {LEAN_T[t]})" for i, t in enumerate(FIXED.get(m, [])))


def fallback(why: str) -> str:
    out = HEAD
    w = why.replace('"', "'").replace("\\", "/")[:300]
    for m in PUBLIC:
        out += (f"/-- translation of `Telomere.{m}` -/\n@[simp] def Tr.{lname(m)} (cfg : Cfg) (s : State) (evs : List Ev)"
                f"{public_sig(m)} : State × List Ev × Ret :=\n    untranslatable \"{w}\"\n\n")
    return out + "end Operon.Telomere\n"


def render(src: str, mod=None) -> tuple[str, dict]:
    info = {"unsupported": {}, "methods": []}
    try:
        tr = Translator(src, mod)
        tr.check_log_event()
    except RecursionError:
        info["unsupported"] = {m: "recursion" for m in PUBLIC}
        return fallback("recursion"), info
    except Exception as e:   # noqa - fail closed on anything, never crash
        why = str(e) if isinstance(e, (Unsupported, SyntaxError)) else f"translator failed ({type(e).__name__}: {str(e)[:120]})"
        info["unsupported"] = {m: why for m in PUBLIC}
        return fallback(why), info
    for m in PUBLIC:
        try:
            tr.info(m)
        except Unsupported as e:
            info["unsupported"][m] = str(e)
        except RecursionError:
            info["unsupported"][m] = "recursion"
            tr.done[m] = {"error": "recursion", "own": True}
    for m in ACCESSORS:
        try:
            d_ = tr.info(m)
            if not d_["pure"] or d_["params"] or d_["rtype"] != ACCESSOR_T[m]:
                tr.done[m] = {"error": f"accessor is not a pure parameterless function returning {ACCESSOR_T[m]}", "own": True}
        except Unsupported as e:
            info["unsupported"][m] = str(e)
        except RecursionError:
            info["unsupported"][m] = "recursion"
            tr.done[m] = {"error": "recursion", "own": True}
    for name, d in tr.done.items():
        if "error" in d:
            info["unsupported"].setdefault(name, d["error"])
    # emission order: callees first
    order, seen = [], set()

    def visit(m):
        if m in seen:
            return
        seen.add(m)
        d = tr.done.get(m)
        if d and "error" not in d:
            for c in sorted(d["calls"]):
                visit(c)
        order.append(m)
    for m in PUBLIC + ACCESSORS:
        visit(m)
    names = {}
    out = HEAD
    for m in order:
        d = tr.done.get(m)
        ln = lname(m)
        if names.setdefault(ln, m) != m:          # `_start` and `start` would collide
            info["unsupported"][m] = f"name clash on Tr.{ln}"
            d = {"error": "name clash"}
        if d is None or "error" in d:
            if m not in PUBLIC:
                continue                            # its callers are already marked untranslatable
            why = info["unsupported"].get(m, d.get("error", "unsupported") if d else "unsupported")
            w = why.replace('"', "'").replace("\\", "/")
            out += (f"/-- translation of `Telomere.{m}` -/\n@[simp] def Tr.{ln} (cfg : Cfg) (s : State) (evs : List Ev)"
                    f"{public_sig(m)} : State × List Ev × Ret :=\n    untranslatable \"{w}\"\n\n")
            info["methods"].append(m)
            continue
        params = "".join(f" (p_{n} : {LEAN_T[t]})" for n, t in d["params"])
        out += f"/-- translation of `Telomere.{m}`{' (pure)' if d['pure'] else ''} -/\n"
        out += (f"@[simp] def Tr.{ln} (cfg : Cfg) (s : State) (evs : List Ev){params} : "
                f"State × List Ev × {LEAN_T[d['rtype']]} :=\n{d['code']}\n\n")
        info["methods"].append(m)
    return out + "end Operon.Telomere\n", info


def elaborates(lean_dir: Path, text: str) -> tuple[bool, str]:
    """does the generated file build?  (checked before it replaces the previous one)"""
    try:
        with tempfile.NamedTemporaryFile("w", suffix=".lean", delete=False, dir="/tmp") as f:
            f.write(text)
            tmp = f.name
        p = subprocess.run(["lake", "env", "lean", tmp], cwd=str(lean_dir), capture_output=True, text=True, timeout=300)
        os.unlink(tmp)
        errs = [l for l in (p.stdout + p.stderr).splitlines() if "error" in l]
        return p.returncode == 0 and not errs, "; ".join(errs)[:300]
    except Exception as e:  # noqa
        return False, repr(e)


def run(repo: Path, lean_dir: Path, write_if_changed) -> list[dict]:
    path = Path(repo) / REL
    try:
        src = path.read_text()
    except OSError:
        src = ""
    mod = load_module(path) if src else None
    text, info = render(src, mod)
    target = Path(lean_dir) / "Operon/Gen/TelomereTranslated.lean"
    if not (target.exists() and target.read_text() == text):
        # the model must be built for the check; it is (the caller holds the build lock and builds right after)
        subprocess.run(["lake", "build", "Operon.Model.Telomere"], cwd=str(lean_dir), capture_output=True, text=True)
        ok, why = elaborates(Path(lean_dir), text)
        if not ok:
            info["unsupported"] = {m: f"generated code does not elaborate: {why}" for m in PUBLIC}
            text = fallback(f"generated code does not elaborate: {why}")
    changed = write_if_changed(target, text)
    return [{"id": "py2lean-telomere", "facts_changed": bool(changed), "methods": info["methods"],
             "unsupported": info["unsupported"], "module_evaluated": mod is not None}]


if __name__ == "__main__":
    root = Path(sys.argv[1] if len(sys.argv) > 1 else "/repo")
    t, i = render((root / REL).read_text(), load_module(root / REL))
    print(t)
    print(i, file=sys.stderr)
