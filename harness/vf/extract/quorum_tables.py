"""E5 (quorum, decision tables): complete finite decision tables of operon_ai/topology/quorum.py obtained by EVALUATING the
real code through its public API -> lean/Operon/Gen/QuorumTables.lean (regenerated on every run of ./check C06).

Nothing is parsed: every row is the observable result of `QuorumSensing(...)` / `EmergencyQuorum(...)` + `run_vote(...)`
on a colony whose agents were replaced by scripted stubs (assignment to the public dataclass field `profile.agent`,
`profile.weight`, `profile.reliability_score`).  A rewrite of quorum.py that keeps the behaviour leaves the tables
unchanged byte for byte; a change of behaviour on the tables' domain changes a digit, and the theorems of
lean/Operon/Props/C06.lean that reproduce the tables with the Lean model (`decide +kernel`) stop checking.

  classTable   `_protein_to_vote` + the `except` branch of `run_vote`:
               every action-type string of ACTIONS (the four recognised ones, every proper prefix / suffix of them,
               case / whitespace variants, concatenations, empty, unrelated words) x two payloads, and six action types
               x every payload shape of PAYLOADS (no dict, dict without "confidence", numeric as float / int / bool /
               numeric string / padded string, out of range, negative, infinite, huge, NaN, non-numeric, None, list)
               + payloads that cannot be rendered (str / bool / len raise, a dict with a valid confidence and an
               unprintable value) x three (weight, reliability) pairs, and an agent that gives no usable answer
               (raises, returns None / a string / a bare object / a protein whose payload cannot be read) -> (vote type, confidence, weight) of the one vote in `QuorumResult.votes`
  countTable   the four counting strategies + EmergencyQuorum x custom thresholds (none, 0, shares, counts, fractional
               counts) x min_voters 0, 1, 3 x EVERY (permit, block, abstain/failed, defer) profile of 0..7 voters (the
               property's quantifier bound), evaluated on a plain ballot (weight 1, no confidence) and - for
               min_voters = 1 - on a second representative of the profile (EXECUTE / raising voters, other weights,
               confidences and order) that must give the same outcome
  weightTable  WEIGHTED / CONFIDENCE / BAYESIAN x custom thresholds x EVERY multiset of <= 3 voters over the
               13-voter alphabet WEIGHT_ALPHABET (dyadic weights, reliabilities, confidences incl. 0, absent
               confidence, clamping weight 2, idle and failing voters)

Outcome digits (packed most significant first into one natural number per configuration; never 0):
  1 reached & PERMIT   2 not reached & BLOCK   4 not reached & ABSTAIN (min_voters gate)   8 ZeroDivisionError
  7 not compared: exact Bayesian posterior within 1e-6 of the threshold (IEEE rounding decides; weightTable only)
  9 anything else (another exception, reached/decision combination outside the three above, reported counts that are
    not the ballot's, two representatives of one profile that disagree) - the model never produces 9.

Fail closed: any exception while building a table gives `<table>Complete := false` and an empty table (the file stays
well-formed, the theorem about that table stops checking).
"""
from __future__ import annotations

import contextlib
import io
from fractions import Fraction as F
from pathlib import Path

from .quorum_consts import DOCUMENTED, lean_rat, model_posterior

OUT_REL = "Operon/Gen/QuorumTables.lean"
MAXN = 7
WEIGHT_MAXN = 3
NEAR = F(1, 10 ** 6)

RECOGNISED = ["PERMIT", "EXECUTE", "BLOCK", "DEFER"]


def _actions():
    out = list(RECOGNISED) + [""]
    for w in RECOGNISED:
        for i in range(1, len(w)):
            out += [w[:i], w[i:]]                        # every proper prefix and suffix
        out += [w.lower(), w.capitalize(), " " + w, w + " ", w + "\n", w + "S", "X" + w]
    out += ["PERMITEXECUTE", "EXECUTEPERMIT", "PERMIT,EXECUTE", "PERMIT EXECUTE", "BLOCKDEFER", "PERMITBLOCK",
            "ABSTAIN", "FAILURE", "UNKNOWN", "SUCCESS", "ALLOW", "DENY", "APPROVE", "REJECT", "permit", "block",
            "VoteType.PERMIT", "ＰＥＲＭＩＴ", "PERMıT", "0", "None", "True"]
    seen, res = set(), []
    for a in out:
        if a not in seen:
            seen.add(a)
            res.append(a)
    return res


ACTIONS = _actions()

# payload shapes: (code, value carried into the table, builder).  Codes are interpreted by Operon.Quorum.payloadOfCode.
PAYLOADS = [
    (0, F(0), lambda: None),
    (1, F(0), lambda: "Action is safe."),
    (2, F(1, 4), lambda: 0.25),                          # a number that is not inside a dict
    (3, F(0), lambda: ["confidence", 0.25]),
    (4, F(0), lambda: {}),
    (5, F(0), lambda: {"note": 1, "Confidence": 0.25}),  # a dict without the key (keys are case-sensitive)
    (6, F(0), lambda: {"confidence": 0.0}),
    (6, F(1, 4), lambda: {"confidence": 0.25}),
    (6, F(1, 2), lambda: {"confidence": 0.5}),
    (6, F(1), lambda: {"confidence": 1.0}),
    (7, F(1, 2), lambda: {"confidence": "0.5"}),         # numeric string
    (7, F(1, 4), lambda: {"confidence": " 0.25 "}),      # float() accepts surrounding blanks
    (8, F(1), lambda: {"confidence": 1}),                # int
    (8, F(0), lambda: {"confidence": 0}),
    (9, F(1), lambda: {"confidence": True}),             # bool
    (6, F(2), lambda: {"confidence": 2.0}),               # out of range: clamped into [0, 1]
    (7, F(5), lambda: {"confidence": "5"}),
    (14, F(1, 2), lambda: {"confidence": -0.5}),          # code 14: the value is negative (-1/2)
    (14, F(1), lambda: {"confidence": "-1"}),
    (13, F(0), lambda: {"confidence": float("inf")}),     # code 13: beyond the clamp
    (13, F(0), lambda: {"confidence": "Infinity"}),
    (13, F(0), lambda: {"confidence": 1e308}),
    (15, F(0), lambda: {"confidence": float("nan")}),     # code 15: NaN is rejected (a failed voter)
    (15, F(0), lambda: {"confidence": "nan"}),
    (10, F(0), lambda: {"confidence": "high"}),
    (10, F(0), lambda: {"confidence": ""}),
    (11, F(0), lambda: {"confidence": None}),
    (12, F(0), lambda: {"confidence": [1]}),
    (12, F(0), lambda: _NoLookup(confidence=0.5)),        # the key lookup itself raises
    # code 16 / 17: the payload cannot be rendered into the vote's reasoning text (a failed voter, ONE ballot)
    (16, F(0), lambda: _Unprintable()),                   # str() / repr() raise
    (16, F(0), lambda: _NoTruth()),                       # bool() raises
    (16, F(0), lambda: _NoLen()),                         # len() raises (bool() falls back to it)
    (16, F(0), lambda: ["note", _Unprintable()]),
    (17, F(1, 2), lambda: {"confidence": 0.5, "detail": _Unprintable()}),   # a valid confidence next to such a value
    (17, F(1), lambda: {"confidence": "1", _Unprintable(): 0}),
]
RAISES_CODE = 99                                          # the agent's `express` raises / returns no usable answer
# how the agent fails to answer (value column of the RAISES_CODE rows, in sixteenths)
NO_ANSWER = [("raise", F(0)), ("none", F(1, 16)), ("string", F(2, 16)), ("object", F(3, 16)), ("broken-payload", F(4, 16))]


class _Unprintable:
    def __str__(self):
        raise ValueError("payload cannot be rendered")
    __repr__ = __str__


class _NoTruth:
    def __bool__(self):
        raise RuntimeError("payload has no truth value")


class _NoLen:
    def __len__(self):
        raise OverflowError("payload has no length")


class _NoLookup(dict):
    def __contains__(self, key):
        raise KeyError(key)


class _BrokenProtein:
    action_type = "PERMIT"

    @property
    def payload(self):
        raise RuntimeError("payload unavailable")


class _FloatSub(float):
    pass


class _IntSub(int):
    pass


def carriers_of(custom):
    """the other legal numeric types that can carry the threshold exactly: (label, object) - float is the default"""
    from decimal import Decimal
    out = [("Fraction", F(custom))]
    d = custom.denominator
    for p in (2, 5):
        while d % p == 0:
            d //= p
    if d == 1:
        out.append(("Decimal", Decimal(custom.numerator) / Decimal(custom.denominator)))
    out.append(("float subclass", _FloatSub(float(custom))))
    if custom.denominator == 1:
        out += [("int", int(custom)), ("int subclass", _IntSub(int(custom)))]
        if custom in (0, 1):
            out.append(("bool", bool(custom)))
    return out
CLASS_PROFILES = [(F(2), F(1, 2)), (F(1), F(1)), (F(1, 2), F(0))]
CLASS_PAYLOAD_ACTIONS = ["PERMIT", "EXECUTE", "BLOCK", "DEFER", "", "UNKNOWN"]

STRATS = ["majority", "supermajority", "unanimous", "weighted", "confidence", "bayesian", "threshold"]
EMERGENCY_DEFAULT, EMERGENCY_CUSTOM = 7, 8

# voter alphabet of the weight table: (kind, weight, reliability, confidence) - kind P E B D U(other action) X(raises)
WEIGHT_ALPHABET = [
    ("P", F(1), F(1), F(1)), ("P", F(1, 2), F(1), F(1, 2)), ("P", F(0), F(1), F(1)), ("P", F(1), F(1), F(1, 4)),
    ("P", F(2), F(1, 2), None), ("E", F(2), F(1), F(1)),
    ("B", F(1), F(1), F(1)), ("B", F(1, 2), F(1), F(1, 2)), ("B", F(2), F(1), F(1)), ("B", F(1), F(1), F(0)),
    ("U", F(1), F(1), None), ("X", F(2), F(1), F(1)), ("D", F(2), F(1), F(1)),
]
KIND_CODE = {"P": 0, "E": 1, "B": 2, "D": 3, "U": 4, "X": 5}
VT_CODE = {"permit": 0, "block": 1, "abstain": 2, "defer": 3}
VT_OF_KIND = {"P": "permit", "E": "permit", "B": "block", "D": "defer", "U": "abstain", "X": "abstain"}


def count_cfgs():
    out = []
    ratio = [None, F(0), F(1, 4), F(1, 2), F(2, 3), F(3, 4), F(1)]
    for s in (0, 1):
        out += [(s, c, mv) for c in ratio for mv in (0, 1, 3)]
    out += [(2, c, mv) for c in (None, F(1, 2)) for mv in (0, 1, 3)]
    counts = [None, F(0), F(1, 4), F(3, 10), F(1, 2), F(9, 10), F(1), F(2), F(5, 2), F(3), F(8)]
    out += [(6, c, mv) for c in counts for mv in (0, 1, 3)]
    out += [(EMERGENCY_DEFAULT, None, 1)]
    out += [(EMERGENCY_CUSTOM, c, 1) for c in (F(0), F(1, 4), F(1, 2), F(1), F(2))]
    return out


def weight_cfgs():
    out = []
    for s, customs in ((3, [None, F(0), F(1, 4), F(3, 4), F(1)]), (4, [None, F(1, 4), F(3, 4)]),
                       (5, [None, F(1, 4), F(2, 5), F(3, 4)])):
        out += [(s, c, 1) for c in customs]
        out += [(s, None, mv) for mv in (0, 2)]
    return out


def profiles_up_to(n):
    """same order as Operon.Quorum.profilesUpTo"""
    return [(p, b, a, tot - p - b - a) for tot in range(n + 1) for p in range(tot + 1)
            for b in range(tot - p + 1) for a in range(tot - p - b + 1)]


def multisets_of(xs, k):
    """same order as Operon.Quorum.multisetsOf (lexicographic by position, = combinations_with_replacement)"""
    if not xs:
        return [[]] if k == 0 else []
    out = []
    for j in range(k, -1, -1):
        out += [[xs[0]] * j + rest for rest in multisets_of(xs[1:], k - j)]
    return out


def weight_ballots():
    return [b for k in range(WEIGHT_MAXN + 1) for b in multisets_of(WEIGHT_ALPHABET, k)]


# ---------------------------------------------------------------------------------------------------------------
class Stub:
    """what `run_vote` uses of a BioAgent: `.name` and `.express(signal)`"""

    def __init__(self, name):
        self.name = name
        self.action, self.payload, self.fail = "PERMIT", None, False

    def express(self, signal):
        from operon_ai.core.types import ActionProtein
        if self.fail:
            if self.fail == "none":
                return None
            if self.fail == "string":
                return "PERMIT"
            if self.fail == "object":
                return object()
            if self.fail == "broken-payload":
                return _BrokenProtein()
            raise RuntimeError("voter failed")
        return ActionProtein(self.action, self.payload() if callable(self.payload) else self.payload, 1.0)


class Evaluator:
    def __init__(self, module):
        from operon_ai.state.metabolism import ATP_Store
        self.m = module
        self.ATP = ATP_Store
        self.cache = {}

    def quorum(self, code, custom, mv, n, carrier=None):
        """a quorum object of the coded configuration with n stubbed members (re-used between ballots of one size);
        `carrier`: (label, object) - the threshold handed over as that object instead of a float"""
        key = (code, custom, mv, n, carrier and carrier[0])
        q = self.cache.get(key)
        if q is None:
            m = self.m
            cu = None if custom is None else float(custom) if carrier is None else carrier[1]
            with contextlib.redirect_stdout(io.StringIO()):
                budget = self.ATP(budget=1000, silent=True)
                if code == EMERGENCY_DEFAULT:
                    q = m.EmergencyQuorum(n_agents=n, budget=budget, silent=True)
                elif code == EMERGENCY_CUSTOM:
                    q = m.EmergencyQuorum(n_agents=n, budget=budget, emergency_threshold=cu, silent=True)
                else:
                    q = m.QuorumSensing(n_agents=n, budget=budget, strategy=m.VotingStrategy(STRATS[code]), threshold=cu,
                                        min_voters=mv, silent=True)
            for prof in q.colony:
                prof.agent = Stub(prof.agent.name)
            if len(q.colony) != n:
                raise RuntimeError(f"a colony of {len(q.colony)} members for n_agents={n}")
            self.cache = {key: q}                         # one live object is enough
        return q

    ACTION_OF = {"P": "PERMIT", "E": "EXECUTE", "B": "BLOCK", "D": "DEFER", "U": "UNKNOWN", "X": "PERMIT"}

    def script(self, ballot):
        """a ballot prepared once: per member (fail, action, payload, weight, reliability) + the documented tally"""
        kinds = [VT_OF_KIND[k] for (k, _, _, _) in ballot]
        return ([(k == "X", self.ACTION_OF[k], None if c is None else {"confidence": float(c)}, float(w), float(r))
                 for (k, w, r, c) in ballot],
                kinds, (kinds.count("permit"), kinds.count("block"), kinds.count("abstain"), len(ballot)))

    def digit(self, q, script):
        """run the vote (the quorum objects are silent: nothing is printed) and code its outcome"""
        members, kinds, want = script
        for prof, (fail, action, payload, w, r) in zip(q.colony, members):
            a = prof.agent
            a.fail, a.action, a.payload = fail, action, payload
            prof.weight, prof.reliability_score = w, r
        try:
            res = q.run_vote("proposal")
        except ZeroDivisionError:
            return 8
        except Exception:  # noqa
            return 9
        if (res.permit_votes, res.block_votes, res.abstain_votes, res.total_votes) != want \
                or [v.vote_type.value for v in res.votes] != kinds:
            return 9
        return OUTCOME.get((res.reached, res.decision.value), 9)


OUTCOME = {(True, "permit"): 1, (False, "block"): 2, (False, "abstain"): 4}


def plain_ballot(p, b, a, d):
    return ([("P", F(1), F(1), None)] * p + [("B", F(1), F(1), None)] * b + [("U", F(1), F(1), None)] * a
            + [("D", F(1), F(1), None)] * d)


def decorated_ballot(p, b, a, d):
    """same profile, other representatives: EXECUTE, raising voters, zero / heavy weights, low confidences, mixed order"""
    P = [("E" if i % 2 else "P", [F(0), F(2), F(1, 2)][i % 3], [F(1), F(1, 2)][i % 2], [F(1, 4), None, F(0)][i % 3])
         for i in range(p)]
    B = [("B", [F(2), F(0), F(1)][i % 3], F(1), [F(1), F(1, 4)][i % 2]) for i in range(b)]
    A = [("X" if i % 2 == 0 else "U", F(2), F(1), F(1)) for i in range(a)]
    D = [("D", F(2), F(1, 2), F(1)) for _ in range(d)]
    out = []
    for grp in (D, B, A, P):                              # another order than the plain ballot
        out += grp
    return out[1::2] + out[0::2]


def pack(digits):
    n = 0
    for x in digits:
        n = n * 10 + x
    return n


def count_risky(code, custom, n):
    """could IEEE rounding decide a row of the count table differently from exact arithmetic?  (never, on this grid)"""
    if custom is None or custom == 0:
        return False
    if code in (0, 1):
        for q in range(1, n + 1):
            for p in range(q + 1):
                if 0 < abs(F(p, q) - custom) < NEAR:
                    return True
    if code in (6, EMERGENCY_CUSTOM) and 0 < custom < 1 and (custom.denominator & (custom.denominator - 1)):
        x = custom * n
        return n > 0 and abs(x - round(x)) < NEAR
    return False


UNIT = 16


def units(x):
    """a value of the classification table in sixteenths (all of them are; anything else fails closed)"""
    f = F(x) * UNIT
    if f.denominator != 1 or f < 0:
        raise RuntimeError(f"off-grid value {x!r} in the classification table")
    return int(f)


def build_class_table(ev):
    m = ev.m
    rows = []

    def observe(action, pcode, pval, build, w, r, fail=False):
        q = ev.quorum(0, None, 0, 1)
        prof = q.colony[0]
        prof.agent.action, prof.agent.payload, prof.agent.fail = action, build, fail
        prof.weight, prof.reliability_score = float(w), float(r)
        with contextlib.redirect_stdout(io.StringIO()):
            res = q.run_vote("proposal")
        if len(res.votes) != 1:
            raise RuntimeError(f"{len(res.votes)} votes from a one-member colony")
        v = res.votes[0]
        rows.append(((tuple(ord(ch) for ch in action), pcode, units(pval), units(w), units(r)),
                     (VT_CODE[v.vote_type.value], units(v.confidence), units(v.weight))))

    w0, r0 = CLASS_PROFILES[0]
    for a in ACTIONS:
        observe(a, 0, F(0), PAYLOADS[0][2], w0, r0)
        observe(a, 6, F(1, 2), PAYLOADS[8][2], w0, r0)
    for a in CLASS_PAYLOAD_ACTIONS:
        for (pc, pv, build) in PAYLOADS:
            for (w, r) in CLASS_PROFILES:
                observe(a, pc, pv, build, w, r)
    for (how, val) in NO_ANSWER:
        for (w, r) in CLASS_PROFILES:
            observe("PERMIT", RAISES_CODE, val, None, w, r, fail=how)
    assert m is not None
    return rows


def build_count_table(ev):
    rows = []
    profs = [(sum(pr), ev.script(plain_ballot(*pr)), ev.script(decorated_ballot(*pr))) for pr in profiles_up_to(MAXN)]
    for (code, custom, mv) in count_cfgs():
        if any(count_risky(code, custom, n) for n in range(MAXN + 1)):
            raise RuntimeError(f"float-risky configuration in the count table: {(code, custom)}")
        digits = []
        for (n, s1, s2) in profs:
            q = ev.quorum(code, custom, mv, n)
            d1 = ev.digit(q, s1)
            # the second representative of the profile (the min_voters gate sits in front of every strategy alike:
            # it is exercised with min_voters = 1 and for the emergency quorum)
            if mv == 1 and d1 != ev.digit(q, s2):
                d1 = 9
            digits.append(d1)
        # the same threshold carried by the other legal numeric types (Fraction always, one of Decimal / int / bool /
        # float subclass / int subclass in turn) must give the same outcome.  Ratio strategies: dyadic thresholds only (an
        # exact non-dyadic threshold is compared exactly with the ROUNDED ratio: ties are decided by the rounding)
        if custom is not None and mv == 1 and (code in (6, EMERGENCY_CUSTOM) or not (custom.denominator & (custom.denominator - 1))):
            cs = carriers_of(custom)
            for carrier in [cs[0]] + ([cs[1 + len(rows) % (len(cs) - 1)]] if len(cs) > 1 else []):
                for i, (n, s1, _s2) in enumerate(profs):
                    if digits[i] != ev.digit(ev.quorum(code, custom, mv, n, carrier), s1):
                        digits[i] = 9
        rows.append(((code, custom, mv), pack(digits)))
    return rows


def build_weight_table(ev, consts):
    rows = []
    ballots = weight_ballots()
    scripts = [ev.script(b) for b in ballots]
    for (code, custom, mv) in weight_cfgs():
        digits = []
        t = custom if custom not in (None, F(0)) else consts["majorityThreshold"]
        for ballot, script in zip(ballots, scripts):
            if code == 5:
                votes = [(VT_OF_KIND[k], F(1) if c is None else c, w * r) for (k, w, r, c) in ballot if k != "X"]
                ps = [(c, w) for (k, c, w) in votes if k == "permit"]
                bs = [(c, w) for (k, c, w) in votes if k == "block"]
                if (ps or bs) and abs(model_posterior(consts, ps, bs) - t) < NEAR:
                    digits.append(7)
                    continue
            digits.append(ev.digit(ev.quorum(code, custom, mv, len(ballot)), script))
        rows.append(((code, custom, mv), pack(digits)))
    return rows


# ---------------------------------------------------------------------------------------------------------------
def _opt(c):
    return "none" if c is None else f"some {lean_rat(c)}"


def render(class_rows, count_rows, weight_rows, errors):
    L = [
        "/-",
        "  GENERATED by harness/vf/extract/quorum_tables.py on every run of ./check C06 by EVALUATING",
        "  operon_ai/topology/quorum.py through its public API (constructor, run_vote on stubbed colonies).  Do not edit.",
        "  Row formats and digit codes: see the docstring of the generator and lean/Operon/Model/QuorumTab.lean.",
        "-/",
        "namespace Operon.Gen.Quorum",
        "",
    ]
    for e in errors:
        L.append("-- NOT ESTABLISHED: " + str(e).replace("\n", " ").replace("-/", "- /").replace("/-", "/ -")[:300])
    for name in ("classTable", "countTable", "weightTable"):
        good = not any(str(e).startswith(name + ":") for e in errors)
        L.append(f"def {name}Complete : Bool := {'true' if good else 'false'}")
    L += ["",
          f"def countMaxVoters : Nat := {MAXN}", f"def weightMaxVoters : Nat := {WEIGHT_MAXN}", ""]
    L.append("/-- (action_type code points, payload shape, payload value, profile weight, reliability) ↦ "
             "(vote type 0 permit 1 block 2 abstain 3 defer, confidence, weight); values in sixteenths -/")
    L.append("def classTable : List ((List Nat × Nat × Nat × Nat × Nat) × (Nat × Nat × Nat)) := [")
    body = []
    for ((act, pc, pv, w, r), (vt, conf, wt)) in class_rows:
        body.append(f"  (([{', '.join(str(x) for x in act)}], {pc}, {pv}, {w}, {r}), ({vt}, {conf}, {wt}))")
    L.append(",\n".join(body) + "]")
    L.append("")
    L.append("/-- (configuration 0..6 = strategy, 7 = EmergencyQuorum(), 8 = EmergencyQuorum(emergency_threshold=c); custom "
             "threshold; min_voters) ↦ packed outcome digits over `profilesUpTo countMaxVoters` -/")
    L.append("def countTable : List ((Nat × Option Rat × Nat) × Nat) := [")
    L.append(",\n".join(f"  (({code}, {_opt(c)}, {mv}), {n})" for ((code, c, mv), n) in count_rows) + "]")
    L.append("")
    L.append("/-- voter alphabet of the weight table: (kind 0 PERMIT 1 EXECUTE 2 BLOCK 3 DEFER 4 other 5 raises, weight, "
             "reliability, confidence present?, confidence) -/")
    L.append("def weightAlphabet : List (Nat × Rat × Rat × Bool × Rat) := [")
    L.append(",\n".join(f"  ({KIND_CODE[k]}, {lean_rat(w)}, {lean_rat(r)}, {'false' if c is None else 'true'}, "
                        f"{lean_rat(F(0) if c is None else c)})" for (k, w, r, c) in WEIGHT_ALPHABET) + "]")
    L.append("")
    L.append("/-- (configuration; custom threshold; min_voters) ↦ packed outcome digits over the multisets of "
             "0..weightMaxVoters voters of `weightAlphabet` -/")
    L.append("def weightTable : List ((Nat × Option Rat × Nat) × Nat) := [")
    L.append(",\n".join(f"  (({code}, {_opt(c)}, {mv}), {n})" for ((code, c, mv), n) in weight_rows) + "]")
    L += ["", "end Operon.Gen.Quorum", ""]
    return "\n".join(L)


def build(module, consts=None):
    consts = dict(DOCUMENTED, **{k: v for k, v in (consts or {}).items() if not isinstance(v, Exception)})
    errors = []
    tables = []
    for name, fn in (("classTable", build_class_table), ("countTable", build_count_table),
                     ("weightTable", lambda ev: build_weight_table(ev, consts))):
        try:
            tables.append(fn(Evaluator(module)))
        except Exception as e:  # noqa  the public API no longer answers as expected: fail closed
            errors.append(f"{name}: {e!r}")
            tables.append([])
    return tables, errors


def run(repo: Path, lean_dir: Path, write_if_changed, module, consts=None) -> dict:
    (class_rows, count_rows, weight_rows), errors = build(module, consts)
    changed = write_if_changed(lean_dir / OUT_REL, render(class_rows, count_rows, weight_rows, errors))
    digits = "".join(str(n) for (_, n) in count_rows + weight_rows)
    return {"id": "E5-quorum-tables", "facts_changed": bool(changed),
            "rows": {"classTable": len(class_rows), "countTable": f"{len(count_rows)} configurations x "
                     f"{len(profiles_up_to(MAXN))} profiles (x 2 representatives)",
                     "weightTable": f"{len(weight_rows)} configurations x {len(weight_ballots())} ballots"},
            "digit_histogram": {d: digits.count(d) for d in "124789" if digits.count(d)},
            "unrecognised": errors}


if __name__ == "__main__":
    import sys
    import time
    root = sys.argv[1] if len(sys.argv) > 1 else "/repo"
    sys.path.insert(0, root)
    from operon_ai.topology import quorum as qm
    t0 = time.time()
    (c, n, w), errs = build(qm)
    sys.stderr.write(f"{len(c)} class rows, {len(n)} count cfgs, {len(w)} weight cfgs, errors={errs}, {time.time() - t0:.2f}s\n")
    print(render(c, n, w, errs))
