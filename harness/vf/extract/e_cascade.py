"""E-cascade: evaluate the REAL Cascade.run on every one- and two-stage pipeline over the behaviour alphabet
(checkpoint none/pass/reject/raise x processor ok/raise x handler none/ok/raise x required x halt_on_failure) and
write the observed results as a Lean table (Operon/Gen/CascadeTable.lean).  Fails closed (table := none)."""
from __future__ import annotations

import itertools
import sys
import warnings
from pathlib import Path

CP = ["none", "pass", "reject", "raise"]
PR = ["ok", "raise"]
EH = ["none", "ok", "raise"]
STATUS = {"completed": 0, "failed": 1, "skipped": 2, "blocked": 3}


def evaluate(repo: Path):
    warnings.filterwarnings("ignore")
    root = str(repo)
    if root not in sys.path:
        sys.path.insert(0, root)
    try:
        import operon_ai
        if not str(Path(operon_ai.__file__).resolve()).startswith(root):
            return None
        from operon_ai.topology import cascade as m
        alpha = [(c, p, e, r) for c in range(4) for p in range(2) for e in range(3) for r in (True, False)]
        # one-stage pipelines also with checkpoint OBJECTS whose own truth value is false (4 pass / 5 reject / 6 raise):
        # a checkpoint is consulted whatever `bool(checkpoint)` says
        alpha1 = [(c, p, e, r) for c in range(7) for p in range(2) for e in range(3) for r in (True, False)]
        pipes2 = [[a, b] for a in alpha for b in alpha if a[3] and b[3]]

        class FalsyGate:
            def __init__(self, f):
                self.f = f

            def __call__(self, x):
                return self.f(x)

            def __bool__(self):
                return False
        rows = []
        # max_amplification 0: the gain is held at the maximum from the start (one-stage pipelines)
        for mx, halt in [(mx, halt) for mx in (4, 3, 1, 0) for halt in (True, False)]:
            for pipe in [[a] for a in alpha1] + (pipes2 if mx else []):
                log = []
                casc = m.Cascade("c", halt_on_failure=halt, max_amplification=float(mx), silent=True)
                for i, (c, p, e, r) in enumerate(pipe):
                    def cpf(x, i=i, c=c):
                        if c in (3, 6):
                            log.append((0, i, x, 2))
                            raise RuntimeError("cp")
                        log.append((0, i, x, 1 if c in (1, 4) else 0))
                        return c in (1, 4)
                    gate = None if c == 0 else FalsyGate(cpf) if c >= 4 else cpf

                    def pf(x, i=i, p=p):
                        log.append((1, i, x, 0))
                        if p == 1:
                            raise RuntimeError("p")
                        return x * 10 + i + 1

                    def ef(err, i=i, e=e):
                        log.append((2, i, 0, 0))
                        if e == 2:
                            raise RuntimeError("e")
                        return 7000 + i
                    casc.add_stage(m.CascadeStage(f"s{i}", pf, amplification=2.0, checkpoint=gate,
                                                  on_error=None if e == 0 else ef, required=r))
                res = casc.run(1)
                names = [f"s{i}" for i in range(len(pipe))]
                sts = [(names.index(s.stage_name), STATUS[s.status.value]) for s in res.stage_results]
                blk = None if res.blocked_at is None else names.index(res.blocked_at)
                rows.append((mx, halt, pipe, bool(res.success), res.final_output, res.stages_completed, blk, sts, list(log),
                             res.total_amplification))
        return rows
    except Exception:
        return None


def evaluate_mapk(repo: Path):
    """the shipped MAPKCascade preset, evaluated: per tier (has a gate, factor, required, has a handler) for the constructor
    factors 2, 3, 5 and, on the four abstract inputs (a raw int, the dicts of tier 1 / 2 / 3 as the preset itself produces
    them), the gate's answer (0 false 1 true 2 raises 3 no gate) and the tier of the processor's output (9 = raises).
    None when the preset does not have the expected outline (fail closed)."""
    try:
        from operon_ai.topology import cascade as m
        if not str(Path(m.__file__).resolve()).startswith(str(Path(repo).resolve())):
            return None
        added = []

        class Rec(m.MAPKCascade):
            def add_stage(self, stage, *a, **kw):
                added.append(stage)
                return super().add_stage(stage, *a, **kw)
        casc = Rec(tier1_amplification=2.0, tier2_amplification=3.0, tier3_amplification=5.0, silent=True)
        stages = added if added else list(casc._stages)
        if len(stages) != 3 or len(casc._stages) != 3:
            return None
        # the abstract inputs: raw, then what the chain itself produces
        inputs = [7]
        cur = 7
        for st in stages:
            cur = st.processor(cur)
            inputs.append(cur)

        def tier_of(v):
            if isinstance(v, dict) and v.get("active") is True and v.get("tier") in (1, 2, 3):
                return v["tier"]
            return 8            # something the abstraction does not know
        if [tier_of(v) for v in inputs[1:]] != [1, 2, 3]:
            return None
        attrs, rows = [], []
        for k, st in enumerate(stages):
            amp = st.amplification
            if amp != int(amp):
                return None
            attrs.append((st.checkpoint is not None, int(amp), bool(st.required), st.on_error is not None))
            for a, v in enumerate(inputs):
                if st.checkpoint is None:
                    g = 3
                else:
                    try:
                        g = 1 if st.checkpoint(v) else 0
                    except Exception:
                        g = 2
                try:
                    pc = tier_of(st.processor(v))
                except Exception:
                    pc = 9
                rows.append((k, a, g, pc))
        return attrs, rows
    except Exception:
        return None


def evaluate_hist(repo: Path):
    """`_results_history` / `get_history` of the real Cascade, evaluated: the final outputs kept after 1005 runs on the inputs
    0..1004 (one identity stage), the length after a following run_parallel and after one more run, whether the record of a
    run whose on_cascade_complete raised is kept, whether a failed fork of an empty cascade records nothing, the final outputs
    get_history(k) hands out on a five-record history for k in -7..7, and the length handed out without an argument on a
    105-record history.  None when anything does not evaluate (fail closed)."""
    try:
        from operon_ai.topology import cascade as m
        if not str(Path(m.__file__).resolve()).startswith(str(Path(repo).resolve())):
            return None
        BIG = 10 ** 6
        c = m.Cascade("h", silent=True)
        c.add_stage(m.CascadeStage("s", lambda x: x))
        for i in range(1005):
            c.run(i)
        kept = c.get_history(BIG)
        finals = [r.final_output for r in kept]
        if not all(isinstance(v, int) and not isinstance(v, bool) and v >= 0 for v in finals) or not all(r.success for r in kept):
            return None
        c.run_parallel(7)
        after_par = len(c.get_history(BIG))
        c.run(9)
        after_run = len(c.get_history(BIG))

        def boom(result):
            raise RuntimeError("observer")
        c2 = m.Cascade("h2", silent=True, on_cascade_complete=boom)
        try:
            c2.run(1)
            raised = False
        except RuntimeError:
            raised = True
        kept_when_raising = raised and len(c2.get_history(5)) == 1
        c3 = m.Cascade("h3", silent=True)
        try:
            c3.run_parallel(1)
            empty_nothing = False
        except ValueError:
            empty_nothing = len(c3.get_history(5)) == 0
        c4 = m.Cascade("h4", silent=True)
        c4.add_stage(m.CascadeStage("s", lambda x: x))
        for i in range(5):
            c4.run(i)
        slices = []
        for k in range(-7, 8):
            out = [r.final_output for r in c4.get_history(k)]
            if not all(isinstance(v, int) and 0 <= v < 5 for v in out):
                return None
            slices.append((k, out))
        for i in range(100):
            c4.run(i)
        default_len = len(c4.get_history())
        def counters(x):
            g = x.get_statistics()
            return (int(g["runs_count"]), int(g["successful_runs"]), int(g["failed_runs"]))
        stats = [counters(c), counters(c2), counters(c3)]
        return finals, after_par, after_run, kept_when_raising, empty_nothing, slices, default_len, stats
    except Exception:
        return None


def evaluate_agent(repo: Path):
    """`AgentCascade.add_agent_stage` evaluated with a stub agent class installed as the module's BioAgent: a list of yes/no
    facts (see render) and the factors of a stage registered with amplification=3 and of one registered with the defaults."""
    try:
        from operon_ai.topology import cascade as m
        if not str(Path(m.__file__).resolve()).startswith(str(Path(repo).resolve())):
            return None
        orig = m.BioAgent
        made, calls = [], []

        class Stub:
            mode = "ok"

            def __init__(self, name, role, atp_store):
                self.name, self.role, self.atp = name, role, atp_store
                made.append(self)

            def express(self, signal):
                calls.append(signal)
                if Stub.mode == "raise":
                    raise KeyError("express")
                return m.ActionProtein("EXECUTE", payload, 1.0)
        payload = object()
        budget = object()
        added = []

        class Rec(m.AgentCascade):
            def add_stage(self, stage, *a, **kw):
                added.append(stage)
                return super().add_stage(stage, *a, **kw)
        m.BioAgent = Stub
        try:
            ac = Rec("a", budget, silent=True)
            gate = lambda x: True      # noqa: E731
            back = ac.add_agent_stage("ag", "Role", amplification=3.0, checkpoint=gate)
            n1 = len(added)
            ac.add_agent_stage("ag2")
            n2 = len(added)
            if n1 != 1 or n2 != 2 or len(made) != 2:
                return None
            s1, s2 = added
            raw_out = s1.processor(5)
            raw_seen = calls[-1]
            sg = m.Signal(content="q")
            sig_out = s1.processor(sg)
            sig_seen = calls[-1]
            Stub.mode = "raise"
            try:
                s1.processor(5)
                propagates = False
            except KeyError:
                propagates = True
            except Exception:
                propagates = False
            Stub.mode = "ok"
            flags = [
                m.AgentCascade.run is m.Cascade.run and m.AgentCascade.run_parallel is m.Cascade.run_parallel
                and m.AgentCascade.get_history is m.Cascade.get_history,              # 0 the entry points are the inherited ones
                s1.checkpoint is gate,                                                   # 1 the checkpoint handed in is the stage's gate
                s2.checkpoint is None,                                                   # 2 no checkpoint handed in: ungated
                s1.on_error is None and s2.on_error is None,                             # 3 no error handler
                s1.required is True and s2.required is True,                             # 4 required
                made[0].atp is budget and made[0].name == "ag" and made[0].role == "Role",   # 5 the agent is built on the cascade's budget
                raw_out is payload and isinstance(raw_seen, m.Signal) and raw_seen.content == "5",   # 6 raw signal wrapped, payload returned as it is
                sig_out is payload and sig_seen is sg,                                   # 7 a Signal is handed over as it is
                propagates,                                                              # 8 an exception of express is the processor's
                back is ac and list(ac._stages) == added,                                # 9 one stage per call, registered in order, chaining
                s1.name == "ag" and s2.name == "ag2",                                    # 10 the stage is named after the agent
            ]
            a1, a2 = s1.amplification, s2.amplification
            if a1 != int(a1) or a2 != int(a2) or a1 < 0 or a2 < 0:
                return None
            return [bool(x) for x in flags], int(a1), int(a2)
        finally:
            m.BioAgent = orig
    except Exception:
        return None


def render(rows, mapk=None, hist=None, agent=None) -> str:
    b = lambda x: "true" if x else "false"
    on = lambda x: "none" if x is None else f"(some {x})"
    lines = []
    if rows is not None:
        for (mx, halt, pipe, ok, fin, comp, blk, sts, log, amp) in rows:
            ps = "[" + ", ".join(f"({c}, {p}, {e}, {b(r)})" for (c, p, e, r) in pipe) + "]"
            ss = "[" + ", ".join(f"({i}, {s})" for i, s in sts) + "]"
            ls = "[" + ", ".join(f"({k}, {i}, {x}, {r})" for (k, i, x, r) in log) + "]"
            lines.append(f"({mx}, {b(halt)}, {ps}, {b(ok)}, {on(fin)}, {comp}, {on(blk)}, {ss}, {ls}, {int(amp)})")
    # small definitions: one big list literal exhausts the elaborator / code generator
    parts = [lines[k:k + 250] for k in range(0, len(lines), 250)]
    defs = "".join(f"def part{n} : List Row := [\n  " + ",\n  ".join(ls) + "]\n\n" for n, ls in enumerate(parts))
    table = "none" if rows is None else "some (List.flatten [" + ", ".join(f"part{n}" for n in range(len(parts))) + "])"
    if mapk is None:
        mapk_s = "none"
    else:
        attrs, mrows = mapk
        mapk_s = ("some ([" + ", ".join(f"({b(g)}, {a}, {b(r)}, {b(h)})" for (g, a, r, h) in attrs) + "], ["
                  + ", ".join(f"({k}, {a}, {g}, {pc})" for (k, a, g, pc) in mrows) + "])")
    stats_s = "none"
    if hist is None:
        hist_s = "none"
    else:
        finals, after_par, after_run, kept, empty_nothing, slices, default_len, stats = hist
        stats_s = "some [" + ", ".join(f"({a}, {b_}, {c})" for (a, b_, c) in stats) + "]"
        hist_s = ("some ([" + ", ".join(map(str, finals)) + f"], {after_par}, {after_run}, {b(kept)}, {b(empty_nothing)}, ["
                  + ", ".join(f"(({k} : Int), [" + ", ".join(map(str, o)) + "])" for k, o in slices) + f"], {default_len})")
    if agent is None:
        agent_s = "none"
    else:
        flags, a1, a2 = agent
        agent_s = "some ([" + ", ".join(b(x) for x in flags) + f"], {a1}, {a2})"
    return f"""/- GENERATED by harness/vf/extract/e_cascade.py by evaluating the real Cascade.run — do not edit. -/
namespace Operon.Gen.CascadeTable

/-- (max_amplification, halt_on_failure, stages as (checkpoint 0 none 1 pass 2 reject 3 raise, 4 / 5 / 6 = pass / reject / raise
    by a gate OBJECT whose own truth value is false, processor 0 ok 1 raise,
    handler 0 none 1 ok 2 raise, required), success, final output, stages_completed, index of blocked_at, (stage, status
    0 completed 1 failed 2 skipped 3 blocked), callback log (kind 0 checkpoint / 1 processor / 2 handler, stage, signal,
    checkpoint result 0 false 1 true 2 raised), total amplification) for input signal 1, factor 2 per stage; max 4 never
    clamps, max 3 clamps after two completed stages, max 1 clamps at the first, max 0 (one-stage pipelines) holds the gain at
    0 from the start -/
abbrev Row := Nat × Bool × List (Nat × Nat × Nat × Bool) × Bool × Option Nat × Nat × Option Nat × List (Nat × Nat) ×
  List (Nat × Nat × Nat × Nat) × Nat

{defs}def table : Option (List Row) := {table}

/-- the shipped MAPK preset evaluated (constructor factors 2, 3, 5): per tier (has a gate, factor, required, has a handler) and
    (tier index, abstract input 0 raw / k = dict of tier k, gate answer 0 false 1 true 2 raises 3 no gate, tier of the processor's
    output or 9 = raises) -/
def mapkFacts : Option (List (Bool × Nat × Bool × Bool) × List (Nat × Nat × Nat × Nat)) := {mapk_s}

/-- the history of the real Cascade evaluated: (final outputs of the records kept after 1005 runs on the inputs 0..1004, number of
    records after a following run_parallel, after one more run, the record of a run whose on_cascade_complete raised is kept, a
    failed fork of an empty cascade records nothing, final outputs handed out by get_history(k) on the five-record history
    0..4 for k = -7..7, number of records handed out by get_history() on a 105-record history) -/
def histFacts : Option (List Nat × Nat × Nat × Bool × Bool × List (Int × List Nat) × Nat) := {hist_s}

/-- `get_statistics()` of the three cascades driven for `histFacts` (the 1005 + fork + 1 runs, the run whose completion observer
    raised, the fork of an empty cascade): (runs_count, successful_runs, failed_runs) -/
def statFacts : Option (List (Nat × Nat × Nat)) := {stats_s}

/-- `AgentCascade.add_agent_stage` evaluated with a stub agent class: (0 run / run_parallel / get_history are the inherited ones,
    1 the checkpoint handed in is the stage's gate, 2 none handed in: ungated, 3 no error handler, 4 required, 5 the agent is
    built on the cascade's budget, 6 a raw signal reaches express as Signal(content=str(x)) and the payload is returned as it
    is, 7 a Signal is handed over as it is, 8 an exception of express is the processor's, 9 one stage per call in order,
    10 named after the agent), factor of a stage registered with amplification=3, factor registered by default -/
def agentFacts : Option (List Bool × Nat × Nat) := {agent_s}

end Operon.Gen.CascadeTable
"""
