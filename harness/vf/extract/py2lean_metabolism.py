"""py2lean (metabolism): translate the lock-region bodies of ATP_Store from the Python AST of the tree under test
into Lean definitions over `Operon.Atp.Store` -> lean/Operon/Gen/AtpTranslated.lean (regenerated on every run).

The theorems `c04_translation_agrees_<op>` (Props/C04.lean) prove each translated function equal to the
hand-written model function, so every C04/C05 theorem about the model is a theorem about what this translator
read from the source *now*; a behavioural change of a region body breaks the agreement theorem by name, a
harmless rewrite inside the supported subset keeps everything green.

Translated: consume, regenerate, transfer_to (its `with self._lock:` block = withdraw half; the tail must be
`other.regenerate(amount, energy_type)` [print] `return True` = deposit half), convert_nadh_to_atp,
enter_dormancy, exit_dormancy, apply_debt_interest, reset.

Method: symbolic execution of the statement list.  The environment maps every `self.<field>` and every local
to a Lean expression over the initial store `s` and the parameters; an `if` forks the execution (the rest of the
statement list is run in both branches — early `return`s need no special treatment), tests of `energy_type`
already decided on the path are resolved statically; the result is a tree of `if … then … else …` whose leaves
are `(<store literal>, <result>)`.

Supported subset (anything else => the definition of that operation is replaced by one that cannot agree with the
model, and the construct met is named in a comment — fail closed):
  assignments / augmented assignments (+=, -=) to `self.<known field>` and to locals; `if/elif/else`;
  comparisons (one operator), `and` / `or` / `not`; `min`, `max`; integer literals, + - *; `True/False/None`;
  `energy_type == EnergyType.X`, `self._state == MetabolicState.X`, `self._state = MetabolicState.X`;
  `int(self._debt * self.debt_interest)` (-> floor of debt * rateNum / rateDen);
  `with self._lock:` (transparent); an `if` whose body is only `print(...)` (dropped); `return <bool|int local|None>`;
  `self._record_transaction(...)` (-> `record`: ntx := min (ntx + 1) 1000); `self._transactions.clear()` (ntx := 0);
  `self._update_state()` as the last effect of a path, optionally followed by prints and `return <v>`
  (-> `updateStateO cls obs <store>` / `thenReturn (updateStateO …) v`).
"""
from __future__ import annotations

import ast
from pathlib import Path

OUT_REL = "Operon/Gen/AtpTranslated.lean"

FIELDS = {  # python attribute -> (lean field, type)
    "atp": ("atp", "int"), "gtp": ("gtp", "int"), "nadh": ("nadh", "int"),
    "max_atp": ("maxAtp", "int"), "max_gtp": ("maxGtp", "int"), "max_nadh": ("maxNadh", "int"),
    "_debt": ("debt", "int"), "max_debt": ("maxDebt", "int"), "_state": ("state", "state"),
    "_total_consumed": ("consumed", "int"), "_total_regenerated": ("regenerated", "int"),
    "_operations_count": ("ops", "nat"), "_failed_operations": ("failed", "nat"),
}
ORDER = ["atp", "gtp", "nadh", "maxAtp", "maxGtp", "maxNadh", "debt", "maxDebt", "state", "consumed", "regenerated",
         "ops", "failed", "ntx"]
CURS = {"ATP": "atp", "GTP": "gtp", "NADH": "nadh"}
STATES = {"NORMAL": "normal", "CONSERVING": "conserving", "STARVING": "starving", "FEASTING": "feasting",
          "DORMANT": "dormant"}


class Unsupported(Exception):
    pass


class Env:
    def __init__(self, params):
        self.fields = {}                 # lean field -> expr (only the changed ones)
        self.locals = {}                 # name -> (expr, type)
        self.params = params             # python name -> (lean expr, type)
        self.cur = {"atp", "gtp", "nadh"}  # what energy_type can still be on this path
        self.updated = False             # _update_state() already executed on this path

    def copy(self):
        e = Env(self.params)
        e.fields, e.locals, e.cur, e.updated = dict(self.fields), dict(self.locals), set(self.cur), self.updated
        return e

    def field(self, lean):
        return self.fields.get(lean, f"s.{lean}")

    def store(self):
        if not self.fields:
            return "s"
        return "{ s with " + ", ".join(f"{k} := {self.fields[k]}" for k in ORDER if k in self.fields) + " }"


def paren(e: str) -> str:
    return e if e.replace(".", "").replace("_", "").isalnum() or (e.startswith("(") and e.endswith(")") and e.count("(") == 1) else f"({e})"


class Translator:
    def __init__(self, fn: ast.FunctionDef, params: dict, kind: str, ret_type: str):
        self.fn, self.params, self.kind, self.ret_type = fn, params, kind, ret_type
        # kind: 'except' (result Store × Except Exc ret), 'plain' (Store × ret), 'store' (Store)

    # ---- expressions ---------------------------------------------------------------------------------------
    def expr(self, n, env: Env):
        if isinstance(n, ast.Constant):
            if n.value is True:
                return "true", "bool"
            if n.value is False:
                return "false", "bool"
            if n.value is None:
                return "()", "unit"
            if isinstance(n.value, int):
                return str(n.value), "lit"
            raise Unsupported(f"constant {n.value!r}")
        if isinstance(n, ast.Name):
            if n.id in env.locals:
                return env.locals[n.id]
            if n.id in env.params:
                return env.params[n.id]
            raise Unsupported(f"unknown name {n.id}")
        if isinstance(n, ast.Attribute) and isinstance(n.value, ast.Name) and n.value.id == "self":
            if n.attr in FIELDS:
                lean, ty = FIELDS[n.attr]
                return env.field(lean), ty
            raise Unsupported(f"self.{n.attr} read")
        if isinstance(n, ast.BinOp) and isinstance(n.op, (ast.Add, ast.Sub, ast.Mult)):
            a, ta = self.expr(n.left, env)
            b, tb = self.expr(n.right, env)
            if not {ta, tb} <= {"int", "nat", "lit"}:
                raise Unsupported("arithmetic on non-integers")
            ty = "int" if "int" in (ta, tb) else ("nat" if "nat" in (ta, tb) else "lit")
            op = {ast.Add: "+", ast.Sub: "-", ast.Mult: "*"}[type(n.op)]
            return f"{paren(a)} {op} {paren(b)}", ty
        if isinstance(n, ast.Call) and isinstance(n.func, ast.Name) and n.func.id in ("min", "max") and not n.keywords \
                and len(n.args) >= 2:
            parts = [self.expr(a, env) for a in n.args]
            if not all(t in ("int", "nat", "lit") for _, t in parts):
                raise Unsupported("min/max of non-integers")
            acc = parts[0][0]
            for p, _ in parts[1:]:
                acc = f"{n.func.id} {paren(acc)} {paren(p)}"
            return acc, "int"
        if isinstance(n, ast.Call) and isinstance(n.func, ast.Name) and n.func.id == "int" and len(n.args) == 1:
            a = n.args[0]
            if isinstance(a, ast.BinOp) and isinstance(a.op, ast.Mult):
                for x, y in ((a.left, a.right), (a.right, a.left)):
                    if isinstance(y, ast.Attribute) and isinstance(y.value, ast.Name) and y.value.id == "self" \
                            and y.attr == "debt_interest":
                        d, td = self.expr(x, env)
                        if td == "int":
                            return f"{paren(d)} * s.rateNum / s.rateDen", "int"
            raise Unsupported("int(...) other than int(<int> * self.debt_interest)")
        raise Unsupported(f"expression {ast.dump(n)[:70]}")

    # ---- conditions: returns (lean prop | True | False, env_if_true, env_if_false) ----------------------------
    def cond(self, n, env: Env):
        if isinstance(n, ast.BoolOp) and isinstance(n.op, ast.And):
            props, cur_env = [], env
            for v in n.values:
                p, et, _ = self.cond(v, cur_env)
                if p is False:
                    return False, None, env
                if p is not True:
                    props.append(p)
                cur_env = et
            if not props:
                return True, cur_env, None
            return " ∧ ".join(paren(p) for p in props), cur_env, env
        if isinstance(n, ast.BoolOp) and isinstance(n.op, ast.Or):
            props, cur_env = [], env
            for v in n.values:
                p, _, ef = self.cond(v, cur_env)
                if p is True:
                    return True, env, None
                if p is not False:
                    props.append(p)
                cur_env = ef
            if not props:
                return False, None, cur_env
            return " ∨ ".join(paren(p) for p in props), env, cur_env
        if isinstance(n, ast.UnaryOp) and isinstance(n.op, ast.Not):
            p, et, ef = self.cond(n.operand, env)
            if p is True:
                return False, None, et
            if p is False:
                return True, ef, None
            return f"¬ {paren(p)}", ef, et
        if isinstance(n, ast.Compare) and len(n.ops) == 1:
            l, r, op = n.left, n.comparators[0], n.ops[0]
            # energy_type == EnergyType.X
            if isinstance(l, ast.Name) and l.id == "energy_type" and isinstance(op, (ast.Eq, ast.NotEq)) \
                    and isinstance(r, ast.Attribute) and isinstance(r.value, ast.Name) and r.value.id == "EnergyType" \
                    and r.attr in CURS:
                x = CURS[r.attr]
                if isinstance(op, ast.NotEq):
                    p, et, ef = self.cond(ast.Compare(left=l, ops=[ast.Eq()], comparators=[r]), env)
                    return (not p if isinstance(p, bool) else f"¬ {paren(p)}"), ef, et
                if env.cur == {x}:
                    return True, env, None
                if x not in env.cur:
                    return False, None, env
                et, ef = env.copy(), env.copy()
                et.cur, ef.cur = {x}, env.cur - {x}
                return f"cur = Cur.{x}", et, ef
            # self._state == MetabolicState.X
            if isinstance(l, ast.Attribute) and isinstance(l.value, ast.Name) and l.value.id == "self" and l.attr == "_state" \
                    and isinstance(op, ast.Eq) and isinstance(r, ast.Attribute) and isinstance(r.value, ast.Name) \
                    and r.value.id == "MetabolicState" and r.attr in STATES:
                return f"{env.field('state')} = MState.{STATES[r.attr]}", env, env
            a, ta = self.expr(l, env)
            b, tb = self.expr(r, env)
            if not {ta, tb} <= {"int", "nat", "lit"}:
                raise Unsupported("comparison of non-integers")
            a, b = paren(a), paren(b)
            if isinstance(op, ast.GtE):
                return f"{b} ≤ {a}", env, env
            if isinstance(op, ast.Gt):
                return f"{b} < {a}", env, env
            if isinstance(op, ast.LtE):
                return f"{a} ≤ {b}", env, env
            if isinstance(op, ast.Lt):
                return f"{a} < {b}", env, env
            if isinstance(op, ast.Eq):
                return f"{a} = {b}", env, env
            raise Unsupported("comparison operator")
        if isinstance(n, ast.Name) and n.id in env.params and env.params[n.id][1] == "bool":
            return f"{env.params[n.id][0]} = true", env, env
        raise Unsupported(f"condition {ast.dump(n)[:70]}")

    # ---- statements ----------------------------------------------------------------------------------------
    @staticmethod
    def only_prints(body):
        return all(isinstance(st, ast.Expr) and isinstance(st.value, ast.Call) and isinstance(st.value.func, ast.Name)
                   and st.value.func.id == "print" for st in body)

    def leaf(self, env: Env, ret):
        """ret: lean value string or None (fell off the end)"""
        if self.kind == "store":
            if ret not in (None, "()"):
                raise Unsupported("value returned from a procedure")
            return env.store()
        if ret is None:
            ret = self.fall_through
            if ret is None:
                raise Unsupported("path falls off the end of a function that returns a value elsewhere")
        if self.kind == "plain":
            if env.updated:
                raise Unsupported("_update_state in a plain region")
            return f"({env.store()}, {ret})"
        # except
        if env.updated:
            u = f"updateStateO cls obs {paren(env.store())}"
            return u if self.ret_type == "Unit" else f"thenReturn ({u}) {ret}"
        return f"({env.store()}, Except.ok {ret})"

    def run(self, stmts, env: Env, ind: int) -> str:
        pad = "  " * ind
        if not stmts:
            return pad + self.leaf(env, None)
        st, rest = stmts[0], stmts[1:]
        if isinstance(st, ast.Expr) and isinstance(st.value, ast.Constant) and isinstance(st.value.value, str):
            return self.run(rest, env, ind)                       # docstring
        if isinstance(st, ast.With):
            ok = len(st.items) == 1 and isinstance(st.items[0].context_expr, ast.Attribute) \
                and st.items[0].context_expr.attr == "_lock" and st.items[0].optional_vars is None
            if not ok:
                raise Unsupported("with-statement other than `with self._lock:`")
            return self.run(list(st.body) + rest, env, ind)
        if isinstance(st, ast.Return):
            v = "()" if st.value is None else self.expr(st.value, env)[0]
            return pad + self.leaf(env, v)
        if isinstance(st, ast.If) and not st.orelse and self.only_prints(st.body):
            return self.run(rest, env, ind)                       # `if not self.silent: print(...)`
        if isinstance(st, ast.Expr) and isinstance(st.value, ast.Call) and isinstance(st.value.func, ast.Name) \
                and st.value.func.id == "print":
            return self.run(rest, env, ind)
        if env.updated:
            raise Unsupported("statement other than print/return after _update_state()")
        if isinstance(st, ast.If):
            p, et, ef = self.cond(st.test, env)
            if p is True:
                return self.run(list(st.body) + rest, et, ind)
            if p is False:
                return self.run(list(st.orelse) + rest, ef, ind)
            a = self.run(list(st.body) + rest, et.copy(), ind + 1)
            b = self.run(list(st.orelse) + rest, ef.copy(), ind + 1)
            return f"{pad}if {p} then\n{a}\n{pad}else\n{b}"
        if isinstance(st, (ast.Assign, ast.AugAssign)):
            if isinstance(st, ast.Assign):
                if len(st.targets) != 1:
                    raise Unsupported("multiple assignment targets")
                tgt, val = st.targets[0], st.value
            else:
                if not isinstance(st.op, (ast.Add, ast.Sub)):
                    raise Unsupported("augmented assignment other than += / -=")
                tgt = st.target
                val = ast.BinOp(left=tgt, op=st.op, right=st.value)
            env = env.copy()
            if isinstance(tgt, ast.Attribute) and isinstance(tgt.value, ast.Name) and tgt.value.id == "self":
                if tgt.attr not in FIELDS:
                    raise Unsupported(f"assignment to self.{tgt.attr}")
                lean, ty = FIELDS[tgt.attr]
                if ty == "state":
                    if isinstance(val, ast.Attribute) and isinstance(val.value, ast.Name) and val.value.id == "MetabolicState" \
                            and val.attr in STATES:
                        env.fields[lean] = f"MState.{STATES[val.attr]}"
                    else:
                        raise Unsupported("state assigned from something else than a MetabolicState member")
                else:
                    e, te = self.expr(val, env)
                    if te not in ("int", "nat", "lit") or (ty == "nat" and te == "int"):
                        raise Unsupported(f"type of value assigned to self.{tgt.attr}")
                    env.fields[lean] = e
                return self.run(rest, env, ind)
            if isinstance(tgt, ast.Name):
                e, te = self.expr(val, env)
                env.locals[tgt.id] = (e, "int" if te in ("lit", "nat") else te)
                return self.run(rest, env, ind)
            raise Unsupported("assignment target")
        if isinstance(st, ast.Expr) and isinstance(st.value, ast.Call):
            c = st.value
            f = c.func
            if isinstance(f, ast.Attribute) and isinstance(f.value, ast.Name) and f.value.id == "self":
                if f.attr == "_record_transaction":
                    env = env.copy()
                    env.fields["ntx"] = f"min ({env.field('ntx')} + 1) 1000"
                    return self.run(rest, env, ind)
                if f.attr == "_update_state" and not c.args and not c.keywords:
                    if self.kind != "except":
                        raise Unsupported("_update_state() in a region translated without exceptions")
                    env = env.copy()
                    env.updated = True
                    return self.run(rest, env, ind)
            if isinstance(f, ast.Attribute) and f.attr == "clear" and isinstance(f.value, ast.Attribute) \
                    and isinstance(f.value.value, ast.Name) and f.value.value.id == "self" and f.value.attr == "_transactions":
                env = env.copy()
                env.fields["ntx"] = "0"
                return self.run(rest, env, ind)
            raise Unsupported(f"call {ast.unparse(c)[:60]}")
        raise Unsupported(f"statement {type(st).__name__}")

    def translate(self, body, fall_through=None) -> str:
        self.fall_through = fall_through
        return self.run(list(body), Env(self.params), 1)


# ---------------------------------------------------------------------------------------------------------------
P_COST = {"cost": ("(cost : Int)", "int"), "priority": ("prio", "nat"), "allow_debt": ("allowDebt", "bool"),
          "energy_type": ("cur", "cur"), "operation": ("?", "str")}
P_AMOUNT = {"amount": ("(amount : Int)", "int"), "energy_type": ("cur", "cur")}

SPECS = [
    # (python method, lean name, lean binder list, result type, kind, ret type, params, fall_through, fail value)
    ("consume", "consumeT", "(cls : Classifier) (obs : Obs) (s : Store) (cost : Nat) (cur : Cur) (allowDebt : Bool) (prio : Nat)",
     "Store × Except Exc Bool", "except", "Bool", P_COST, None, "(s, Except.error (Exc.observer 4000001))"),
    ("regenerate", "regenerateT", "(cls : Classifier) (obs : Obs) (s : Store) (amount : Nat) (cur : Cur)",
     "Store × Except Exc Unit", "except", "Unit", P_AMOUNT, "()", "(s, Except.error (Exc.observer 4000002))"),
    ("transfer_to", "transferWithdrawT", "(s : Store) (amount : Nat) (cur : Cur)",
     "Store × Bool", "plain", "Bool", P_AMOUNT, "true", "({ s with ntx := s.ntx + 4000003 }, false)"),
    ("convert_nadh_to_atp", "convertT", "(s : Store) (amount : Nat)",
     "Store × Int", "plain", "Int", {"amount": ("(amount : Int)", "int")}, None, "({ s with ntx := s.ntx + 4000004 }, 0)"),
    ("enter_dormancy", "enterDormancyT", "(s : Store)", "Store", "store", "Unit", {}, "()", "{ s with ntx := s.ntx + 4000005 }"),
    ("exit_dormancy", "exitDormancyT", "(cls : Classifier) (obs : Obs) (s : Store)",
     "Store × Except Exc Unit", "except", "Unit", {}, "()", "(s, Except.error (Exc.observer 4000006))"),
    ("apply_debt_interest", "applyInterestT", "(s : Store)", "Store", "store", "Unit", {}, "()", "{ s with ntx := s.ntx + 4000007 }"),
    ("reset", "resetT", "(cls : Classifier) (obs : Obs) (s : Store)",
     "Store × Except Exc Unit", "except", "Unit", {}, "()", "(s, Except.error (Exc.observer 4000008))"),
]


def _method(tree, name):
    for n in tree.body:
        if isinstance(n, ast.ClassDef) and n.name == "ATP_Store":
            for m in n.body:
                if isinstance(m, ast.FunctionDef) and m.name == name:
                    return m
    raise Unsupported(f"ATP_Store.{name} not found")


def _transfer_parts(fn):
    """body of transfer_to -> (statements of the `with self._lock:` block, deposit-half recognised?)"""
    body = [st for st in fn.body if not (isinstance(st, ast.Expr) and isinstance(st.value, ast.Constant))]
    if not body or not isinstance(body[0], ast.With):
        raise Unsupported("transfer_to does not start with `with self._lock:`")
    tail = body[1:]
    if not tail:
        raise Unsupported("transfer_to: no deposit half")
    c = tail[0]
    ok = (isinstance(c, ast.Expr) and isinstance(c.value, ast.Call) and isinstance(c.value.func, ast.Attribute)
          and c.value.func.attr == "regenerate" and isinstance(c.value.func.value, ast.Name) and c.value.func.value.id == "other"
          and [ast.unparse(a) for a in c.value.args] == ["amount", "energy_type"] and not c.value.keywords)
    if not ok:
        raise Unsupported("transfer_to: the statement after the lock region is not other.regenerate(amount, energy_type)")
    rest = [st for st in tail[1:] if not (isinstance(st, ast.If) and not st.orelse and Translator.only_prints(st.body))]
    if not (len(rest) == 1 and isinstance(rest[0], ast.Return) and isinstance(rest[0].value, ast.Constant)
            and rest[0].value.value is True):
        raise Unsupported("transfer_to: tail is not `other.regenerate(...)`, optional print, `return True`")
    return [body[0]]


def translate_all(repo: Path):
    out, report = [], {}
    try:
        tree = ast.parse((repo / "operon_ai" / "state" / "metabolism.py").read_text())
    except Exception as e:  # noqa
        tree = None
        err = f"cannot parse metabolism.py: {e!r}"
    for (py, lean, binders, rty, kind, ret, params, fall, fail) in SPECS:
        try:
            if tree is None:
                raise Unsupported(err)
            fn = _method(tree, py)
            body = _transfer_parts(fn) if py == "transfer_to" else fn.body
            want = {"consume": ["self", "cost", "operation", "energy_type", "allow_debt", "priority"],
                    "regenerate": ["self", "amount", "energy_type"], "transfer_to": ["self", "other", "amount", "energy_type"],
                    "convert_nadh_to_atp": ["self", "amount"]}.get(py, ["self"])
            if [a.arg for a in fn.args.args] != want or fn.args.vararg or fn.args.kwarg or fn.args.kwonlyargs:
                raise Unsupported(f"signature of {py} is {[a.arg for a in fn.args.args]}")
            code = Translator(fn, params, kind, ret).translate(body, fall)
            out.append(f"/-- translated from `ATP_Store.{py}` -/\ndef {lean} {binders} : {rty} :=\n{code}\n")
            report[lean] = "ok"
        except Unsupported as e:
            out.append(f"/-- `ATP_Store.{py}` is OUTSIDE the supported subset: {str(e)[:150]} — this definition cannot agree "
                       f"with the model (fail closed) -/\ndef {lean} {binders} : {rty} :=\n  {fail}\n")
            report[lean] = f"unsupported: {e}"
    # deposit half = the peer's regenerate
    out.append("/-- second half of `transfer_to`: `other.regenerate(amount, energy_type)` on the peer -/\n"
               "def transferDepositT (cls : Classifier) (obs : Obs) (other : Store) (amount : Nat) (cur : Cur) :\n"
               "    Store × Except Exc Unit :=\n  regenerateT cls obs other amount cur\n")
    head = ("/- GENERATED by harness/vf/extract/py2lean_metabolism.py from operon_ai/state/metabolism.py — do not edit. -/\n"
            "import Operon.Model.Atp\nnamespace Operon.Gen.AtpT\nopen Operon.Atp\n\n")
    return head + "\n".join(out) + "\nend Operon.Gen.AtpT\n", report


def run(repo: Path, lean: Path, write_if_changed) -> dict:
    text, report = translate_all(repo)
    changed = write_if_changed(lean / OUT_REL, text)
    return {"id": "py2lean-metabolism", "facts_changed": bool(changed),
            "unsupported": {k: v for k, v in report.items() if v != "ok"}, "translated": [k for k, v in report.items() if v == "ok"]}
