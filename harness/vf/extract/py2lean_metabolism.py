"""py2lean (metabolism): translate the lock-region bodies of ATP_Store from the Python AST of the tree under test
into Lean definitions over `Operon.Atp.Store` -> lean/Operon/Gen/AtpTranslated.lean (regenerated on every run).

The theorems `c04_translation_agrees_<op>` (Props/C04.lean) prove each translated function equal to the
hand-written model function, so every C04/C05 theorem about the model is a theorem about what this translator
read from the source *now*; a behavioural change of a region body breaks the agreement theorem by name, a
behaviour-preserving rewrite inside the supported subset keeps everything green.

Translated: consume, regenerate, transfer_to (its `with self._lock:` block = withdraw half; the tail must be
`other.regenerate(amount, energy_type)` [prints/logging] `return True` = deposit half), convert_nadh_to_atp,
enter_dormancy, exit_dormancy, apply_debt_interest, reset.

Method: symbolic execution of the statement lists in continuation-passing style.  The state maps every model
field to a Lean expression over the initial store `s` and the parameters; an `if` forks the execution (the rest
of the statement list runs in both branches, so early `return`s need no special treatment); tests of the currency
already decided on the path are resolved statically; the result is a tree of `if … then … else …` whose leaves
are `(<store literal>, <result>)`.

What the model fields ARE is read off the public getters (so private storage may move freely): the values of
`get_statistics()`'s dict (atp, gtp, nadh, max_*, debt, total_consumed, total_regenerated, operations_count,
failed_operations, state) and `get_report().transactions_count = len(<list>)` name the attribute paths
(`self._debt`, `self._counters.consumed`, …) that stand for the model's fields; `max_debt` and `debt_interest`
are the public constructor attributes.

Robust to (resolved, not pattern-matched):
  * helper methods: any `self.<m>(…)`, `ATP_Store.<m>(…)`, `type(self).<m>(…)`, static methods, and methods of
    private sub-objects created in `__init__` (`self._counters.clear()`) are inlined by call graph, whatever their
    names, with positional/keyword/default arguments bound; helper calls inside expressions and conditions are
    hoisted in evaluation order;
  * `getattr(self, name)` / `setattr(self, name, v)` when `name` is a string known on the path (e.g. returned by a
    helper that case-splits on the currency);
  * class / module constants and class tables (`for a, b, c in self._TABLE:` is unrolled) — resolved to their values
    by evaluating the imported module;
  * local renames, temporaries, re-ordering of independent statements, docstrings, annotations, `-> None`, new
    parameters with defaults (bound to the default), prints, `logging`/logger calls with side-effect-free arguments;
  * `f(a, b)` for a plain module-level function f that IS `int(a * b)` on a probe grid (evaluated: a product helper that
    switches to exact integer arithmetic beyond the float range is such a function) is read as `int(a * b)`;
  * new methods that are never called from a region body (read-only getters, `__repr__`) are simply not visited.
`self._record_transaction(...)` and `self._update_state()` stay mapped by name to the model's `record` /
`updateStateO` (their bodies — the list trimming, the float classifier and the observer call — are tied by the
correspondence and by E5-metabolism); `<transactions>.clear()` is `ntx := 0`.

Fail closed: anything else (loops over non-constant iterables, `while`, `try`, comprehension, unknown calls,
writes to unknown attributes, `_update_state()` followed by further effects, helper calls under short-circuit
operands, recursion) replaces the definition of THAT operation by one that cannot agree with the model and names
the construct; the generated file always elaborates.
"""
from __future__ import annotations

import ast
import copy
import enum
import importlib
import logging
import os
from pathlib import Path

OUT_REL = "Operon/Gen/AtpTranslated.lean"

ORDER = ["atp", "gtp", "nadh", "maxAtp", "maxGtp", "maxNadh", "debt", "maxDebt", "state", "consumed", "regenerated",
         "ops", "failed", "ntx"]
STAT_KEYS = {"atp": ("atp", "int"), "gtp": ("gtp", "int"), "nadh": ("nadh", "int"), "max_atp": ("maxAtp", "int"),
             "max_gtp": ("maxGtp", "int"), "max_nadh": ("maxNadh", "int"), "debt": ("debt", "int"),
             "total_consumed": ("consumed", "int"), "total_regenerated": ("regenerated", "int"),
             "operations_count": ("ops", "nat"), "failed_operations": ("failed", "nat"), "state": ("state", "state")}
CURS = {"ATP": "atp", "GTP": "gtp", "NADH": "nadh"}
STATES = {"NORMAL": "normal", "CONSERVING": "conserving", "STARVING": "starving", "FEASTING": "feasting",
          "DORMANT": "dormant"}
MAPPED = {"_record_transaction", "_update_state"}
MAX_DEPTH = 8


class Unsupported(Exception):
    pass


class StaticVal(ast.expr):
    """an already evaluated value spliced into the AST (result of an inlined helper, element of a constant table)"""
    _fields = ()

    def __init__(self, val):
        super().__init__()
        self.val = val


def paren(e: str) -> str:
    return e if e.replace(".", "").replace("_", "").isalnum() or (e.startswith("(") and e.endswith(")") and e.count("(") == 1) else f"({e})"


class State:
    """what is shared along a path: the symbolic store, what is known about the currency, whether _update_state ran"""

    def __init__(self):
        self.fields = {}
        self.cur = {"atp", "gtp", "nadh"}
        self.updated = False

    def copy(self):
        s = State()
        s.fields, s.cur, s.updated = dict(self.fields), set(self.cur), self.updated
        return s

    def field(self, lean):
        return self.fields.get(lean, f"s.{lean}")

    def store(self):
        if not self.fields:
            return "s"
        return "{ s with " + ", ".join(f"{k} := {self.fields[k]}" for k in ORDER if k in self.fields) + " }"


class Frame:
    def __init__(self, locals_, selfpath, depth):
        self.locals, self.selfpath, self.depth = locals_, selfpath, depth

    def copy(self):
        return Frame(dict(self.locals), self.selfpath, self.depth)


class Source:
    """the module under test: AST + imported objects + the field map derived from the public getters"""

    def __init__(self, repo: Path):
        try:
            self.module = importlib.import_module("operon_ai.state.metabolism")
        except Exception as e:  # noqa
            raise Unsupported(f"cannot import operon_ai.state.metabolism: {e!r}")
        f = os.path.realpath(getattr(self.module, "__file__", "") or "")
        if not f.startswith(os.path.realpath(str(repo)) + os.sep):
            raise Unsupported(f"metabolism imported from {f}, not from {repo}")
        self.tree = ast.parse(Path(f).read_text())
        self.classes = {n.name: n for n in self.tree.body if isinstance(n, ast.ClassDef)}
        if "ATP_Store" not in self.classes:
            raise Unsupported("class ATP_Store not found")
        self.cls = getattr(self.module, "ATP_Store")
        self.subobjects = self._subobjects()
        self.fieldmap, self.txpath = self._fieldmap()

    def methods(self, classname):
        c = self.classes.get(classname)
        return {} if c is None else {m.name: m for m in c.body if isinstance(m, ast.FunctionDef)}

    def _subobjects(self):
        """self.<x> = <ClassName>(...) in __init__, for classes defined in this module"""
        out = {}
        init = self.methods("ATP_Store").get("__init__")
        if init is None:
            return out
        for n in ast.walk(init):
            tgt = val = None
            if isinstance(n, ast.Assign) and len(n.targets) == 1:
                tgt, val = n.targets[0], n.value
            elif isinstance(n, ast.AnnAssign) and n.value is not None:
                tgt, val = n.target, n.value
            if isinstance(tgt, ast.Attribute) and isinstance(tgt.value, ast.Name) and tgt.value.id == "self" \
                    and isinstance(val, ast.Call) and isinstance(val.func, ast.Name) and val.func.id in self.classes:
                out[(tgt.attr,)] = val.func.id
        return out

    @staticmethod
    def _path(node, aliases):
        """attribute chain rooted at self (or at a local alias of such a chain) -> tuple of names"""
        parts = []
        while isinstance(node, ast.Attribute):
            parts.append(node.attr)
            node = node.value
        if isinstance(node, ast.Name):
            if node.id == "self":
                return tuple(reversed(parts))
            if node.id in aliases:
                return aliases[node.id] + tuple(reversed(parts))
        return None

    def _fieldmap(self):
        ms = self.methods("ATP_Store")
        fm = {("max_debt",): ("maxDebt", "int"), ("debt_interest",): ("RATE", "rate")}
        gs = ms.get("get_statistics")
        if gs is None:
            raise Unsupported("get_statistics not found (the model's fields are what it reports)")
        aliases, ret = {}, None
        for st in gs.body:
            if isinstance(st, ast.Assign) and len(st.targets) == 1 and isinstance(st.targets[0], ast.Name):
                p = self._path(st.value, aliases)
                if p is not None:
                    aliases[st.targets[0].id] = p
            if isinstance(st, ast.Return):
                ret = st.value
        if not isinstance(ret, ast.Dict):
            raise Unsupported("get_statistics does not return a dict literal")
        seen = set()
        for k, v in zip(ret.keys, ret.values):
            if isinstance(k, ast.Constant) and k.value in STAT_KEYS:
                lean, ty = STAT_KEYS[k.value]
                if k.value == "state" and isinstance(v, ast.Attribute) and v.attr == "value":
                    v = v.value
                p = self._path(v, aliases)
                if p is None or not p:
                    raise Unsupported(f"get_statistics['{k.value}'] is not an attribute of the store")
                fm[p] = (lean, ty)
                seen.add(k.value)
        if seen != set(STAT_KEYS):
            raise Unsupported(f"get_statistics lacks {sorted(set(STAT_KEYS) - seen)}")
        txpath = ("_transactions",)
        gr = ms.get("get_report")
        if gr is not None:
            for n in ast.walk(gr):
                if isinstance(n, ast.keyword) and n.arg == "transactions_count" and isinstance(n.value, ast.Call) \
                        and isinstance(n.value.func, ast.Name) and n.value.func.id == "len" and len(n.value.args) == 1:
                    p = self._path(n.value.args[0], {})
                    if p:
                        txpath = p
        return fm, txpath

    def static(self, obj):
        """a Python value of the module under test -> translator value"""
        if obj is None:
            return "()", "unit"
        if isinstance(obj, bool):
            return ("true" if obj else "false"), "bool"
        if isinstance(obj, int):
            if obj < 0:
                raise Unsupported("negative integer constant")
            return str(obj), "lit"
        if isinstance(obj, str):
            return obj, "str"
        if isinstance(obj, enum.Enum):
            if isinstance(obj, getattr(self.module, "EnergyType", ())) and obj.name in CURS:
                return CURS[obj.name], "curconst"
            if isinstance(obj, getattr(self.module, "MetabolicState", ())) and obj.name in STATES:
                return f"MState.{STATES[obj.name]}", "stateconst"
            raise Unsupported(f"enum member {obj!r}")
        if isinstance(obj, (tuple, list)):
            return [self.static(x) for x in obj], "tuple"
        if isinstance(obj, logging.Logger) or obj is logging:
            return None, "logger"
        raise Unsupported(f"constant of type {type(obj).__name__}")


class Translator:
    def __init__(self, src: Source, kind: str, ret_type: str, fall_through):
        self.src, self.kind, self.ret_type, self.fall_through = src, kind, ret_type, fall_through

    # ---- values -------------------------------------------------------------------------------------------------
    def global_value(self, node):
        """value of a Name / attribute chain rooted at a module-level name (EnergyType.ATP, _LIMIT, logger)"""
        parts = []
        n = node
        while isinstance(n, ast.Attribute):
            parts.append(n.attr)
            n = n.value
        if not isinstance(n, ast.Name) or not hasattr(self.src.module, n.id):
            return None
        obj = getattr(self.src.module, n.id)
        for a in reversed(parts):
            if not hasattr(obj, a):
                return None
            obj = getattr(obj, a)
        return self.src.static(obj)

    def self_attr(self, path, st: State):
        fm = self.src.fieldmap
        if path in fm:
            lean, ty = fm[path]
            return ("RATE", "rate") if ty == "rate" else (st.field(lean), ty)
        if path == self.src.txpath:
            return None, "txlist"
        if len(path) == 1 and hasattr(self.src.cls, path[0]) and not callable(getattr(self.src.cls, path[0])):
            return self.src.static(getattr(self.src.cls, path[0]))       # class constant read through self
        raise Unsupported(f"read of self.{'.'.join(path)}")

    def expr(self, n, st: State, fr: Frame):
        if isinstance(n, StaticVal):
            return n.val
        if isinstance(n, ast.Constant):
            if n.value is True or n.value is False or n.value is None or isinstance(n.value, (int, str)):
                return self.src.static(n.value)
            raise Unsupported(f"constant {n.value!r}")
        if isinstance(n, ast.JoinedStr):
            return "?", "str"
        if isinstance(n, ast.Name):
            if n.id in fr.locals:
                return fr.locals[n.id]
            g = self.global_value(n)
            if g is not None:
                return g
            raise Unsupported(f"unknown name {n.id}")
        if isinstance(n, ast.Attribute):
            p = Source._path(n, {})
            if p is not None:
                return self.self_attr(fr.selfpath + p, st)
            g = self.global_value(n)
            if g is not None:
                return g
            # <enum-valued expression>.value used in messages only
            raise Unsupported(f"attribute {ast.unparse(n)[:50]}")
        if isinstance(n, ast.Tuple):
            return [self.expr(e, st, fr) for e in n.elts], "tuple"
        if isinstance(n, ast.UnaryOp) and isinstance(n.op, ast.USub):
            a, ta = self.expr(n.operand, st, fr)
            if ta in ("int", "lit"):
                return f"-{paren(a)}", "int"
            raise Unsupported("negation of a non-integer")
        if isinstance(n, ast.BinOp) and isinstance(n.op, (ast.Add, ast.Sub, ast.Mult)):
            a, ta = self.expr(n.left, st, fr)
            b, tb = self.expr(n.right, st, fr)
            if isinstance(n.op, ast.Mult) and "rate" in (ta, tb):
                d, td = (a, ta) if tb == "rate" else (b, tb)
                if td == "int":
                    return d, "int*rate"
            if not {ta, tb} <= {"int", "nat", "lit"}:
                raise Unsupported(f"arithmetic on {ta}/{tb}")
            ty = "int" if "int" in (ta, tb) else ("nat" if "nat" in (ta, tb) else "lit")
            op = {ast.Add: "+", ast.Sub: "-", ast.Mult: "*"}[type(n.op)]
            return f"{paren(a)} {op} {paren(b)}", ty
        if isinstance(n, ast.Call) and isinstance(n.func, ast.Name) and not n.keywords:
            f = n.func.id
            if f in ("min", "max") and len(n.args) >= 2:
                parts = [self.expr(a, st, fr) for a in n.args]
                if not all(t in ("int", "nat", "lit") for _, t in parts):
                    raise Unsupported("min/max of non-integers")
                acc = parts[0][0]
                for p, _ in parts[1:]:
                    acc = f"{f} {paren(acc)} {paren(p)}"
                return acc, "int"
            if f == "int" and len(n.args) == 1:
                a, ta = self.expr(n.args[0], st, fr)
                if ta == "int*rate":
                    return f"{paren(a)} * s.rateNum / s.rateDen", "int"
                if ta in ("int", "nat", "lit"):
                    return a, ta
                raise Unsupported("int(...) of something else than <int> * debt_interest")
            if f == "getattr" and len(n.args) == 2:
                return self.self_attr(self.attr_target(n.args[0], n.args[1], st, fr), st)
            if len(n.args) == 2 and self._is_int_product(getattr(self.src.module, f, None)):
                # a plain module-level function that IS int(a * b) (evaluated on a probe grid; it may only differ where the
                # float product leaves the float range, which the model's exact arithmetic does not have)
                return self.expr(ast.Call(func=ast.Name(id="int", ctx=ast.Load()),
                                          args=[ast.BinOp(left=n.args[0], op=ast.Mult(), right=n.args[1])], keywords=[]), st, fr)
        if isinstance(n, ast.Call) and isinstance(n.func, ast.Attribute) and len(n.args) == 2 and not n.keywords \
                and self._is_int_product(self._self_method(n)):
            return self.expr(ast.Call(func=ast.Name(id="int", ctx=ast.Load()),
                                      args=[ast.BinOp(left=n.args[0], op=ast.Mult(), right=n.args[1])], keywords=[]), st, fr)
        raise Unsupported(f"expression {ast.unparse(n)[:60]}")

    def _self_method(self, c):
        """the bound method a call `self.<m>(…)` / `ATP_Store.<m>(…)` resolves to, on a throw-away instance (None if it is not one)"""
        f = c.func
        if not (isinstance(f, ast.Attribute) and isinstance(f.value, ast.Name) and f.value.id in ("self", "ATP_Store")):
            return None
        try:
            return getattr(self.src.cls(budget=1, silent=True), f.attr, None)
        except Exception:  # noqa
            return None

    def _is_int_product(self, f) -> bool:
        if not callable(f) or isinstance(f, type) or getattr(f, "__module__", None) != self.src.module.__name__:
            return False
        probes = [(0, 0.1), (1, 0.1), (7, 0.5), (10, 0.1), (30, 0.1), (10, 0.7), (99, 0.25), (1000, 1.0), (12345, 2.0),
                  (3, 0.0), (10 ** 12 + 7, 0.1), (2 ** 53 + 3, 0.5), (2 ** 70 + 12345, 0.1), (17, 1), (17, 0)]
        try:
            return all(type(f(a, r)) is int and f(a, r) == int(a * r) for a, r in probes)
        except Exception:  # noqa
            return False

    def attr_target(self, obj, name, st, fr):
        if not (isinstance(obj, ast.Name) and obj.id == "self"):
            raise Unsupported("getattr/setattr on something else than self")
        v, t = self.expr(name, st, fr)
        if t != "str":
            raise Unsupported("getattr/setattr with an attribute name that is not known on this path")
        return fr.selfpath + (v,)

    # ---- conditions: (lean prop | True | False, state_if_true, state_if_false) -----------------------------------
    def cond(self, n, st: State, fr: Frame):
        if isinstance(n, ast.BoolOp) and isinstance(n.op, ast.And):
            props, cur = [], st
            for v in n.values:
                p, et, _ = self.cond(v, cur, fr)
                if p is False:
                    return False, None, st
                if p is not True:
                    props.append(p)
                cur = et
            if not props:
                return True, cur, None
            return " ∧ ".join(paren(p) for p in props), cur, st
        if isinstance(n, ast.BoolOp) and isinstance(n.op, ast.Or):
            props, cur = [], st
            for v in n.values:
                p, _, ef = self.cond(v, cur, fr)
                if p is True:
                    return True, st, None
                if p is not False:
                    props.append(p)
                cur = ef
            if not props:
                return False, None, cur
            return " ∨ ".join(paren(p) for p in props), st, cur
        if isinstance(n, ast.UnaryOp) and isinstance(n.op, ast.Not):
            p, et, ef = self.cond(n.operand, st, fr)
            if p is True:
                return False, None, et
            if p is False:
                return True, ef, None
            return f"¬ {paren(p)}", ef, et
        if isinstance(n, ast.Compare) and len(n.ops) == 1:
            op = n.ops[0]
            a, ta = self.expr(n.left, st, fr)
            b, tb = self.expr(n.comparators[0], st, fr)
            if isinstance(op, (ast.Is, ast.IsNot)) and "unit" in (ta, tb):
                same = ta == tb
                return (same if isinstance(op, ast.Is) else not same), st, st
            if isinstance(op, (ast.Eq, ast.NotEq)) and {ta, tb} <= {"cur", "curconst"}:
                neg = isinstance(op, ast.NotEq)
                if ta == tb == "curconst":
                    r = (a == b) != neg
                    return r, st, st
                if ta == tb == "cur":
                    return (not neg), st, st
                x = b if tb == "curconst" else a
                if st.cur == {x}:
                    r = (True, st, None)
                elif x not in st.cur:
                    r = (False, None, st)
                else:
                    et, ef = st.copy(), st.copy()
                    et.cur, ef.cur = {x}, st.cur - {x}
                    r = (f"cur = Cur.{x}", et, ef)
                if neg:
                    p, et, ef = r
                    return ((not p) if isinstance(p, bool) else f"¬ {paren(p)}"), ef, et
                return r
            if isinstance(op, (ast.Eq, ast.NotEq)) and {ta, tb} <= {"state", "stateconst"}:
                if ta == tb == "stateconst":
                    return ((a == b) != isinstance(op, ast.NotEq)), st, st
                p = f"{a} = {b}"
                return (p if isinstance(op, ast.Eq) else f"¬ ({p})"), st, st
            if not {ta, tb} <= {"int", "nat", "lit"}:
                raise Unsupported(f"comparison of {ta} with {tb}")
            a, b = paren(a), paren(b)
            table = {ast.GtE: f"{b} ≤ {a}", ast.Gt: f"{b} < {a}", ast.LtE: f"{a} ≤ {b}", ast.Lt: f"{a} < {b}",
                     ast.Eq: f"{a} = {b}", ast.NotEq: f"¬ ({a} = {b})"}
            if type(op) not in table:
                raise Unsupported("comparison operator")
            return table[type(op)], st, st
        v, t = self.expr(n, st, fr)
        if t == "bool":
            if v in ("true", "false"):
                return v == "true", st, st
            return f"{v} = true", st, st
        if t == "unit":
            return False, st, st
        raise Unsupported(f"condition {ast.unparse(n)[:60]}")

    # ---- helper calls --------------------------------------------------------------------------------------------
    def resolve_call(self, c, fr: Frame):
        """-> (FunctionDef, selfpath for the callee or None for static, classname) if c calls a method of this module"""
        f = c.func
        if not isinstance(f, ast.Attribute):
            return None
        recv = f.value
        path = Source._path(recv, {}) if not (isinstance(recv, ast.Name) and recv.id == "self") else ()
        cls_call = (isinstance(recv, ast.Name) and recv.id == "ATP_Store") or \
                   (isinstance(recv, ast.Call) and isinstance(recv.func, ast.Name) and recv.func.id == "type"
                    and len(recv.args) == 1 and isinstance(recv.args[0], ast.Name) and recv.args[0].id == "self") or \
                   (isinstance(recv, ast.Attribute) and recv.attr == "__class__" and isinstance(recv.value, ast.Name)
                    and recv.value.id == "self")
        if cls_call:
            path = ()
        if path is None:
            return None
        full = fr.selfpath + path if not cls_call else ()
        classname = "ATP_Store" if full == () else self.src.subobjects.get(full)
        if classname is None:
            return None
        fn = self.src.methods(classname).get(f.attr)
        if fn is None or (classname == "ATP_Store" and f.attr in MAPPED):
            return None
        if classname == "ATP_Store" and len(c.args) == 2 and not c.keywords and self._is_int_product(self._self_method(c)):
            return None          # a product helper kept as a method: read as int(a * b) by `expr`, not inlined
        return fn, full, classname

    @staticmethod
    def is_static(fn):
        return any(isinstance(d, ast.Name) and d.id == "staticmethod" for d in fn.decorator_list)

    def inline(self, c, st, fr, k, ind):
        fn, selfpath, classname = self.resolve_call(c, fr)
        if fr.depth >= MAX_DEPTH:
            raise Unsupported("helper nesting too deep (recursion?)")
        if fn.args.vararg or fn.args.kwarg or fn.args.kwonlyargs or fn.args.posonlyargs:
            raise Unsupported(f"signature of helper {fn.name}")
        if any(isinstance(d, ast.Name) and d.id in ("classmethod", "property") for d in fn.decorator_list):
            raise Unsupported(f"decorator on helper {fn.name}")
        names = [a.arg for a in fn.args.args]
        if not self.is_static(fn):
            names = names[1:]
        vals = {}
        if len(c.args) > len(names):
            raise Unsupported(f"too many arguments for {fn.name}")
        for nm, a in zip(names, c.args):
            vals[nm] = self.expr(a, st, fr)
        for kw in c.keywords:
            if kw.arg is None or kw.arg not in names or kw.arg in vals:
                raise Unsupported(f"keyword argument of {fn.name}")
            vals[kw.arg] = self.expr(kw.value, st, fr)
        defaults = dict(zip(names[len(names) - len(fn.args.defaults):], fn.args.defaults)) if fn.args.defaults else {}
        for nm in names:
            if nm not in vals:
                if nm not in defaults:
                    raise Unsupported(f"missing argument {nm} of {fn.name}")
                vals[nm] = self.expr(defaults[nm], st, Frame({}, (), fr.depth))
        callee = Frame(vals, selfpath, fr.depth + 1)
        return self.run(list(fn.body), st, callee, k, ind)

    def first_call(self, node):
        """innermost-leftmost inlinable helper call inside an expression (None if none); refuses calls that sit under
        short-circuit operands / conditional expressions, where hoisting would change when they run"""
        found = []

        def visit(n, guarded):
            if isinstance(n, StaticVal):
                return
            if isinstance(n, ast.BoolOp):
                for i, v in enumerate(n.values):
                    visit(v, guarded or i > 0)
                return
            if isinstance(n, ast.IfExp):
                visit(n.test, guarded)
                visit(n.body, True)
                visit(n.orelse, True)
                return
            for ch in ast.iter_child_nodes(n):
                visit(ch, guarded)
            if isinstance(n, ast.Call) and self._fr_resolve(n) is not None:
                if guarded:
                    raise Unsupported("helper call under a short-circuit operand")
                found.append(n)
        visit(node, False)
        return found[0] if found else None

    def with_calls(self, node, st, fr, cont, ind):
        """evaluate the helper calls inside `node` in order, splice their results in, then cont(st, node', ind)"""
        self._fr_resolve = lambda c: self.resolve_call(c, fr)
        c = self.first_call(node)
        if c is None:
            return cont(st, node, ind)

        def k(st2, val, ind2):
            new = StaticVal(val if val is not None else ("()", "unit"))
            if c is node:
                return self.with_calls(new, st2, fr, cont, ind2)
            node2 = _replace(node, c, new)
            return self.with_calls(node2, st2, fr, cont, ind2)
        return self.inline(c, st, fr, k, ind)

    # ---- statements ----------------------------------------------------------------------------------------------
    @staticmethod
    def _is_printer_def(fn) -> bool:
        """a function that does nothing but print: statements are print calls (`print(...)` / `builtins.print(...)`),
        `try: <print calls> except …: pass`, and `if <cond>: return` guards (`if self.silent: return`)"""
        body = [x for x in fn.body if not (isinstance(x, ast.Expr) and isinstance(x.value, ast.Constant))]

        def printcall(x):
            if not (isinstance(x, ast.Expr) and isinstance(x.value, ast.Call)):
                return False
            g = x.value.func
            return (isinstance(g, ast.Name) and g.id == "print") or \
                (isinstance(g, ast.Attribute) and g.attr == "print" and isinstance(g.value, ast.Name) and g.value.id == "builtins")
        for x in body:
            if printcall(x) or isinstance(x, ast.Pass):
                continue
            if isinstance(x, ast.Try) and x.body and all(printcall(y) for y in x.body) and not x.orelse and not x.finalbody \
                    and all(all(isinstance(y, ast.Pass) for y in h.body) for h in x.handlers):
                continue
            if isinstance(x, ast.If) and not x.orelse and all(isinstance(y, ast.Return) and y.value is None for y in x.body) \
                    and not any(isinstance(n, (ast.Call, ast.NamedExpr, ast.Await)) for n in ast.walk(x.test)):
                continue
            return False
        return bool(body)

    def _printer_name(self, f) -> bool:
        """does the callee resolve to a function of this module / a method of ATP_Store that only prints?"""
        src = self.src
        if isinstance(f, ast.Name):
            d = next((n for n in src.tree.body if isinstance(n, ast.FunctionDef) and n.name == f.id), None)
            return d is not None and self._is_printer_def(d)
        if isinstance(f, ast.Attribute) and isinstance(f.value, ast.Name) and f.value.id == "self":
            d = src.methods("ATP_Store").get(f.attr)
            return d is not None and self._is_printer_def(d)
        return False

    def is_noop_call(self, c, st, fr):
        """print(...), a helper that only prints, logging.<x>(...), <logger>.<x>(...) with arguments that have no effects"""
        f = c.func
        ok = (isinstance(f, ast.Name) and f.id == "print") or self._printer_name(f)
        if isinstance(f, ast.Attribute):
            try:
                v = self.expr(f.value, st, fr)
            except Unsupported:
                v = None
            ok = ok or (v is not None and v[1] == "logger")
        if not ok:
            return False
        for a in list(c.args) + [kw.value for kw in c.keywords]:
            for n in ast.walk(a):
                if isinstance(n, (ast.Call, ast.Await, ast.Yield, ast.NamedExpr, ast.Lambda)) and \
                        not (isinstance(n, ast.Call) and isinstance(n.func, ast.Name) and n.func.id in ("len", "str", "repr", "int")):
                    raise Unsupported("call inside the arguments of a print/logging statement")
        return True

    def only_noops(self, body, st, fr):
        return all(isinstance(x, ast.Expr) and ((isinstance(x.value, ast.Call) and self.is_noop_call(x.value, st, fr))
                                                or isinstance(x.value, ast.Constant)) or isinstance(x, ast.Pass)
                   for x in body)

    def leaf(self, st: State, ret, ind):
        pad = "  " * ind
        if isinstance(ret, tuple):
            ret = ret[0] if ret[1] != "unit" else "()"
        if self.kind == "store":
            if ret not in (None, "()"):
                raise Unsupported("value returned from a procedure")
            if st.updated:
                raise Unsupported("_update_state in a region translated without it")
            return pad + st.store()
        if ret is None:
            ret = self.fall_through
            if ret is None:
                raise Unsupported("path falls off the end of a function that returns a value elsewhere")
        if self.kind == "plain":
            if st.updated:
                raise Unsupported("_update_state in a region translated without it")
            return pad + f"({st.store()}, {ret})"
        if st.updated:
            u = f"updateStateO cls obs {paren(st.store())}"
            return pad + (u if self.ret_type == "Unit" else f"thenReturn ({u}) {ret}")
        return pad + f"({st.store()}, Except.ok {ret})"

    def assign(self, tgt, val, st: State, fr: Frame):
        """val: translator value; returns (st', fr')"""
        if isinstance(tgt, ast.Name):
            fr = fr.copy()
            v, t = val
            fr.locals[tgt.id] = (v, "int" if t in ("lit", "nat") else t)
            return st, fr
        if isinstance(tgt, ast.Tuple):
            v, t = val
            if t != "tuple" or len(v) != len(tgt.elts):
                raise Unsupported("tuple unpacking of a non-tuple")
            for e, x in zip(tgt.elts, v):
                st, fr = self.assign(e, x, st, fr)
            return st, fr
        path = Source._path(tgt, {}) if isinstance(tgt, ast.Attribute) else None
        if path is None:
            raise Unsupported("assignment target")
        return self.write(fr.selfpath + path, val, st), fr

    def write(self, path, val, st: State):
        fm = self.src.fieldmap
        if path not in fm or fm[path][1] == "rate":
            raise Unsupported(f"assignment to self.{'.'.join(path)}")
        lean, ty = fm[path]
        v, t = val
        st = st.copy()
        if ty == "state":
            if t not in ("state", "stateconst"):
                raise Unsupported("state assigned from something that is not a metabolic state")
        elif t not in ("int", "nat", "lit") or (ty == "nat" and t == "int"):
            raise Unsupported(f"value of type {t} assigned to self.{'.'.join(path)}")
        st.fields[lean] = v
        return st

    def run(self, stmts, st: State, fr: Frame, k, ind: int) -> str:
        pad = "  " * ind
        if not stmts:
            return k(st, None, ind)
        s0, rest = stmts[0], stmts[1:]
        if isinstance(s0, ast.Pass) or (isinstance(s0, ast.Expr) and isinstance(s0.value, ast.Constant)):
            return self.run(rest, st, fr, k, ind)
        if isinstance(s0, ast.With):
            ok = len(s0.items) == 1 and isinstance(s0.items[0].context_expr, ast.Attribute) \
                and s0.items[0].context_expr.attr == "_lock" and s0.items[0].optional_vars is None
            if not ok:
                raise Unsupported("with-statement other than `with self._lock:`")
            return self.run(list(s0.body) + rest, st, fr, k, ind)
        if isinstance(s0, ast.Return):
            if s0.value is None:
                return k(st, ("()", "unit"), ind)
            return self.with_calls(s0.value, st, fr,
                                   lambda st2, node, ind2: k(st2, self.expr(node, st2, fr), ind2), ind)
        if isinstance(s0, ast.Expr) and isinstance(s0.value, ast.Call) and self.is_noop_call(s0.value, st, fr):
            return self.run(rest, st, fr, k, ind)
        if isinstance(s0, ast.If) and not s0.orelse and self.only_noops(s0.body, st, fr) and \
                self.first_call_safe(s0.test, fr) is None:
            return self.run(rest, st, fr, k, ind)                 # `if not self.silent: print(...)`
        if st.updated:
            raise Unsupported("statement other than print/logging/return after _update_state()")
        if isinstance(s0, ast.If):
            def after(st2, test, ind2):
                p, et, ef = self.cond(test, st2, fr)
                if p is True:
                    return self.run(list(s0.body) + rest, et, fr, k, ind2)
                if p is False:
                    return self.run(list(s0.orelse) + rest, ef, fr, k, ind2)
                a = self.run(list(s0.body) + rest, et.copy(), fr.copy(), k, ind2 + 1)
                b = self.run(list(s0.orelse) + rest, ef.copy(), fr.copy(), k, ind2 + 1)
                pd = "  " * ind2
                return f"{pd}if {p} then\n{a}\n{pd}else\n{b}"
            return self.with_calls(s0.test, st, fr, after, ind)
        if isinstance(s0, ast.For):
            for n in ast.walk(s0):
                if isinstance(n, (ast.Break, ast.Continue)):
                    raise Unsupported("break/continue")
            v, t = self.expr(s0.iter, st, fr)
            if t != "tuple":
                raise Unsupported("for-loop over something that is not a constant table")
            unrolled = []
            for elem in v:
                unrolled.append(ast.Assign(targets=[s0.target], value=StaticVal(elem)))
                unrolled.extend(copy.deepcopy(s0.body))
            return self.run(unrolled + list(s0.orelse) + rest, st, fr, k, ind)
        if isinstance(s0, (ast.Assign, ast.AugAssign, ast.AnnAssign)):
            if isinstance(s0, ast.Assign):
                if len(s0.targets) != 1:
                    raise Unsupported("multiple assignment targets")
                tgt, val = s0.targets[0], s0.value
            elif isinstance(s0, ast.AnnAssign):
                if s0.value is None:
                    return self.run(rest, st, fr, k, ind)
                tgt, val = s0.target, s0.value
            else:
                if not isinstance(s0.op, (ast.Add, ast.Sub)):
                    raise Unsupported("augmented assignment other than += / -=")
                tgt = s0.target
                val = ast.BinOp(left=copy.deepcopy(tgt), op=s0.op, right=s0.value)

            def after(st2, node, ind2):
                st3, fr3 = self.assign(tgt, self.expr(node, st2, fr), st2, fr)
                return self.run(rest, st3, fr3, k, ind2)
            return self.with_calls(val, st, fr, after, ind)
        if isinstance(s0, ast.Expr) and isinstance(s0.value, ast.Call):
            c = s0.value
            f = c.func
            if isinstance(f, ast.Name) and f.id == "setattr" and len(c.args) == 3 and not c.keywords:
                def after(st2, node, ind2):
                    path = self.attr_target(c.args[0], c.args[1], st2, fr)
                    return self.run(rest, self.write(path, self.expr(node, st2, fr), st2), fr, k, ind2)
                return self.with_calls(c.args[2], st, fr, after, ind)
            if isinstance(f, ast.Attribute):
                recv_self = isinstance(f.value, ast.Name) and f.value.id == "self"
                if recv_self and fr.selfpath == () and f.attr == "_record_transaction":
                    st = st.copy()
                    st.fields["ntx"] = f"min ({st.field('ntx')} + 1) 1000"
                    return self.run(rest, st, fr, k, ind)
                if recv_self and fr.selfpath == () and f.attr == "_update_state" and not c.args and not c.keywords:
                    if self.kind != "except":
                        raise Unsupported("_update_state() in a region translated without exceptions")
                    st = st.copy()
                    st.updated = True
                    return self.run(rest, st, fr, k, ind)
                p = Source._path(f.value, {})
                if p is not None and fr.selfpath + p == self.src.txpath and f.attr == "clear" and not c.args:
                    st = st.copy()
                    st.fields["ntx"] = "0"
                    return self.run(rest, st, fr, k, ind)
                if self.resolve_call(c, fr) is not None:
                    return self.with_calls(c, st, fr, lambda st2, node, ind2: self.run(rest, st2, fr, k, ind2), ind)
            raise Unsupported(f"call {ast.unparse(c)[:60]}")
        raise Unsupported(f"statement {type(s0).__name__}")

    def first_call_safe(self, node, fr):
        self._fr_resolve = lambda c: self.resolve_call(c, fr)
        try:
            return self.first_call(node)
        except Unsupported:
            return node


def _replace(node, old, new):
    """copy of `node` with the sub-node `old` (by identity) replaced by `new`"""
    class R(ast.NodeTransformer):
        def visit(self, n):
            if n is old:
                return new
            if isinstance(n, StaticVal):
                return n
            return self.generic_visit(n)
    # NodeTransformer mutates in place: work on a structural copy that keeps identity only for `old`
    memo = {id(old): old}
    return R().visit(copy.deepcopy(node, memo))


# ---------------------------------------------------------------------------------------------------------------
COST_ROLE = {"cost": ("(cost : Int)", "int"), "priority": ("prio", "nat"), "allow_debt": ("allowDebt", "bool"),
             "energy_type": ("cur", "cur"), "operation": ("?", "str")}
AMOUNT_ROLE = {"amount": ("(amount : Int)", "int"), "energy_type": ("cur", "cur"), "other": ("other", "store")}

SPECS = [
    # (python method, lean name, lean binders, result type, kind, ret type, parameter roles, fall_through, fail value)
    ("consume", "consumeT", "(cls : Classifier) (obs : Obs) (s : Store) (cost : Nat) (cur : Cur) (allowDebt : Bool) (prio : Nat)",
     "Store × Except Exc Bool", "except", "Bool", COST_ROLE, None, "(s, Except.error (Exc.observer 4000001))"),
    ("regenerate", "regenerateT", "(cls : Classifier) (obs : Obs) (s : Store) (amount : Nat) (cur : Cur)",
     "Store × Except Exc Unit", "except", "Unit", AMOUNT_ROLE, "()", "(s, Except.error (Exc.observer 4000002))"),
    ("transfer_to", "transferWithdrawT", "(s : Store) (amount : Nat) (cur : Cur)",
     "Store × Bool", "plain", "Bool", AMOUNT_ROLE, "true", "({ s with ntx := s.ntx + 4000003 }, false)"),
    ("convert_nadh_to_atp", "convertT", "(s : Store) (amount : Nat)",
     "Store × Int", "plain", "Int", {"amount": ("(amount : Int)", "int")}, None, "({ s with ntx := s.ntx + 4000004 }, 0)"),
    ("enter_dormancy", "enterDormancyT", "(s : Store)", "Store", "store", "Unit", {}, "()", "{ s with ntx := s.ntx + 4000005 }"),
    ("exit_dormancy", "exitDormancyT", "(cls : Classifier) (obs : Obs) (s : Store)",
     "Store × Except Exc Unit", "except", "Unit", {}, "()", "(s, Except.error (Exc.observer 4000006))"),
    ("apply_debt_interest", "applyInterestT", "(s : Store)", "Store", "store", "Unit", {}, "()", "{ s with ntx := s.ntx + 4000007 }"),
    ("reset", "resetT", "(cls : Classifier) (obs : Obs) (s : Store)",
     "Store × Except Exc Unit", "except", "Unit", {}, "()", "(s, Except.error (Exc.observer 4000008))"),
]
REQUIRED = {"consume": ["cost", "operation", "energy_type", "allow_debt", "priority"], "regenerate": ["amount", "energy_type"],
            "transfer_to": ["other", "amount", "energy_type"], "convert_nadh_to_atp": ["amount"]}


def _transfer_parts(tr: Translator, fn):
    """body of transfer_to -> the `with self._lock:` block, after checking that the tail is the deposit half"""
    fr = Frame({}, (), 0)
    st = State()
    body = [x for x in fn.body if not (isinstance(x, ast.Expr) and isinstance(x.value, ast.Constant))]
    if not body or not isinstance(body[0], ast.With):
        raise Unsupported("transfer_to does not start with `with self._lock:`")
    tail = [x for x in body[1:] if not (isinstance(x, ast.Expr) and isinstance(x.value, ast.Call) and tr.is_noop_call(x.value, st, fr))
            and not (isinstance(x, ast.If) and not x.orelse and tr.only_noops(x.body, st, fr))]
    if not tail:
        raise Unsupported("transfer_to: no deposit half")
    c = tail[0]
    ok = (isinstance(c, ast.Expr) and isinstance(c.value, ast.Call) and isinstance(c.value.func, ast.Attribute)
          and c.value.func.attr == "regenerate" and isinstance(c.value.func.value, ast.Name) and c.value.func.value.id == "other")
    if ok:
        args = [ast.unparse(a) for a in c.value.args] + [f"{kw.arg}={ast.unparse(kw.value)}" for kw in c.value.keywords]
        ok = args in (["amount", "energy_type"], ["amount", "energy_type=energy_type"],
                      ["amount=amount", "energy_type=energy_type"])
    if not ok:
        raise Unsupported("transfer_to: the statement after the lock region is not other.regenerate(amount, energy_type)")
    rest = tail[1:]
    if not (len(rest) == 1 and isinstance(rest[0], ast.Return) and isinstance(rest[0].value, ast.Constant)
            and rest[0].value.value is True):
        raise Unsupported("transfer_to: tail is not `other.regenerate(...)`, optional print/logging, `return True`")
    return [body[0]]


def translate_all(repo: Path):
    out, report = [], {}
    src = err = None
    try:
        src = Source(Path(repo))
    except Unsupported as e:
        err = str(e)
    except Exception as e:  # noqa
        err = f"cannot read the source: {e!r}"
    for (py, lean, binders, rty, kind, ret, roles, fall, fail) in SPECS:
        try:
            if src is None:
                raise Unsupported(err)
            fn = src.methods("ATP_Store").get(py)
            if fn is None:
                raise Unsupported(f"ATP_Store.{py} not found")
            if fn.args.vararg or fn.args.kwarg or fn.args.posonlyargs:
                raise Unsupported(f"signature of {py}")
            tr = Translator(src, kind, ret, fall)
            names = [a.arg for a in fn.args.args][1:] + [a.arg for a in fn.args.kwonlyargs]
            need = REQUIRED.get(py, [])
            if [n for n in names if n in need] != need:
                raise Unsupported(f"parameters of {py} are {names}")
            defaults = dict(zip([a.arg for a in fn.args.args][len(fn.args.args) - len(fn.args.defaults):], fn.args.defaults))
            defaults.update({a.arg: d for a, d in zip(fn.args.kwonlyargs, fn.args.kw_defaults) if d is not None})
            locals_ = {}
            for n in names:
                if n in need:
                    locals_[n] = roles[n]
                elif n in defaults:                                 # a new parameter: callers that do not pass it
                    locals_[n] = tr.expr(defaults[n], State(), Frame({}, (), 0))   # get the default
                else:
                    raise Unsupported(f"new required parameter {n} of {py}")
            body = _transfer_parts(tr, fn) if py == "transfer_to" else list(fn.body)
            code = tr.run(body, State(), Frame(locals_, (), 0), lambda st, val, ind: tr.leaf(st, val, ind), 1)
            out.append(f"/-- translated from `ATP_Store.{py}` -/\ndef {lean} {binders} : {rty} :=\n{code}\n")
            report[lean] = "ok"
        except Unsupported as e:
            msg = str(e).replace("-/", "- /").replace("\n", " ")[:160]
            out.append(f"/-- `ATP_Store.{py}` is OUTSIDE the supported subset: {msg} — this definition cannot agree "
                       f"with the model (fail closed) -/\ndef {lean} {binders} : {rty} :=\n  {fail}\n")
            report[lean] = f"unsupported: {e}"
        except RecursionError:
            out.append(f"/-- `ATP_Store.{py}`: recursion while inlining (fail closed) -/\ndef {lean} {binders} : {rty} :=\n  {fail}\n")
            report[lean] = "unsupported: recursion"
    out.append("/-- second half of `transfer_to`: `other.regenerate(amount, energy_type)` on the peer -/\n"
               "def transferDepositT (cls : Classifier) (obs : Obs) (other : Store) (amount : Nat) (cur : Cur) :\n"
               "    Store × Except Exc Unit :=\n  regenerateT cls obs other amount cur\n")
    head = ("/- GENERATED by harness/vf/extract/py2lean_metabolism.py from operon_ai/state/metabolism.py — do not edit. -/\n"
            "import Operon.Model.Atp\nnamespace Operon.Gen.AtpT\nopen Operon.Atp\n\n")
    return head + "\n".join(out) + "\nend Operon.Gen.AtpT\n", report


def run(repo: Path, lean: Path, write_if_changed) -> dict:
    text, report = translate_all(Path(repo))
    changed = write_if_changed(Path(lean) / OUT_REL, text)
    return {"id": "py2lean-metabolism", "facts_changed": bool(changed),
            "unsupported": {k: v for k, v in report.items() if v != "ok"}, "translated": [k for k, v in report.items() if v == "ok"]}
