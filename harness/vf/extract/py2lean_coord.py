"""py2lean (coordination): translate the Python AST of the straight-line core of operon_ai/coordination into Lean
definitions over the C14/C15 model's types, regenerated into lean/Operon/Gen/CoordTranslated.lean on every run.

Translated (each a `def Operon.Coord.Tr.<name>`):
  ResourceLock     (state `l : Lock`)          is_available (property), _add_to_waiting, try_acquire, release, pop_next_waiter
  DependencyGraph  (state `E : Edges`)         add_dependency, remove_dependency, remove_all_for_agent
  CellCycleController (state `s : Sys`, `c : Ctx`)   acquire_resource, release_resource, release_all_resources, _forget_operation

Supported subset — nothing more:
  * reads / assignments / `+=` / `-=` of the modelled attributes (owner, owner_priority, hold_count, allow_preemption,
    waiting_list; edges; ctx.operation_id / priority / acquired_resources; self.resources; self.dependency_graph);
    `acquired_at` writes and `datetime.utcnow()` are dropped (not modelled);
  * int / bool / None / enum constants, tuples of two values, comparisons, `is None`, `in` / `not in` on the modelled
    dicts and lists, `and` / `or` / `not`, truthiness of a list or of a bool;
  * `if / elif / else`, early `return`, `raise` (only as "no result": `none`), locals;
  * list idioms: `[(a, b) for a, b in X if <cond>]` (a filter), `X.append(v)`, `X.sort(key=lambda x: x[1], reverse=True)`
    (the model's stable descending sort `sortDesc`), `return X.pop(0)`;
  * dict idioms on `self.edges`: `k in d`, `d[k]`, `d[k] = v`, `d[k].append(v)`, `del d[k]`,
    `for k in list(d.keys()):` with a body in the subset (a left fold over the key snapshot);
  * controller idioms: `if rid not in self.resources: raise`, `lock = self.resources[rid]` /
    `lock = ctx.acquired_resources[rid]` (both read the registered lock object — the aliasing assumption of the model —
    and every mutation of `lock` is written back), calls of translated methods of the lock / graph / controller,
    `ctx.add_acquired_resource(lock)` (inlined from OperationContext), `del ctx.acquired_resources[rid]`,
    `for rid in list(ctx.acquired_resources.keys()):` with a body in the subset, the `while self.release_resource(...)
    and rid in ctx.acquired_resources: pass` loop in exactly that shape (bounded by hold_count + 1 iterations),
    `for lock in self.resources.values():` whose body only assigns fields of `lock`;
  * an Optional[str] used where a str is required (`blocking=lock.owner`, `old_owner = self.owner` passed on) is
    translated with `.getD 0` and listed under "optional_as_value" in the extractor report.
Seen through (no effect on the output): docstrings, comments, annotations, `logger.* / logging.* / print` calls,
module- or class-level literal constants used by name, `list(..)` / `tuple(..)` snapshots for iteration and
`list / tuple / set / frozenset` snapshots for membership tests, extra parameters with a literal default (bound to
that default; a branch on a constant is pruned), private helper methods that are not themselves modelled (inlined
at the call: statement helpers without `return <value>`, expression helpers consisting of one `return <expr>`), new
methods nobody in the translated set calls; `if not <bool local>: A else: B` read as `if <bool local>: B else: A` (an
early `if not released: return released` instead of nesting the rest under `if released:`); the release loop spelled
`while self.release_resource(ctx, rid): if rid not in ctx.acquired_resources: break`; the sort key of the waiting list
as `lambda x: x[1]`, `lambda x: x[-1]`, `itemgetter(1)` / `operator.itemgetter(1)` (only when the name really is the
import from `operator` and the module does not rebind it) or a module-level name bound once to one of these,
`reverse=` a literal or a module-level literal constant.  A method that cannot be translated does not drag its callers along:
they keep calling `Tr.<callee>`, so only the callee's agreement theorem fails.
Natural-number fields (`hold_count`) use truncated subtraction: Python's `-1` is not representable and is only ever
produced where the next statement resets the field.
Anything else: the definition becomes `untranslatable "<construct (line)>"`, and its agreement theorem
`c14_translation_agrees_<name>` no longer checks (fail closed).
"""
from __future__ import annotations

import ast
from pathlib import Path

TYPES_REL = "operon_ai/coordination/types.py"
CTRL_REL = "operon_ai/coordination/controller.py"

LEAN_T = {"nat": "Nat", "int": "Int", "bool": "Bool", "onat": "Option Nat", "lockresult": "LockResult"}
LOCKRESULT = {"ACQUIRED": "LockResult.acquired", "BLOCKED": "LockResult.blocked", "REENTRANT": "LockResult.reentrant",
              "PREEMPTED": "LockResult.preempted"}
LOCK_FIELDS = {"owner": ("owner", "onat"), "owner_priority": ("ownerPrio", "int"), "hold_count": ("hold", "nat"),
               "allow_preemption": ("preempt", "bool"), "waiting_list": ("waiting", "wlist")}
LOCK_DROPPED = {"acquired_at"}

# name -> (class, lean name, [(param, type)], result kind)
SPEC = {
    "_add_to_waiting": ("ResourceLock", "add_to_waiting", [("owner", "nat"), ("priority", "int")], "lock"),
    "try_acquire": ("ResourceLock", "try_acquire", [("owner", "nat"), ("priority", "int")], "lock*lockresult"),
    "release": ("ResourceLock", "release", [("owner", "nat")], "lock*bool"),
    "pop_next_waiter": ("ResourceLock", "pop_next_waiter", [], "lock*owait"),
    "add_dependency": ("DependencyGraph", "add_dependency", [("waiter", "nat"), ("blocking", "nat"), ("resource", "nat")], "edges"),
    "remove_dependency": ("DependencyGraph", "remove_dependency", [("waiter", "nat"), ("blocking", "nat")], "edges"),
    "remove_all_for_agent": ("DependencyGraph", "remove_all_for_agent", [("agent", "nat")], "edges"),
    "acquire_resource": ("CellCycleController", "acquire_resource", [("ctx", "ctx"), ("resource_id", "nat")], "sc*olockresult"),
    "release_resource": ("CellCycleController", "release_resource", [("ctx", "ctx"), ("resource_id", "nat")], "sc*bool"),
    "release_all_resources": ("CellCycleController", "release_all_resources", [("ctx", "ctx")], "sc"),
    "_forget_operation": ("CellCycleController", "forget_operation", [("operation_id", "nat")], "sys"),
}
ORDER = ["_add_to_waiting", "try_acquire", "release", "pop_next_waiter", "add_dependency", "remove_dependency",
         "remove_all_for_agent", "acquire_resource", "release_resource", "release_all_resources", "_forget_operation"]
RESULT_T = {"lock": "Lock", "lock*lockresult": "Lock × LockResult", "lock*bool": "Lock × Bool",
            "lock*owait": "Lock × Option (Nat × Int)", "edges": "Edges", "sc*olockresult": "Sys × Ctx × Option LockResult",
            "sc*bool": "Sys × Ctx × Bool", "sc": "Sys × Ctx", "sys": "Sys"}
ANNOT = {"str": "nat", "int": "int", "OperationContext": "ctx", "'OperationContext'": "ctx"}


class Unsupported(Exception):
    pass


def bad(node, what):
    raise Unsupported(f"{what} (line {getattr(node, 'lineno', '?')})")


def is_name(n, s):
    return isinstance(n, ast.Name) and n.id == s


def is_attr(n, base, attr=None):
    return isinstance(n, ast.Attribute) and is_name(n.value, base) and (attr is None or n.attr == attr)


class Tr:
    def __init__(self, types_src, ctrl_src):
        self.classes = {}
        for src in (types_src, ctrl_src):
            for n in ast.parse(src).body:
                if isinstance(n, ast.ClassDef):
                    self.classes[n.name] = {f.name: f for f in n.body if isinstance(f, ast.FunctionDef)}
        self.optional_as_value = []
        self.done = {}           # python method name -> True (translated) / False
        self.consts = {}         # module-level / class-level literal constants: name -> value
        self.enum_consts = {}    # ... constants that are a tuple / list / set / frozenset of LockResult members
        for src in (types_src, ctrl_src):
            tree = ast.parse(src)
            scopes = [tree.body] + [n.body for n in tree.body if isinstance(n, ast.ClassDef)]
            for body in scopes:
                for n in body:
                    tgt = val = None
                    if isinstance(n, ast.Assign) and len(n.targets) == 1 and isinstance(n.targets[0], ast.Name):
                        tgt, val = n.targets[0].id, n.value
                    elif isinstance(n, ast.AnnAssign) and isinstance(n.target, ast.Name) and n.value is not None:
                        tgt, val = n.target.id, n.value
                    if tgt is None:
                        continue
                    if self.enum_members(val) is not None:
                        self.enum_consts[tgt] = self.enum_members(val)
                        continue
                    try:
                        v = ast.literal_eval(val)
                    except Exception:
                        continue
                    if v is None or isinstance(v, (bool, int)):
                        self.consts[tgt] = v
        self.inline_depth = 0
        # names imported from `operator` (for itemgetter) and module-level names bound ONCE to a lambda / a call
        self.imported = {}
        self.fun_consts = {}
        for src in (types_src, ctrl_src):
            tree = ast.parse(src)
            assigned = {}
            for n in ast.walk(tree):
                if isinstance(n, ast.ImportFrom) and n.module == "operator" and n.level == 0:
                    for al in n.names:
                        self.imported[al.asname or al.name] = f"operator.{al.name}"
                elif isinstance(n, ast.Import):
                    for al in n.names:
                        if al.name == "operator":
                            self.imported[al.asname or "operator"] = "operator"
                for tg in (n.targets if isinstance(n, ast.Assign) else [n.target] if isinstance(n, (ast.AnnAssign, ast.AugAssign)) else []):
                    for nm in ast.walk(tg):
                        if isinstance(nm, ast.Name):
                            assigned[nm.id] = assigned.get(nm.id, 0) + 1
                if isinstance(n, (ast.FunctionDef, ast.ClassDef)):
                    assigned[n.name] = assigned.get(n.name, 0) + 1
            for n in tree.body:
                if isinstance(n, ast.Assign) and len(n.targets) == 1 and isinstance(n.targets[0], ast.Name) \
                        and isinstance(n.value, (ast.Lambda, ast.Call)) and assigned.get(n.targets[0].id) == 1:
                    self.fun_consts[n.targets[0].id] = n.value
            for nm in list(self.imported):          # an imported name that the module also assigns / defines is not the import
                if nm in assigned:
                    del self.imported[nm]

    # ------------------------------------------------------------------------------------------ helpers
    @staticmethod
    def enum_members(n):
        """[Lean names] if `n` is a tuple / list / set literal or frozenset/tuple/set(...) of LockResult members"""
        if isinstance(n, ast.Call) and isinstance(n.func, ast.Name) and n.func.id in ("frozenset", "set", "tuple", "list") \
                and len(n.args) == 1 and not n.keywords:
            n = n.args[0]
        if isinstance(n, (ast.Tuple, ast.List, ast.Set)) and n.elts and all(
                isinstance(e, ast.Attribute) and is_name(e.value, "LockResult") and e.attr in LOCKRESULT for e in n.elts):
            return [LOCKRESULT[e.attr] for e in n.elts]
        return None

    def is_second_item_key(self, key, env, depth=0):
        """is `key` a function that maps a pair to its second component: `lambda x: x[1]`, `lambda x: x[-1]` (pairs),
        `itemgetter(1)` / `operator.itemgetter(1)`, a lambda that unpacks nothing else, or a module- / class-level name
        bound to one of these"""
        if key is None or depth > 3:
            return False
        if isinstance(key, ast.Lambda):
            a = key.args
            if len(a.args) != 1 or a.vararg or a.kwarg or a.kwonlyargs or a.defaults or a.posonlyargs:
                return False
            b = key.body
            return (isinstance(b, ast.Subscript) and is_name(b.value, a.args[0].arg)
                    and isinstance(b.slice, ast.Constant) and b.slice.value in (1, -1) and not isinstance(b.slice.value, bool))
        if isinstance(key, ast.Call) and not key.keywords and len(key.args) == 1 \
                and isinstance(key.args[0], ast.Constant) and key.args[0].value == 1 and not isinstance(key.args[0].value, bool):
            f = key.func
            if is_name(f, "itemgetter") and self.imported.get("itemgetter") == "operator.itemgetter":
                return True
            if isinstance(f, ast.Attribute) and f.attr == "itemgetter" and isinstance(f.value, ast.Name) \
                    and self.imported.get(f.value.id) == "operator":
                return True
            return False
        if isinstance(key, ast.Name) and key.id not in env["locals"] and key.id in self.fun_consts:
            return self.is_second_item_key(self.fun_consts[key.id], env, depth + 1)
        if isinstance(key, ast.Attribute) and isinstance(key.value, ast.Name) and (key.value.id == "self" or key.value.id in self.classes) \
                and key.attr in self.fun_consts:
            return False        # a class attribute holding a function is bound as a method when read through `self`
        return False

    def coerce(self, code, t, want, node):
        if t == want:
            return code
        if t == "onat" and want == "nat":
            self.optional_as_value.append(f"{self.cur}: {ast.unparse(node)} (line {node.lineno})")
            return f"(({code}).getD 0)"
        if t == "nat" and want == "int":
            return f"(({code} : Nat) : Int)"
        if t == "nat" and want == "onat":
            return f"(some {code})"
        if t == "none" and want == "onat":
            return "none"
        bad(node, f"a value of type {t} where {want} is required")

    def prop_is_available(self):
        fn = self.classes.get("ResourceLock", {}).get("is_available")
        if fn is None or not any(isinstance(d, ast.Name) and d.id == "property" for d in fn.decorator_list):
            raise Unsupported("property ResourceLock.is_available not found")
        body = [s for s in fn.body if not (isinstance(s, ast.Expr) and isinstance(s.value, ast.Constant))]
        if len(body) != 1 or not isinstance(body[0], ast.Return):
            bad(fn, "is_available is not a single return")
        return body[0].value

    # ------------------------------------------------------------------------------------------ expressions
    def ex(self, n, env):
        k = env["kind"]
        if isinstance(n, ast.Constant):
            if n.value is None:
                return "none", "none"
            if isinstance(n.value, bool):
                return ("true" if n.value else "false"), "bool"
            if isinstance(n.value, int):
                return (str(n.value) if n.value >= 0 else f"({n.value})"), "lit"
            bad(n, f"constant {n.value!r}")
        if isinstance(n, ast.Name):
            if n.id in env["locals"]:
                return env["locals"][n.id]
            if n.id in self.consts:
                return self.ex(ast.copy_location(ast.Constant(value=self.consts[n.id]), n), env)
            bad(n, f"name {n.id}")
        if isinstance(n, ast.Tuple) and len(n.elts) == 2:
            (a, ta), (b, tb) = self.ex(n.elts[0], env), self.ex(n.elts[1], env)
            ta2, tb2 = ("nat" if ta == "lit" else ta), ("nat" if tb == "lit" else tb)
            return f"({a}, {b})", f"pair:{ta2}:{tb2}"
        if isinstance(n, ast.Attribute):
            if is_name(n.value, "LockResult") and n.attr in LOCKRESULT:
                return LOCKRESULT[n.attr], "lockresult"
            base = n.value
            if isinstance(base, ast.Name) and (base.id == "self" or base.id in self.classes) and n.attr in self.consts \
                    and n.attr not in LOCK_FIELDS and n.attr.isupper():
                return self.ex(ast.copy_location(ast.Constant(value=self.consts[n.attr]), n), env)
            if isinstance(base, ast.Name):
                lv = env["locals"].get(base.id)
                if base.id == "self" and k == "lock" or (lv and lv[1] == "lockref"):
                    var = "l" if base.id == "self" else lv[0]
                    if n.attr == "is_available":
                        return self.ex_subst(self.prop_is_available(), env, var)
                    if n.attr in LOCK_FIELDS:
                        f, t = LOCK_FIELDS[n.attr]
                        return f"{var}.{f}", t
                    bad(n, f"lock attribute {n.attr}")
                if base.id == "self" and k == "graph" and n.attr == "edges":
                    return "E", "dict"
                if lv and lv[1] == "ctx":
                    if n.attr == "operation_id":
                        return "c.id", "nat"
                    if n.attr == "priority":
                        return "c.prio", "int"
                    if n.attr == "acquired_resources":
                        return "c.acquired", "keyset"
                    bad(n, f"context attribute {n.attr}")
                if base.id == "self" and k == "ctrl" and n.attr == "resources":
                    return "s.locks", "resdict"
            bad(n, f"attribute {ast.unparse(n)}")
        if isinstance(n, ast.Subscript):
            (d, td) = self.ex(n.value, env)
            if td == "dict":
                kc, kt = self.ex(n.slice, env)
                return f"(dictGet {d} {self.coerce(kc, kt, 'nat', n)})", "deplist"
            bad(n, f"subscript of {td}")
        if isinstance(n, ast.UnaryOp) and isinstance(n.op, ast.Not):
            c, t = self.ex(n.operand, env)
            return f"(!{self.truth(c, t, n)})", "bool"
        if isinstance(n, ast.BoolOp):
            parts = [self.truth(*self.ex(v, env), v) for v in n.values]
            op = " && " if isinstance(n.op, ast.And) else " || "
            return "(" + op.join(parts) + ")", "bool"
        if isinstance(n, ast.Compare) and len(n.ops) == 1:
            return self.compare(n.left, n.ops[0], n.comparators[0], env, n), "bool"
        if isinstance(n, ast.ListComp):
            return self.listcomp(n, env)
        if isinstance(n, ast.Call) and not n.keywords:
            f = n.func
            # d.keys()
            if isinstance(f, ast.Attribute) and f.attr == "keys" and not n.args:
                c, t = self.ex(f.value, env)
                if t in ("dict", "keyset", "snap:dict", "snap:keyset"):
                    return c, t
                bad(n, f".keys() of {t}")
            # list(..) / tuple(..) / set(..) / frozenset(..) of a modelled container: a snapshot, usable for `in` only
            if isinstance(f, ast.Name) and f.id in ("list", "tuple", "set", "frozenset") and len(n.args) == 1:
                c, t = self.ex(n.args[0], env)
                base = t[5:] if t.startswith("snap:") else t
                if base in ("dict", "keyset", "deplist", "wlist"):
                    return c, "snap:" + base
                bad(n, f"{f.id}(...) of {t}")
            # expression helper: a private method consisting of one `return <expr>`
            if isinstance(f, ast.Attribute) and is_name(f.value, "self") and not n.args:
                cls = {"lock": "ResourceLock", "graph": "DependencyGraph", "ctrl": "CellCycleController"}.get(env["kind"])
                fn = self.classes.get(cls, {}).get(f.attr)
                if fn is not None and f.attr not in SPEC:
                    body = [s for s in fn.body if not (isinstance(s, ast.Expr) and isinstance(s.value, ast.Constant))]
                    if len(body) == 1 and isinstance(body[0], ast.Return) and body[0].value is not None \
                            and len(fn.args.args) == 1 and self.inline_depth < 4:
                        self.inline_depth += 1
                        try:
                            return self.ex(body[0].value, env)
                        finally:
                            self.inline_depth -= 1
        bad(n, f"expression {type(n).__name__}: {ast.unparse(n)[:60]}")

    def ex_subst(self, expr, env, var):
        """a property body written against `self`, evaluated on lock variable `var`"""
        env2 = dict(env, kind="lock", locals=dict(env["locals"]))
        code, t = self.ex(expr, env2)
        return code.replace("l.", f"{var}.") if var != "l" else code, t

    def truth(self, c, t, node):
        if t == "bool":
            return c
        if t in ("wlist", "deplist"):
            return f"(!({c}).isEmpty)"
        bad(node, f"truthiness of {t}")

    def compare(self, a, op, b, env, node):
        if isinstance(op, (ast.In, ast.NotIn)):
            members = self.enum_members(b)
            if members is None and isinstance(b, ast.Name) and b.id not in env["locals"]:
                members = self.enum_consts.get(b.id)
            if members is not None:
                ca, ta = self.ex(a, env)
                if ta != "lockresult":
                    bad(node, f"`in` a set of LockResult members on {ta}")
                test = "(" + " || ".join(f"({ca} == {m})" for m in members) + ")"
                return test if isinstance(op, ast.In) else f"(!{test})"
        (ca, ta), (cb, tb) = self.ex(a, env), self.ex(b, env)
        if isinstance(op, (ast.Is, ast.IsNot)):
            if tb != "none" or ta != "onat":
                bad(node, "`is` other than <optional> is None")
            return f"(({ca}).isNone)" if isinstance(op, ast.Is) else f"(({ca}).isSome)"
        if isinstance(op, (ast.In, ast.NotIn)):
            neg = "!" if isinstance(op, ast.NotIn) else ""
            if tb.startswith("snap:"):
                tb = tb[5:]
            if tb == "dict":
                return f"({neg}(dictHas {cb} {self.coerce(ca, ta, 'nat', node)}))"
            if tb == "keyset":
                return f"({neg}(({cb}).contains {self.coerce(ca, ta, 'nat', node)}))"
            if tb == "deplist" and ta == "pair:nat:nat":
                return f"({neg}(({cb}).contains {ca}))"
            bad(node, f"`in` on {tb}")
        if isinstance(op, (ast.Eq, ast.NotEq)):
            sym = "==" if isinstance(op, ast.Eq) else "!="
            if {ta, tb} == {"onat", "nat"}:
                o, v = (ca, cb) if ta == "onat" else (cb, ca)
                return f"({o} {sym} some {v})"
            if ta == tb and ta in ("nat", "int", "lockresult", "bool", "onat"):
                return f"({ca} {sym} {cb})"
            if "lit" in (ta, tb) and {ta, tb} <= {"lit", "nat", "int"}:
                return f"({ca} {sym} {cb})"
            bad(node, f"== on {ta}/{tb}")
        sym = {ast.Lt: "<", ast.LtE: "≤", ast.Gt: ">", ast.GtE: "≥"}.get(type(op))
        if sym is None:
            bad(node, f"comparison {type(op).__name__}")
        if ta == "lit":
            ta = tb
        if tb == "lit":
            tb = ta
        if ta == tb and ta in ("nat", "int"):
            return f"(decide ({ca} {sym} {cb}))"
        if {ta, tb} == {"nat", "int"}:
            return f"(decide ({self.coerce(ca, ta, 'int', node)} {sym} {self.coerce(cb, tb, 'int', node)}))"
        bad(node, f"order comparison on {ta}/{tb}")

    def listcomp(self, n, env):
        if len(n.generators) != 1 or n.generators[0].is_async:
            bad(n, "list comprehension shape")
        g = n.generators[0]
        src, ts = self.ex(g.iter, env)
        if ts not in ("wlist", "deplist"):
            bad(n, f"comprehension over {ts}")
        if not (isinstance(g.target, ast.Tuple) and len(g.target.elts) == 2 and all(isinstance(e, ast.Name) for e in g.target.elts)):
            bad(n, "comprehension target")
        a, b = (e.id for e in g.target.elts)
        if not (isinstance(n.elt, ast.Tuple) and len(n.elt.elts) == 2 and is_name(n.elt.elts[0], a) and is_name(n.elt.elts[1], b)):
            bad(n, "comprehension element is not the unpacked pair itself")
        t2 = "int" if ts == "wlist" else "nat"
        env2 = dict(env, locals=dict(env["locals"], **{a: ("e.1", "nat"), b: ("e.2", t2)}))
        conds = [self.truth(*self.ex(c, env2), c) for c in g.ifs]
        if not conds:
            return src, ts
        return f"(({src}).filter (fun e => {' && '.join(conds)}))", ts

    # ------------------------------------------------------------------------------------------ statements
    def ret(self, env, value=None, raised=False):
        r = env["result"]
        if r == "lock":
            return "l"
        if r == "edges":
            return "E"
        if r == "sys":
            return "s"
        if r == "sc":
            return "(s, c)"
        if r == "lock*lockresult":
            return f"(l, {value})"
        if r == "lock*bool":
            return f"(l, {value})"
        if r == "lock*owait":
            return f"(l, {value})"
        if r == "sc*bool":
            return f"(s, c, {value})"
        if r == "sc*olockresult":
            return "(s, c, none)" if raised else f"(s, c, some {value})"
        raise Unsupported(f"result kind {r}")

    def state_tuple(self, env):
        return {"lock": "l", "graph": "E", "ctrl": "(s, c)", "lockbody": env.get("lockvar", "lock")}[env["mode"]]

    def rebind_state(self, env, pad, src):
        m = env["mode"]
        if m == "lock":
            return f"{pad}let l : Lock := {src}\n"
        if m == "graph":
            return f"{pad}let E : Edges := {src}\n"
        if m == "lockbody":
            return f"{pad}let {env['lockvar']} : Lock := {src}\n"
        return f"{pad}let sc : Sys × Ctx := {src}\n{pad}let s : Sys := sc.1\n{pad}let c : Ctx := sc.2\n"

    def writeback(self, env, var, pad):
        """a lock reference was mutated: write the object back into self.resources"""
        key = env["lockrefs"].get(var)
        return f"{pad}let s : Sys := s.setLock {key} {var}\n" if key else ""

    def block(self, stmts, env, ind, fin):
        pad = "  " * ind
        stmts = [s for s in stmts if not (isinstance(s, ast.Expr) and isinstance(s.value, ast.Constant))]
        if not stmts:
            return pad + fin(env)
        st, rest = stmts[0], stmts[1:]
        k = env["kind"]
        if isinstance(st, ast.Pass):
            return self.block(rest, env, ind, fin)
        if isinstance(st, ast.Return):
            if env.get("noreturn"):
                bad(st, "return inside a loop body")
            if st.value is None or (isinstance(st.value, ast.Constant) and st.value.value is None):
                if env["result"] in ("lock", "edges", "sys", "sc"):
                    return pad + self.ret(env)
                if env["result"] == "lock*owait":
                    return pad + self.ret(env, "none")
                bad(st, "return None from a method with a result")
            if env["result"] == "lock*owait":
                # return self.waiting_list.pop(0)
                v = st.value
                if (isinstance(v, ast.Call) and isinstance(v.func, ast.Attribute) and v.func.attr == "pop"
                        and is_attr(v.func.value, "self", "waiting_list") and len(v.args) == 1
                        and isinstance(v.args[0], ast.Constant) and v.args[0].value == 0 and not v.keywords):
                    return (f"{pad}match l.waiting with\n{pad}| [] => keyError (l, none)\n"
                            f"{pad}| x :: xs => ({{ l with waiting := xs }}, some x)")
                bad(st, "return value of pop_next_waiter")
            c, t = self.ex(st.value, env)
            want = {"lock*lockresult": "lockresult", "lock*bool": "bool", "sc*bool": "bool",
                    "sc*olockresult": "lockresult"}.get(env["result"])
            if want is None:
                bad(st, "return with a value from a method without result")
            if t != want:
                bad(st, f"return of {t}, expected {want}")
            return pad + self.ret(env, c)
        if isinstance(st, ast.Raise):
            if env["result"] != "sc*olockresult" or env.get("noreturn"):
                bad(st, "raise")
            return pad + self.ret(env, raised=True)
        if isinstance(st, ast.If):
            # `if rid not in self.resources: raise ...` opens the scope in which self.resources[rid] exists
            t = st.test
            if (k == "ctrl" and isinstance(t, ast.Compare) and len(t.ops) == 1 and isinstance(t.ops[0], ast.NotIn)
                    and self.strip_snapshot(t.comparators[0]) == "self.resources" and not st.orelse):
                kc, kt = self.ex(t.left, env)
                key = self.coerce(kc, kt, "nat", t)
                body = self.block(st.body, env, ind + 1, lambda e: (_ for _ in ()).throw(Unsupported("guard on self.resources must raise or return")))
                env2 = dict(env, registered=dict(env.get("registered", {}), **{key: f"reg_{len(env.get('registered', {}))}"}))
                var = env2["registered"][key]
                return (f"{pad}match s.locks {key} with\n{pad}| none =>\n{body}\n{pad}| some {var} =>\n"
                        + self.block(rest, env2, ind + 1, fin))
            # `if not <bool local>: A else: B` is `if <bool local>: B else: A` (an early `if not released: return
            # released` instead of nesting the rest under `if released:`)
            if isinstance(t, ast.UnaryOp) and isinstance(t.op, ast.Not) and isinstance(t.operand, ast.Name) \
                    and env["locals"].get(t.operand.id, (None, None))[1] == "bool":
                sw = ast.copy_location(ast.If(test=t.operand, body=list(st.orelse) or [ast.copy_location(ast.Pass(), st)],
                                              orelse=list(st.body)), st)
                return self.block([sw] + rest, env, ind, fin)
            c = self.truth(*self.ex(t, env), t)
            if c == "true":                       # a branch on a constant (a new parameter at its default)
                return self.block(st.body + rest, env, ind, fin)
            if c in ("false", "(!true)"):
                return self.block(st.orelse + rest, env, ind, fin)
            if c == "(!false)":
                return self.block(st.body + rest, env, ind, fin)
            a = self.block(st.body + rest, env, ind + 1, fin)
            b = self.block(st.orelse + rest, env, ind + 1, fin)
            return f"{pad}if {c} then\n{a}\n{pad}else\n{b}"
        if isinstance(st, ast.For):
            return self.for_loop(st, rest, env, ind, fin)
        if isinstance(st, ast.While):
            return self.while_loop(st, rest, env, ind, fin)
        if isinstance(st, ast.Delete) and len(st.targets) == 1 and isinstance(st.targets[0], ast.Subscript):
            tg = st.targets[0]
            d, td = self.ex(tg.value, env)
            kc, kt = self.ex(tg.slice, env)
            key = self.coerce(kc, kt, "nat", st)
            if td == "dict":
                return f"{pad}let E : Edges := dictDel E {key}\n" + self.block(rest, env, ind, fin)
            if td == "keyset":
                return (f"{pad}let c : Ctx := {{ c with acquired := c.acquired.erase {key} }}\n{pad}let s : Sys := s.setCtx c\n"
                        + self.block(rest, env, ind, fin))
            bad(st, f"del on {td}")
        if isinstance(st, ast.AugAssign):
            return self.assign(st.target, ast.BinOp(left=st.target, op=st.op, right=st.value), st, rest, env, ind, fin)
        if isinstance(st, ast.Assign) and len(st.targets) == 1:
            return self.assign(st.targets[0], st.value, st, rest, env, ind, fin)
        if isinstance(st, ast.Expr) and isinstance(st.value, ast.Call):
            return self.call_stmt(st.value, None, st, rest, env, ind, fin)
        bad(st, f"statement {type(st).__name__}")

    def arith(self, n, env):
        """value of an assignment right-hand side, incl. `x + 1` / `x - 1` on naturals"""
        if isinstance(n, ast.BinOp) and isinstance(n.op, (ast.Add, ast.Sub)):
            (a, ta), (b, tb) = self.ex(n.left, env), self.ex(n.right, env)
            if ta == "nat" and tb == "lit":
                return f"({a} {'+' if isinstance(n.op, ast.Add) else '-'} {b})", "nat"
            bad(n, f"arithmetic on {ta}/{tb}")
        return self.ex(n, env)

    def assign(self, target, value, st, rest, env, ind, fin):
        pad = "  " * ind
        k = env["kind"]
        # calls with a result: x = obj.method(...)
        if isinstance(value, ast.Call) and isinstance(target, ast.Name):
            return self.call_stmt(value, target.id, st, rest, env, ind, fin)
        # lock fields (self.<f> inside ResourceLock, <lockvar>.<f> inside a `for lock in ...values()` body)
        if isinstance(target, ast.Attribute) and isinstance(target.value, ast.Name):
            base = target.value.id
            lv = env["locals"].get(base)
            islock = (base == "self" and k == "lock") or (lv and lv[1] == "lockref")
            if islock:
                var = "l" if base == "self" else lv[0]
                if target.attr in LOCK_DROPPED:
                    return self.block(rest, env, ind, fin)
                if target.attr not in LOCK_FIELDS:
                    bad(st, f"assignment to lock attribute {target.attr}")
                f, t = LOCK_FIELDS[target.attr]
                c, tv = self.arith(value, env)
                if tv == "lit":
                    tv = t if t in ("nat", "int") else tv
                code = self.coerce(c, tv, t, st) if t != "wlist" else (c if tv == "wlist" else bad(st, "waiting_list value"))
                out = f"{pad}let {var} : Lock := {{ {var} with {f} := {code} }}\n"
                out += self.writeback(env, var, pad) if base != "self" else ""
                return out + self.block(rest, env, ind, fin)
        # self.edges[k] = v
        if isinstance(target, ast.Subscript) and k == "graph" and is_attr(target.value, "self", "edges"):
            kc, kt = self.ex(target.slice, env)
            key = self.coerce(kc, kt, "nat", st)
            if isinstance(value, ast.List) and not value.elts:
                v = "[]"
            else:
                v, tv = self.ex(value, env)
                if tv != "deplist":
                    bad(st, f"dict value of type {tv}")
            return f"{pad}let E : Edges := dictSet E {key} {v}\n" + self.block(rest, env, ind, fin)
        # locals
        if isinstance(target, ast.Name):
            # lock = self.resources[rid]  /  lock = ctx.acquired_resources[rid]
            if k == "ctrl" and isinstance(value, ast.Subscript):
                d, td = self.ex(value.value, env)
                kc, kt = self.ex(value.slice, env)
                key = self.coerce(kc, kt, "nat", st)
                if td == "resdict":
                    reg = env.get("registered", {}).get(key)
                    if reg is None:
                        bad(st, "self.resources[...] without a dominating `not in self.resources` guard")
                    env2 = dict(env, locals=dict(env["locals"], **{target.id: (f"v_{target.id}", "lockref")}),
                                lockrefs=dict(env["lockrefs"], **{f"v_{target.id}": key}))
                    return f"{pad}let v_{target.id} : Lock := {reg}\n" + self.block(rest, env2, ind, fin)
                if td == "keyset":
                    if not env.get("inkeys", {}).get(key):
                        bad(st, "ctx.acquired_resources[...] without a dominating membership test")
                    env2 = dict(env, locals=dict(env["locals"], **{target.id: (f"v_{target.id}", "lockref")}),
                                lockrefs=dict(env["lockrefs"], **{f"v_{target.id}": key}))
                    # the context holds the registered lock object (aliasing assumption of the model)
                    return (f"{pad}match s.locks {key} with\n{pad}| none => keyError {self.ret(env, 'false') if env['result'] == 'sc*bool' else bad(st, 'lookup')}\n"
                            f"{pad}| some v_{target.id} =>\n" + self.block(rest, env2, ind + 1, fin))
            c, t = self.ex(value, env)
            if t == "lit":
                t = "nat"
            vn = f"v_{env.get('pfx', '')}{target.id}"
            env2 = dict(env, locals=dict(env["locals"], **{target.id: (vn, t)}))
            return f"{pad}let {vn} := {c}\n" + self.block(rest, env2, ind, fin)
        bad(st, f"assignment to {ast.unparse(target)}")

    def kwargs(self, call, names, node):
        """positional + keyword arguments in declaration order"""
        vals = list(call.args)
        if len(vals) > len(names):
            bad(node, "too many arguments")
        out = {n: v for n, v in zip(names, vals)}
        for kw in call.keywords:
            if kw.arg is None or kw.arg not in names or kw.arg in out:
                bad(node, f"keyword argument {kw.arg}")
            out[kw.arg] = kw.value
        if set(out) != set(names):
            bad(node, "missing arguments")
        return [out[n] for n in names]

    def call_stmt(self, call, result_name, st, rest, env, ind, fin):
        pad = "  " * ind
        k = env["kind"]
        f = call.func
        root = f
        while isinstance(root, (ast.Attribute, ast.Call)):
            root = root.value if isinstance(root, ast.Attribute) else root.func
        if isinstance(root, ast.Name) and root.id in ("logger", "logging", "log", "_logger", "_log", "LOGGER", "print", "warnings") \
                and result_name is None:
            for sub in ast.walk(call):       # the arguments must not do anything
                if isinstance(sub, ast.Call) and sub is not call and not (isinstance(sub.func, ast.Name) and sub.func.id in ("str", "repr", "len")):
                    bad(st, "call inside a logging call")
            return self.block(rest, env, ind, fin)
        if not isinstance(f, ast.Attribute):
            bad(st, f"call {ast.unparse(f)}")
        m = f.attr
        recv = f.value
        lv = env["locals"].get(recv.id) if isinstance(recv, ast.Name) else None
        # list methods on self.waiting_list / self.edges[k]
        if m == "append" and len(call.args) == 1 and not call.keywords and result_name is None:
            if k == "lock" and is_attr(recv, "self", "waiting_list"):
                v, tv = self.ex(call.args[0], env)
                if tv != "pair:nat:int":
                    bad(st, f"append of {tv} to waiting_list")
                return f"{pad}let l : Lock := {{ l with waiting := l.waiting ++ [{v}] }}\n" + self.block(rest, env, ind, fin)
            if k == "graph" and isinstance(recv, ast.Subscript) and is_attr(recv.value, "self", "edges"):
                kc, kt = self.ex(recv.slice, env)
                key = self.coerce(kc, kt, "nat", st)
                v, tv = self.ex(call.args[0], env)
                if tv != "pair:nat:nat":
                    bad(st, f"append of {tv} to an edge list")
                return (f"{pad}let E : Edges := dictSet E {key} (dictGet E {key} ++ [{v}])\n"
                        + self.block(rest, env, ind, fin))
        if m == "sort" and k == "lock" and is_attr(recv, "self", "waiting_list") and result_name is None:
            kws = {kw.arg: kw.value for kw in call.keywords}
            key = kws.get("key")
            rev = kws.get("reverse")
            if isinstance(rev, ast.Name) and rev.id not in env["locals"] and rev.id in self.consts:
                rev = ast.Constant(value=self.consts[rev.id])
            ok = (not call.args and set(kws) == {"key", "reverse"} and isinstance(rev, ast.Constant)
                  and rev.value is True and self.is_second_item_key(key, env))
            if not ok:
                bad(st, "sort other than sort(key=lambda x: x[1], reverse=True)")
            return f"{pad}let l : Lock := {{ l with waiting := sortDesc l.waiting }}\n" + self.block(rest, env, ind, fin)
        # self._add_to_waiting(...) inside ResourceLock
        if k == "lock" and is_name(recv, "self") and m in SPEC and SPEC[m][0] == "ResourceLock" and SPEC[m][3] == "lock":
            self.need(m, st)
            args = self.args_for(m, call, env, st)
            return f"{pad}let l : Lock := Tr.{SPEC[m][1]} l{args}\n" + self.block(rest, env, ind, fin)
        # lock.try_acquire / lock.release on a lock reference (controller)
        if lv and lv[1] == "lockref" and m in SPEC and SPEC[m][0] == "ResourceLock":
            self.need(m, st)
            args = self.args_for(m, call, env, st)
            var = lv[0]
            rk = SPEC[m][3]
            out = f"{pad}let r := Tr.{SPEC[m][1]} {var}{args}\n"
            if rk == "lock":
                out = f"{pad}let {var} : Lock := Tr.{SPEC[m][1]} {var}{args}\n" + self.writeback(env, var, pad)
                return out + self.block(rest, env, ind, fin)
            out += f"{pad}let {var} : Lock := r.1\n" + self.writeback(env, var, pad)
            env2 = env
            if result_name is not None:
                t = {"lock*lockresult": "lockresult", "lock*bool": "bool"}.get(rk)
                if t is None:
                    bad(st, f"result of {m}")
                out += f"{pad}let v_{result_name} := r.2\n"
                env2 = dict(env, locals=dict(env["locals"], **{result_name: (f"v_{result_name}", t)}))
            return out + self.block(rest, env2, ind, fin)
        # self.dependency_graph.<m>(...)
        if k == "ctrl" and is_attr(recv, "self", "dependency_graph") and m in SPEC and SPEC[m][0] == "DependencyGraph" \
                and result_name is None:
            self.need(m, st)
            args = self.args_for(m, call, env, st)
            return (f"{pad}let s : Sys := {{ s with edges := Tr.{SPEC[m][1]} s.edges{args} }}\n"
                    + self.block(rest, env, ind, fin))
        # ctx.add_acquired_resource(lock): inlined from OperationContext
        if lv and lv[1] == "ctx" and m == "add_acquired_resource" and result_name is None and len(call.args) == 1 \
                and not call.keywords and isinstance(call.args[0], ast.Name):
            self.check_add_acquired()
            lk = env["locals"].get(call.args[0].id)
            if not lk or lk[1] != "lockref":
                bad(st, "add_acquired_resource of something that is not a registered lock")
            key = env["lockrefs"][lk[0]]
            return (f"{pad}let c : Ctx := {{ c with acquired := addKey c.acquired {key} }}\n{pad}let s : Sys := s.setCtx c\n"
                    + self.block(rest, env, ind, fin))
        # private helper of the same class that is not itself modelled: inline its body
        if is_name(recv, "self") and m not in SPEC and result_name is None:
            cls = {"lock": "ResourceLock", "graph": "DependencyGraph", "ctrl": "CellCycleController"}.get(k)
            fn = self.classes.get(cls, {}).get(m)
            if fn is not None and self.inline_depth < 4:
                return self.inline_helper(fn, call, st, rest, env, ind, fin)
        bad(st, f"call {ast.unparse(f)}(...)")

    def inline_helper(self, fn, call, st, rest, env, ind, fin):
        a = fn.args
        if a.vararg or a.kwarg or a.posonlyargs or fn.decorator_list:
            bad(st, f"signature of helper {fn.name}")
        body = [s for s in fn.body if not (isinstance(s, ast.Expr) and isinstance(s.value, ast.Constant))]
        if body and isinstance(body[-1], ast.Return) and (body[-1].value is None or (isinstance(body[-1].value, ast.Constant) and body[-1].value.value is None)):
            body = body[:-1]
        for sub in ast.walk(ast.Module(body=body, type_ignores=[])):
            if isinstance(sub, (ast.Return, ast.Raise)):
                bad(st, f"helper {fn.name} returns / raises in the middle")
        names = [x.arg for x in a.args[1:]] + [x.arg for x in a.kwonlyargs]
        defaults = dict(zip([x.arg for x in a.args[1:]][len(a.args) - 1 - len(a.defaults):], a.defaults))
        defaults.update({x.arg: d for x, d in zip(a.kwonlyargs, a.kw_defaults) if d is not None})
        given = {n: v for n, v in zip(names, call.args)}
        for kw in call.keywords:
            if kw.arg is None or kw.arg not in names or kw.arg in given:
                bad(st, f"argument {kw.arg} of helper {fn.name}")
            given[kw.arg] = kw.value
        pad = "  " * ind
        out = ""
        locs = {}
        pfx = f"h{self.inline_depth}_{fn.name.lstrip('_')}_"
        for n in names:
            v = given.get(n, defaults.get(n))
            if v is None:
                bad(st, f"missing argument {n} of helper {fn.name}")
            if isinstance(v, ast.Name) and v.id in env["locals"] and env["locals"][v.id][1] in ("ctx", "lockref"):
                locs[n] = env["locals"][v.id]
                continue
            c, t = self.ex(v, env)
            if t == "lit":
                t = "nat"
            if t in ("nat", "int", "bool", "onat", "lockresult") or t.startswith("pair:"):
                out += f"{pad}let v_{pfx}{n} := {c}\n"
                locs[n] = (f"v_{pfx}{n}", t)
            elif t == "none":
                locs[n] = ("none", "none")
            else:
                bad(st, f"argument of type {t} to helper {fn.name}")
        lockrefs = dict(env["lockrefs"])
        env2 = dict(env, locals=locs, pfx=pfx, lockrefs=lockrefs, caller=(rest, env, fin))
        self.inline_depth += 1
        try:
            # the helper's statements, then the caller's remaining statements with the caller's own names
            def after(e):
                return self.block(rest, dict(env, lockrefs=e["lockrefs"]), 0, fin).lstrip()
            return out + self.block(body, env2, ind, after)
        finally:
            self.inline_depth -= 1

    def check_add_acquired(self):
        fn = self.classes.get("OperationContext", {}).get("add_acquired_resource")
        if fn is None:
            raise Unsupported("OperationContext.add_acquired_resource not found")
        body = [s for s in fn.body if not (isinstance(s, ast.Expr) and isinstance(s.value, ast.Constant))]
        ok = (len(body) == 1 and isinstance(body[0], ast.Assign) and len(body[0].targets) == 1
              and ast.unparse(body[0].targets[0]) == "self.acquired_resources[lock.resource_id]"
              and ast.unparse(body[0].value) == "lock")
        if not ok:
            bad(fn, "add_acquired_resource is not `self.acquired_resources[lock.resource_id] = lock`")

    def need(self, m, node):
        """a caller of an untranslatable method still calls `Tr.<callee>`: only the callee's theorem fails"""
        return

    def args_for(self, m, call, env, node):
        names = [p for p, t in SPEC[m][2] if t != "ctx"]
        types = [t for p, t in SPEC[m][2] if t != "ctx"]
        vals = self.kwargs(call, names, node)
        out = ""
        for v, t in zip(vals, types):
            c, tv = self.ex(v, env)
            if tv == "lit":
                tv = t
            out += " " + self.coerce(c, tv, t, v)
        return out

    # ------------------------------------------------------------------------------------------ loops
    def for_loop(self, st, rest, env, ind, fin):
        pad = "  " * ind
        k = env["kind"]
        if st.orelse or not isinstance(st.target, ast.Name):
            bad(st, "for loop shape")
        it = ast.unparse(st.iter)
        for w in ("list(", "tuple("):             # a snapshot is a snapshot
            if it.startswith(w) and it.endswith(")"):
                it = "list(" + it[len(w):-1] + ")"
        if it.startswith("list(") and not it.endswith(".keys())") and not it.endswith(".values())"):
            it = it[:-1] + ".keys())"             # iterating a dict is iterating its keys
        if it == "list(self.resources.values())":
            it = "self.resources.values()"
        v = st.target.id
        if k == "graph" and it == "list(self.edges.keys())":
            env2 = dict(env, locals=dict(env["locals"], **{v: (f"v_{v}", "nat")}), noreturn=True)
            body = self.block(st.body, env2, ind + 2, lambda e: "E")
            return (f"{pad}let E : Edges := (dictKeys E).foldl (fun E v_{v} =>\n{body}) E\n"
                    + self.block(rest, env, ind, fin))
        if k == "ctrl" and it.startswith("list(") and it.endswith(".acquired_resources.keys())"):
            base = it[5:-len(".acquired_resources.keys())")]
            if env["locals"].get(base, (None, None))[1] != "ctx":
                bad(st, "iteration source")
            env2 = dict(env, locals=dict(env["locals"], **{v: (f"v_{v}", "nat")}), noreturn=True)
            body = self.block(st.body, env2, ind + 2, lambda e: "(s, c)")
            return (f"{pad}let sc : Sys × Ctx := (c.acquired).foldl (fun sc v_{v} =>\n{pad}    let s : Sys := sc.1\n"
                    f"{pad}    let c : Ctx := sc.2\n{body}) (s, c)\n{pad}let s : Sys := sc.1\n{pad}let c : Ctx := sc.2\n"
                    + self.block(rest, env, ind, fin))
        if k == "ctrl" and it == "self.resources.values()":
            env2 = dict(env, locals={**{n: t for n, t in env["locals"].items() if t[1] in ("nat", "int")},
                                     v: (f"v_{v}", "lockref")}, lockrefs={}, noreturn=True, kind="lockbody", mode="lockbody",
                        lockvar=f"v_{v}")
            # the body may only assign fields of the loop variable
            for n in ast.walk(ast.Module(body=st.body, type_ignores=[])):
                if isinstance(n, (ast.Call, ast.For, ast.While, ast.Delete, ast.Return, ast.Raise)):
                    bad(n, "statement inside `for lock in self.resources.values()`")
                if isinstance(n, ast.Attribute) and isinstance(n.ctx, ast.Store) and not is_name(n.value, v):
                    bad(n, "assignment to something other than the loop's lock")
            body = self.block(st.body, env2, ind + 2, lambda e: f"v_{v}")
            return (f"{pad}let s : Sys := s.mapLocks (fun v_{v} =>\n{body})\n" + self.block(rest, env, ind, fin))
        bad(st, f"for loop over {it}")

    def while_loop(self, st, rest, env, ind, fin):
        pad = "  " * ind
        t = st.test
        ok = (env["kind"] == "ctrl" and not st.orelse and len(st.body) == 1 and isinstance(st.body[0], ast.Pass)
              and isinstance(t, ast.BoolOp) and isinstance(t.op, ast.And) and len(t.values) == 2)
        if ok:
            call, member = t.values
            ok = (isinstance(call, ast.Call) and is_attr(call.func, "self", "release_resource") and not call.keywords
                  and len(call.args) == 2 and isinstance(call.args[0], ast.Name) and isinstance(call.args[1], ast.Name)
                  and env["locals"].get(call.args[0].id, (0, 0))[1] == "ctx"
                  and isinstance(member, ast.Compare) and len(member.ops) == 1 and isinstance(member.ops[0], ast.In)
                  and is_name(member.left, call.args[1].id)
                  and self.strip_snapshot(member.comparators[0]) == f"{call.args[0].id}.acquired_resources")
        if not ok:
            # the same loop spelled `while self.release_resource(ctx, rid): if rid not in ctx.acquired_resources: break`
            body = [b for b in st.body if not isinstance(b, ast.Pass)
                    and not (isinstance(b, ast.Expr) and isinstance(b.value, ast.Constant))]
            call = t
            ok = (env["kind"] == "ctrl" and not st.orelse and len(body) == 1 and isinstance(body[0], ast.If)
                  and not body[0].orelse and len(body[0].body) == 1 and isinstance(body[0].body[0], ast.Break)
                  and isinstance(call, ast.Call) and is_attr(call.func, "self", "release_resource") and not call.keywords
                  and len(call.args) == 2 and isinstance(call.args[0], ast.Name) and isinstance(call.args[1], ast.Name)
                  and env["locals"].get(call.args[0].id, (0, 0))[1] == "ctx")
            if ok:
                g = body[0].test
                if isinstance(g, ast.UnaryOp) and isinstance(g.op, ast.Not) and isinstance(g.operand, ast.Compare) \
                        and len(g.operand.ops) == 1 and isinstance(g.operand.ops[0], ast.In):
                    g = ast.Compare(left=g.operand.left, ops=[ast.NotIn()], comparators=g.operand.comparators)
                ok = (isinstance(g, ast.Compare) and len(g.ops) == 1 and isinstance(g.ops[0], ast.NotIn)
                      and is_name(g.left, call.args[1].id)
                      and self.strip_snapshot(g.comparators[0]) == f"{call.args[0].id}.acquired_resources")
        if not ok:
            bad(st, "while loop other than `while self.release_resource(ctx, rid) and rid in ctx.acquired_resources: pass`")
        self.need("release_resource", st)
        rid, tr = self.ex(call.args[1], env)
        if tr != "nat":
            bad(st, "resource id")
        return (f"{pad}let sc : Sys × Ctx := whileFuel (holdOf s {rid} + 1) (fun sc =>\n"
                f"{pad}    let r := Tr.release_resource sc.1 sc.2 {rid}\n"
                f"{pad}    ((r.1, r.2.1), r.2.2 && (r.2.1.acquired).contains {rid})) (s, c)\n"
                f"{pad}let s : Sys := sc.1\n{pad}let c : Ctx := sc.2\n" + self.block(rest, env, ind, fin))

    # ------------------------------------------------------------------------------------------ methods
    def method(self, m):
        cls, lname, params, result = SPEC[m]
        self.cur = m
        fn = self.classes.get(cls, {}).get(m)
        if fn is None:
            raise Unsupported(f"{cls}.{m} not found")
        a = fn.args
        if a.vararg or a.kwarg or a.posonlyargs or fn.decorator_list:
            bad(fn, f"signature of {m}")
        names = [arg.arg for arg in a.args[1:]]
        want = [n for n, _ in params]
        if names[:len(want)] != want:
            bad(fn, f"parameters {names} differ from the modelled ones {want}")
        # extra parameters must have a literal default: the translated callers never pass them
        extra = {}
        pos_defaults = dict(zip(names[len(names) - len(a.defaults):], a.defaults))
        for n in names[len(want):]:
            if n not in pos_defaults:
                bad(fn, f"new parameter {n} without default")
            extra[n] = pos_defaults[n]
        for arg, d in zip(a.kwonlyargs, a.kw_defaults):
            if d is None:
                bad(fn, f"new keyword-only parameter {arg.arg} without default")
            extra[arg.arg] = d
        kind = {"ResourceLock": "lock", "DependencyGraph": "graph", "CellCycleController": "ctrl"}[cls]
        locs = {}
        for name, t in params:
            locs[name] = ("c", "ctx") if t == "ctx" else (f"p_{name}", t)
        for name, d in extra.items():
            try:
                v = ast.literal_eval(d)
            except Exception:
                bad(fn, f"default of new parameter {name} is not a literal")
            if v is None:
                locs[name] = ("none", "none")
            elif isinstance(v, bool):
                locs[name] = ("true" if v else "false", "bool")
            elif isinstance(v, int):
                locs[name] = (str(v), "lit")
            else:
                bad(fn, f"default of new parameter {name}")
        env = {"kind": kind, "mode": kind, "locals": locs, "result": result, "lockrefs": {}, "registered": {}, "inkeys": {}}
        body = list(fn.body)
        # `if rid not in ctx.acquired_resources: return False` opens the scope in which ctx.acquired_resources[rid] exists
        return self.block_with_key_guard(body, env)

    @staticmethod
    def strip_snapshot(n):
        """source text of a container expression without list/tuple/set/frozenset(...) and .keys() around it"""
        while True:
            if isinstance(n, ast.Call) and isinstance(n.func, ast.Name) and n.func.id in ("list", "tuple", "set", "frozenset") \
                    and len(n.args) == 1 and not n.keywords:
                n = n.args[0]
            elif isinstance(n, ast.Call) and isinstance(n.func, ast.Attribute) and n.func.attr == "keys" and not n.args:
                n = n.func.value
            else:
                return ast.unparse(n)

    def block_with_key_guard(self, body, env):
        def fin(e):
            if e["result"] in ("lock", "edges", "sys", "sc"):
                return self.ret(e)
            raise Unsupported("falls off the end of a method with a result")
        stmts = [s for s in body if not (isinstance(s, ast.Expr) and isinstance(s.value, ast.Constant))]
        if (env["kind"] == "ctrl" and stmts and isinstance(stmts[0], ast.If) and not stmts[0].orelse
                and isinstance(stmts[0].test, ast.Compare) and isinstance(stmts[0].test.ops[0], ast.NotIn)
                and self.strip_snapshot(stmts[0].test.comparators[0]).endswith(".acquired_resources")
                and len(stmts[0].body) == 1 and isinstance(stmts[0].body[0], ast.Return)):
            t = stmts[0].test
            kc, kt = self.ex(t.left, env)
            key = self.coerce(kc, kt, "nat", t)
            c = self.truth(*self.ex(t, env), t)
            a = self.block(stmts[0].body, env, 3, fin)
            env2 = dict(env, inkeys={key: True})
            b = self.block(stmts[1:], env2, 3, fin)
            return f"    if {c} then\n{a}\n    else\n{b}"
        return self.block(stmts, env, 2, fin)


def render(types_src: str, ctrl_src: str):
    info = {"unsupported": {}, "methods": [], "optional_as_value": []}
    head = ("import Operon.Model.CoordPrim\n"
            "/- GENERATED by harness/vf/extract/py2lean_coord.py from operon_ai/coordination/types.py and controller.py on\n"
            "   every run; do not edit.  Each definition is the translation of the Python method of the same name (see the\n"
            "   translator for the supported subset).  `untranslatable \"...\"` marks a method that left the subset: its\n"
            "   agreement theorem c14_translation_agrees_<method> then fails. -/\n"
            "namespace Operon.Coord\n"
            "set_option linter.unusedVariables false\n\n")
    try:
        tr = Tr(types_src, ctrl_src)
        glob = None
    except SyntaxError as e:
        tr, glob = None, f"syntax error: {e}"
    out = head
    for m in ORDER:
        cls, lname, params, result = SPEC[m]
        body = None
        if tr is None:
            info["unsupported"][m] = glob
        else:
            try:
                body = tr.method(m)
                tr.done[m] = True
            except Unsupported as e:
                info["unsupported"][m] = str(e)
                tr.done[m] = False
            except RecursionError:
                info["unsupported"][m] = "recursion"
                tr.done[m] = False
            except Exception as e:  # noqa  (a translator bug must fail closed for this method only)
                info["unsupported"][m] = f"translator error {type(e).__name__}: {e}"
                tr.done[m] = False
        state = {"ResourceLock": "(l : Lock)", "DependencyGraph": "(E : Edges)"}.get(cls)
        if state is None:
            state = "(s : Sys) (c : Ctx)" if any(t == "ctx" for _, t in params) else "(s : Sys)"
        ps = "".join(f" (p_{n} : {LEAN_T[t]})" for n, t in params if t != "ctx")
        out += f"/-- translation of `{cls}.{m}` -/\n"
        out += f"def Tr.{lname} {state}{ps} : {RESULT_T[result]} :=\n"
        if body is None:
            why = info["unsupported"].get(m, "unsupported").replace('"', "'").replace("\\", "/")
            out += f'    untranslatable "{why}"\n\n'
        else:
            out += body + "\n\n"
        info["methods"].append(m)
    out += "end Operon.Coord\n"
    if tr is not None:
        info["optional_as_value"] = tr.optional_as_value
    return out, info


def run(repo: Path, lean_dir: Path, write_if_changed) -> list[dict]:
    def read(rel):
        try:
            return (Path(repo) / rel).read_text()
        except OSError:
            return ""
    text, info = render(read(TYPES_REL), read(CTRL_REL))
    changed = write_if_changed(Path(lean_dir) / "Operon/Gen/CoordTranslated.lean", text)
    return [{"id": "py2lean-coord", "facts_changed": bool(changed), "methods": info["methods"],
             "unsupported": info["unsupported"], "optional_as_value": info["optional_as_value"]}]


if __name__ == "__main__":
    import sys
    root = Path(sys.argv[1] if len(sys.argv) > 1 else "/repo")
    t, i = render((root / TYPES_REL).read_text(), (root / CTRL_REL).read_text())
    print(t)
    print(i, file=sys.stderr)
