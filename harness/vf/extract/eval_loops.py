"""C18: finite decision tables of the three budgeted loops, EVALUATED on the real classes through their public API.

Nothing is parsed: every table is obtained by running `ChaperoneLoop`, `RegenerativeSwarm` and `Nucleus` of the tree
under test on each point of a finite domain, so behaviour-preserving rewrites (helpers, constants hoisted, deque
instead of list, guard clauses) give the same file, and a behavioural change gives a different table and breaks the
theorem of lean/Operon/Props/C18.lean that consumes it:

  * healBudgetTable  : max_retries -2..5 -> generator calls made against a generator that never validates.
  * swarmBudgetTable : (max_regenerations -2..3, max_steps_per_worker -2..3) -> (workers spawned, steps on each worker)
                       against workers that never emit a marker and never repeat an output.
  * toolBudgetTable  : max_iterations -2..5 -> (tool rounds, plain completions) against a provider that asks for a tool
                       on every round.
    Each point is evaluated along several ROUTES that the property does not distinguish - the limit given to the
    constructor, ASSIGNED to the public attribute of an object built with another limit, assigned on an object that has
    already served a call; positional / keyword for the per-call `max_iterations`; real / stub Mitochondria.  Routes
    that disagree -> `none`.
  * defaultBudgets   : the same counts for objects built / calls made WITHOUT naming the limit (the defaults), and the
                       default values read from the dataclass fields / the signature.
  * markerTable      : probe string -> did a one-step worker returning it make supervise() succeed?  (`_is_success`)
  * collapseTable    : (outputs of one worker as a restricted-growth string of length 5 over <= 3 symbols, threshold
                       as numerator and denominator) ->
                       steps run on that worker before it was given up (window of 3, entropy test, `<`).
  * validTable       : HealingOutcome -> HealingResult.valid
  * traceTable       : error_trace the validator reported (None / "" / texts) -> was the default text recorded instead?
  * prefixTable      : length of the raw output -> how many of its characters the retry was shown.
  * healedTable      : validator accepts from its k-th answer on (k = 0..5, max_retries 3) -> (outcome, tagged, generator
                       calls, valid); the folded protein must be the validator's last answer, DEGRADED carries none.
  * threadTable      : provider call j of a tool loop (3 rounds + final completion) -> which tool executions' results its
                       prompt carries (exactly those of the round before), stub / real Mitochondria / reused nucleus.
  * hintTable        : spawn i of a never-succeeding swarm -> which summarizer answers its hints carry (exactly the one
                       for the worker before it); swarmBookkeeping: events / workers one call adds (fresh and reused).
  * feedTable        : retry i -> which earlier attempts' validator traces / raw outputs its error context carries
                       (must be exactly attempt i-1), on a fresh loop and on the second call of a used one.

Fail closed: any exception while evaluating a point, or an observation outside the expected vocabulary, makes that
entry `none`; the consuming theorem then fails.
"""
from __future__ import annotations

import datetime as _dt
import time as _time
import types as _types
from fractions import Fraction
from pathlib import Path


# ----------------------------------------------------------------------------------------------------------------
# clocks: every clock a loop module can reach BY NAME (datetime.now / utcnow / today, time.time / monotonic /
# perf_counter and their _ns forms, time.sleep) is replaced by one deterministic clock that ticks at every read
# and that the scripted callbacks move ("a slow step").  Used by the extractor and by harness/vf/props/c18.py.
# ----------------------------------------------------------------------------------------------------------------
class TickClock:
    BASE = _dt.datetime(2030, 1, 1, tzinfo=_dt.timezone.utc)

    def __init__(self, tick_us=1000):
        self.us, self.tick, self.reads, self.sleeps = 0, tick_us, 0, []

    def advance(self, us):
        self.us += int(us)

    def read(self):
        self.us += self.tick
        self.reads += 1
        return self.us


def _fake_datetime(clock):
    class FakeDT(_dt.datetime):
        @classmethod
        def now(cls, tz=None):
            d = TickClock.BASE + _dt.timedelta(microseconds=clock.read())
            return d.astimezone(tz) if tz is not None else d.replace(tzinfo=None)

        @classmethod
        def utcnow(cls):
            return cls.now(_dt.timezone.utc).replace(tzinfo=None)

        @classmethod
        def today(cls):
            return cls.now()
    return FakeDT


class _Proxy:
    """a module look-alike: the names in `over` are answered from there, everything else by the real module"""
    def __init__(self, real, over):
        self.__dict__["_real"], self.__dict__["_over"] = real, over

    def __getattr__(self, k):
        o = self.__dict__["_over"]
        return o[k] if k in o else getattr(self.__dict__["_real"], k)


def _time_fakes(clock):
    def sleep(s):
        clock.sleeps.append(s)
        try:
            clock.advance(max(0.0, float(s)) * 1e6)
        except Exception:   # noqa
            pass
    tf = {"time": lambda: 1.9e9 + clock.read() / 1e6, "monotonic": lambda: clock.read() / 1e6,
          "perf_counter": lambda: clock.read() / 1e6, "time_ns": lambda: 1900000000000000000 + clock.read() * 1000,
          "monotonic_ns": lambda: clock.read() * 1000, "perf_counter_ns": lambda: clock.read() * 1000, "sleep": sleep}
    for k, f in tf.items():
        f._fake_clock_name = k        # a from-imported clock that is already a fake is recognised by this tag
    return tf


def install_clock(mod, clock):
    """replace the clocks module `mod` holds by name; returns what `restore_clock` needs"""
    saved = {}
    fdt, tf = _fake_datetime(clock), _time_fakes(clock)
    real_time = {getattr(_time, k): k for k in tf}
    for name, val in list(vars(mod).items()):
        new = None
        if val is _dt.datetime or (isinstance(val, type) and issubclass(val, _dt.datetime) and val.__name__ == "FakeDT"):
            new = fdt
        elif val is _dt or (isinstance(val, _Proxy) and val.__dict__["_real"] is _dt):
            new = _Proxy(_dt, {"datetime": fdt})
        elif val is _time or (isinstance(val, _Proxy) and val.__dict__["_real"] is _time):
            new = _Proxy(_time, tf)
        elif isinstance(val, _types.BuiltinFunctionType) and val in real_time:
            new = tf[real_time[val]]
        elif getattr(val, "_fake_clock_name", None) in tf:
            new = tf[val._fake_clock_name]
        if new is not None:
            saved[name] = val
            setattr(mod, name, new)
    return saved


def restore_clock(mod, saved):
    for name, val in saved.items():
        setattr(mod, name, val)

LIMS = [-2, -1, 0, 1, 2, 3, 4, 5, 8, 17, 33]      # small budgets densely, a few large ones (a bound that only gives way past a threshold)
SLIMS = [-2, -1, 0, 1, 2, 3]
SBIG = [(8, 1), (1, 8), (17, 2), (2, 17), (33, 0), (0, 33)]
CAPN = 40
TIMEOUTS = [_dt.timedelta(0), _dt.timedelta(microseconds=1), _dt.timedelta(seconds=1), _dt.timedelta(seconds=-1),
            _dt.timedelta.max, _dt.timedelta(hours=1)]

MARKER_PROBES = [
    "", " ", "ok", "SUCCESS", "success", "SuCcEsS", "SOLVED", "solved", "COMPLETE", "complete", "DONE", "done",
    "FINISHED", "finished", "FiNiShEd", "task done.", "all done <3>", "it is solved", "incomplete", "undone",
    "unfinished business", "Completed", "SUCCES", "UCCESS", "SUCCES S", "SOLVE", "OLVED", "solve d", "COMPLET",
    "OMPLETE", "complet e", "DON", "ONE", "DON E", "d.o.n.e", "FINISHE", "INISHED", "finish", "FINISH", "FINISHING",
    "SSECCUS", "ENOD", "STUCK: still thinking", "Step limit reached, task failed", "error", "fail", "FAILED", "OK",
    "YES", "READY", "PASS", "PASSED", "RESOLVED", "dissolved", "doing", "succeed", "SUCCEEDED", "fin", "END", "ended",
    "THE END", "COMPLETION", "accomplished", "TRUE", "1", "0", "None", "stop", "halt", "exit",
]


def _rgs(n, kmax):
    out = []

    def go(prefix, m):
        if len(prefix) == n:
            out.append(list(prefix))
            return
        for x in range(min(m + 1, kmax - 1) + 1):
            go(prefix + [x], max(m, x))
    go([0], 0)
    return out


PATTERNS = _rgs(5, 3)
THRS = [Fraction(-1), Fraction(0), Fraction(1, 4), Fraction(1, 2), Fraction(3, 4), Fraction(1), Fraction(2)]


class _Stop(Exception):
    pass


# ----------------------------------------------------------------------------------------------------------------
# heal
# ----------------------------------------------------------------------------------------------------------------
# The stand-ins for the collaborators are the library's OWN classes (of the tree under test) with only the callback of
# the loop scripted: a change that reads more of a collaborator (chaperone.max_retries, result.executed, worker.status)
# is then evaluated for what it does, not answered with `none` because a look-alike object lacked the attribute.
_LIB = {}


def _lib():
    if not _LIB:
        from operon_ai.organelles.chaperone import Chaperone, EnhancedFoldedProtein
        from operon_ai.organelles.mitochondria import Mitochondria
        from operon_ai.healing.regenerative_swarm import SimpleWorker
        from operon_ai.providers import ToolCall, ToolResult, ToolSchema

        class ChapBase(Chaperone):
            def __init__(self):
                super().__init__(silent=True)

        class MitoBase(Mitochondria):
            def __init__(self):
                super().__init__(silent=True)

            def export_tool_schemas(self):
                return [ToolSchema(name="t", description="tool", parameters_schema={"type": "object", "properties": {}})]

        class WorkerBase(SimpleWorker):
            def __init__(self, name):
                super().__init__(id=name, work_function=lambda task, memory: self.step(task))
        _LIB.update(ChapBase=ChapBase, MitoBase=MitoBase, WorkerBase=WorkerBase, EFP=EnhancedFoldedProtein,
                    ToolCall=ToolCall, ToolResult=ToolResult)
    return _LIB


def _Fold(valid, trace):
    return _lib()["EFP"](valid=valid, structure=None, raw_peptide_chain="", error_trace=trace, confidence=0.0)


def _Chap(trace="boom", valid_at=None):
    class C(_lib()["ChapBase"]):
        def fold_enhanced(self, raw, schema, *a, **kw):
            self.n += 1
            return _Fold(self.valid_at is not None and self.n - 1 >= self.valid_at, self.trace)
    c = C()
    c.trace, c.n, c.valid_at = trace, 0, valid_at
    return c


def _heal_count(loop):
    n = [0]

    def gen(prompt, ctx=None):
        n[0] += 1
        if n[0] > CAPN:
            raise _Stop()
        return f"bad {n[0]}"
    loop.generator = gen
    loop.chaperone = _Chap()
    try:
        r = loop.heal("p")
    except _Stop:
        return CAPN + 1
    if r.outcome.value != "degraded" or not r.ubiquitin_tagged or r.final_confidence != 0.0 or len(r.attempts) != n[0]:
        raise ValueError("never-valid generator not reported degraded")
    return n[0]


def _mk_loop(cl, schema, **kw):
    return cl.ChaperoneLoop(generator=lambda p, e=None: "x", chaperone=_Chap(), schema=schema, silent=True, **kw)


def heal_point(cl, schema, n):
    try:
        routes = []
        routes.append(_heal_count(_mk_loop(cl, schema, max_retries=n)))
        for other in (7, 0):
            lp = _mk_loop(cl, schema, max_retries=other)
            lp.max_retries = n
            routes.append(_heal_count(lp))
        lp = _mk_loop(cl, schema, max_retries=2)
        _heal_count(lp)
        lp.max_retries = n
        routes.append(_heal_count(lp))
        routes.append(_heal_count(lp))          # a second call on the same object
        lp = _mk_loop(cl, schema, max_retries=n, confidence_decay=0.5)
        lp.confidence_decay = 0.0
        routes.append(_heal_count(lp))
        return routes[0] if len(set(routes)) == 1 else None
    except Exception:
        return None


# ----------------------------------------------------------------------------------------------------------------
# swarm
# ----------------------------------------------------------------------------------------------------------------
def _swarm_run(rs, sw, outputs=None):
    """run supervise on `sw` with fresh counting callbacks; returns (steps per spawn, result)"""
    spawns = []
    clock = TickClock()          # 1 ms at every read; every second step of a worker takes 2 s more

    class W(_lib()["WorkerBase"]):
        def step(self, task):
            k = spawns[-1]
            spawns[-1] = k + 1
            if k % 2 == 0:
                clock.advance(2_000_000)
            if k > CAPN:
                raise _Stop()
            if outputs is not None:
                return outputs[min(k, len(outputs) - 1)]
            return f"out {len(spawns)} {k}"

    def fac(name, hints):
        if len(spawns) > CAPN:
            raise _Stop()
        spawns.append(0)
        return W(name)
    sw.worker_factory = fac
    sw.summarizer = lambda mem: []
    saved = install_clock(rs, clock)
    try:
        res = sw.supervise("t")
    except _Stop:
        return spawns, None
    finally:
        restore_clock(rs, saved)
    return spawns, res


def _mk_swarm(rs, **kw):
    return rs.RegenerativeSwarm(worker_factory=lambda n, h: None, summarizer=lambda m: [], silent=True, **kw)


def swarm_point(rs, mreg, ms):
    try:
        routes = []

        def obs(sw):
            spawns, res = _swarm_run(rs, sw)
            if res is None:
                return (CAPN + 1, CAPN + 1)
            if res.success or res.output is not None:
                raise ValueError("never-succeeding workers reported success")
            if len(set(spawns)) > 1:
                return None
            return (len(spawns), spawns[0] if spawns else 0)
        routes.append(obs(_mk_swarm(rs, max_regenerations=mreg, max_steps_per_worker=ms)))
        sw = _mk_swarm(rs, max_regenerations=5, max_steps_per_worker=7)
        sw.max_regenerations, sw.max_steps_per_worker = mreg, ms
        routes.append(obs(sw))
        sw = _mk_swarm(rs, max_regenerations=0, max_steps_per_worker=0)
        obs(sw)
        sw.max_regenerations, sw.max_steps_per_worker = mreg, ms
        routes.append(obs(sw))
        routes.append(obs(sw))
        # timing: `step_timeout` zero / tiny / one second (only the slow steps overrun it) / negative / the largest
        # timedelta, at construction and assigned later, against steps that take 1 ms resp. 2 s by every clock the
        # module can name - the budgets are the same
        if "step_timeout" in getattr(rs.RegenerativeSwarm, "__dataclass_fields__", {}):
            for to in TIMEOUTS:
                routes.append(obs(_mk_swarm(rs, max_regenerations=mreg, max_steps_per_worker=ms, step_timeout=to)))
            sw.step_timeout = TIMEOUTS[0]
            routes.append(obs(sw))
        if mreg < 0:                      # no worker: the step budget is not observable
            routes = [(r[0], 0) if r is not None else None for r in routes]
        return routes[0] if len(set(routes)) == 1 and routes[0] is not None else None
    except Exception:
        return None


def marker_point(rs, probe):
    try:
        answers = set()
        sw = _mk_swarm(rs, max_regenerations=0, max_steps_per_worker=1)
        spawns, res = _swarm_run(rs, sw, [probe])
        answers.add(bool(res.success))
        if res.success and res.output != probe:
            return None
        sw = _mk_swarm(rs, max_regenerations=1, max_steps_per_worker=3, entropy_threshold=0.9)
        spawns, res = _swarm_run(rs, sw, ["nothing yet", probe])
        answers.add(bool(res.success))
        if hasattr(sw, "_is_success"):
            answers.add(bool(sw._is_success(probe)))
        return answers.pop() if len(answers) == 1 else None
    except Exception:
        return None


def collapse_point(rs, pat, thr):
    try:
        outs = [f"o{x}" for x in pat]
        answers = set()
        for route in ("ctor", "assign"):
            if route == "ctor":
                sw = _mk_swarm(rs, max_regenerations=0, max_steps_per_worker=len(pat), entropy_threshold=float(thr))
            else:
                sw = _mk_swarm(rs, max_regenerations=0, max_steps_per_worker=len(pat), entropy_threshold=0.9)
                sw.entropy_threshold = float(thr)
            spawns, res = _swarm_run(rs, sw, outs)
            if res is None or res.success or len(spawns) != 1:
                return None
            answers.add(spawns[0])
        return answers.pop() if len(answers) == 1 else None
    except Exception:
        return None


# ----------------------------------------------------------------------------------------------------------------
# tool loop
# ----------------------------------------------------------------------------------------------------------------
def _tool_run(nu, providers, call_kw, positional=None, real_mito=False, nuc=None):
    cnt = {"T": 0, "C": 0}

    def Call(i):
        return _lib()["ToolCall"](id=f"c{i}", name="t", arguments={})

    def Res(cid):
        return _lib()["ToolResult"](call_id=cid, output="r", success=True, error=None)

    class Prov:
        name = "adv"

        def is_available(self):
            return True

        def complete(self, prompt, config=None):
            cnt["C"] += 1
            if cnt["C"] > CAPN:
                raise _Stop()
            return providers.LLMResponse("final", "m", 1, 1.0)

        def complete_with_tools(self, prompt, tools=None, config=None):
            cnt["T"] += 1
            if cnt["T"] > CAPN:
                raise _Stop()
            if real_mito:
                return providers.LLMResponse("round", "m", 1, 1.0), [providers.ToolCall(id=f"c{cnt['T']}", name="t", arguments={})]
            return providers.LLMResponse("round", "m", 1, 1.0), [Call(cnt["T"])]

    class Mito(_lib()["MitoBase"]):
        def execute_tool_call(self, call):
            return Res(call.id)
    if real_mito:
        from operon_ai.organelles.mitochondria import Mitochondria
        mito = Mitochondria(silent=True)
        mito.register_function("t", lambda **kw: "r", "tool")
    else:
        mito = Mito()
    if nuc is None:
        nuc = nu.Nucleus(provider=Prov())
    else:
        nuc.provider = Prov()
    try:
        if positional is not None:
            nuc.transcribe_with_tools("q", mito, None, positional)
        else:
            nuc.transcribe_with_tools("q", mito, **call_kw)
    except _Stop:
        return (CAPN + 1, CAPN + 1), nuc
    return (cnt["T"], cnt["C"]), nuc


def tool_point(nu, providers, n):
    try:
        routes = []
        r, nuc = _tool_run(nu, providers, {"max_iterations": n})
        routes.append(r)
        routes.append(_tool_run(nu, providers, {}, positional=n)[0])
        routes.append(_tool_run(nu, providers, {"max_iterations": n}, real_mito=True)[0])
        routes.append(_tool_run(nu, providers, {"max_iterations": n, "auto_execute": True}, nuc=nuc)[0])   # same nucleus again
        _, nuc2 = _tool_run(nu, providers, {"max_iterations": 3})
        routes.append(_tool_run(nu, providers, {"max_iterations": n}, nuc=nuc2)[0])
        return routes[0] if len(set(routes)) == 1 else None
    except Exception:
        return None


def hint_points(rs):
    """spawn i of a never-succeeding swarm (max_regenerations 3) -> which summarizer answers its memory hints carry
    (exactly the one given for the worker before it), plus the bookkeeping of the call: (apoptosis events,
    regeneration events, total_workers_spawned); a fresh swarm and the second call on a used one (events accumulate,
    so the second call is compared by its increments)"""
    def one(sw):
        seen = []
        n = [0]
        before = (len(sw._apoptosis_events), len(sw._regeneration_events), sw._worker_counter)

        class W(_lib()["WorkerBase"]):
            def step(self, task):
                n[0] += 1
                return f"out {n[0]}"

        def fac(name, hints):
            seen.append(list(hints))
            return W(name)
        k = [0]

        def summ(mem):
            k[0] += 1
            return [f"hint-{k[0] - 1}-end"]
        sw.worker_factory, sw.summarizer = fac, summ
        res = sw.supervise("t")
        if res.success or len(seen) != 4:
            return None
        after = (len(sw._apoptosis_events), len(sw._regeneration_events), sw._worker_counter)
        vis = [[j for j in range(6) if f"hint-{j}-end" in h] for h in seen]
        return vis, tuple(a - b for a, b in zip(after, before)), res.total_workers_spawned - before[2]
    try:
        a = one(_mk_swarm(rs, max_regenerations=3, max_steps_per_worker=2))
        sw = _mk_swarm(rs, max_regenerations=3, max_steps_per_worker=2)
        one(sw)
        b = one(sw)
        if a is None or a != b or a[2] != 4:
            return None
        return a[0], a[1]
    except Exception:
        return None


def thread_points(nu, providers):
    """provider call number j (3 tool rounds, then the final completion) -> which tool executions' results its prompt
    carries; routes: stub mitochondria / real Mitochondria / a nucleus that has already served a call"""
    def one(real_mito, nuc=None):
        prompts = []
        n = [0]

        def Call(i):
            return _lib()["ToolCall"](id=f"c{i}", name="t", arguments={})

        def Res(cid, out):
            return _lib()["ToolResult"](call_id=cid, output=out, success=True, error=None)

        def tool(**kw):
            n[0] += 1
            return f"res-{n[0] - 1}-end"

        class Prov:
            name = "adv"

            def is_available(self):
                return True

            def complete(self, prompt, config=None):
                prompts.append(prompt)
                return providers.LLMResponse("final", "m", 1, 1.0)

            def complete_with_tools(self, prompt, tools=None, config=None):
                prompts.append(prompt)
                k = len(prompts)
                if real_mito:
                    return providers.LLMResponse("round", "m", 1, 1.0), [providers.ToolCall(id=f"c{k}", name="t", arguments={})]
                return providers.LLMResponse("round", "m", 1, 1.0), [Call(k)]

        class Mito(_lib()["MitoBase"]):
            def execute_tool_call(self, call):
                return Res(call.id, tool())
        if real_mito:
            from operon_ai.organelles.mitochondria import Mitochondria
            mito = Mitochondria(silent=True)
            mito.register_function("t", tool, "tool")
        else:
            mito = Mito()
        if nuc is None:
            nuc = nu.Nucleus(provider=Prov())
        else:
            nuc.provider = Prov()
        nuc.transcribe_with_tools("q", mito, max_iterations=3)
        if len(prompts) != 4:
            return None, nuc
        return [[j for j in range(8) if f"res-{j}-end" in p] for p in prompts], nuc
    try:
        a, nuc = one(False)
        b, _ = one(True)
        c, _ = one(False, nuc)
        if a is None or a != b or a != c:
            return [None] * 4
        return a
    except Exception:
        return [None] * 4


# ----------------------------------------------------------------------------------------------------------------
# small tables of heal
# ----------------------------------------------------------------------------------------------------------------
TRACES = [None, "", "boom", " ", "0", "None", "x" * 300]


def trace_point(cl, schema, trace):
    """-> True when the default text was recorded / shown instead of the validator's trace"""
    try:
        seen = []

        def gen(prompt, ctx=None):
            seen.append(ctx)
            return "raw"
        lp = cl.ChaperoneLoop(generator=gen, chaperone=_Chap(trace=trace), schema=schema, max_retries=1, silent=True)
        r = lp.heal("p")
        rec = r.attempts[0].error_trace
        if not isinstance(rec, str) or not rec or len(seen) != 2 or not isinstance(seen[1], str) or rec not in seen[1]:
            return None
        if trace:
            return False if rec == trace else None
        return True
    except Exception:
        return None


PREFIX_LENS = [0, 1, 199, 200, 201, 250, 400]


def prefix_point(cl, schema, n):
    """-> number of leading characters of an n-character raw output that the retry is shown"""
    try:
        raw = "".join(chr(0x4E00 + i) for i in range(n))        # n distinct characters that occur nowhere else
        seen = []

        def gen(prompt, ctx=None):
            seen.append(ctx)
            return raw
        lp = cl.ChaperoneLoop(generator=gen, chaperone=_Chap(), schema=schema, max_retries=1, silent=True)
        lp.heal("p")
        ctx = seen[1]
        k = 0
        while k < n and raw[:k + 1] in ctx:
            k += 1
        if any(ch in ctx for ch in raw[k:]):        # something beyond the shown prefix leaked
            return None
        return k
    except Exception:
        return None


FEED_N = 4


def healed_point(cl, schema, k):
    """validator accepts from its k-th call on, max_retries = 3 -> (outcome, tagged, generator calls, result.valid);
    the folded protein must be the validator's own answer and the structure its structure; two routes"""
    def one(lp):
        n = [0]
        chap = _Chap(valid_at=k)
        last = []
        orig = chap.fold_enhanced

        def fold(raw, sch, *a, **kw):
            f = orig(raw, sch, *a, **kw)
            f.structure = ("S", chap.n)
            last.append(f)
            return f
        chap.fold_enhanced = fold

        def gen(prompt, ctx=None):
            n[0] += 1
            return f"out {n[0]}"
        lp.generator, lp.chaperone = gen, chap
        r = lp.heal("p")
        name = r.outcome.name
        if name in ("HEALED", "VALID_FIRST_TRY"):
            if r.folded is not last[-1] or r.structure != ("S", chap.n) or not last[-1].valid:
                return None
        elif r.folded is not None or r.structure is not None or r.final_confidence != 0.0:
            return None
        if len(r.attempts) != n[0]:
            return None
        return (name, bool(r.ubiquitin_tagged), n[0], bool(r.valid))
    try:
        a = one(_mk_loop(cl, schema, max_retries=3))
        lp = _mk_loop(cl, schema, max_retries=0)
        lp.max_retries = 3
        one(lp)
        b = one(lp)
        return a if a == b else None
    except Exception:
        return None


def feed_points(cl, schema):
    """-> for every retry i = 1..FEED_N: (indices of the earlier attempts whose validator trace is visible in the error
    context shown to attempt i, indices of the earlier attempts whose raw output is visible in it); along two routes
    (a fresh loop / the second call on a loop that has already healed once) that must agree"""
    def one(lp):
        seen = []

        class Chap(_lib()["ChapBase"]):
            n = 0

            def fold_enhanced(self, raw, sch, *a, **kw):
                self.n += 1
                return _Fold(False, f"trace-{self.n - 1}-end")

        def gen(prompt, ctx=None):
            seen.append(ctx)
            return f"bad-{len(seen) - 1}-out"
        lp.generator, lp.chaperone = gen, Chap()
        lp.heal("p")
        if len(seen) != FEED_N + 1 or seen[0] is not None or not all(isinstance(c, str) for c in seen[1:]):
            return None
        return [([j for j in range(FEED_N + 1) if f"trace-{j}-end" in seen[i]],
                 [j for j in range(FEED_N + 1) if f"bad-{j}-out" in seen[i]]) for i in range(1, FEED_N + 1)]
    try:
        a = one(_mk_loop(cl, schema, max_retries=FEED_N))
        lp = _mk_loop(cl, schema, max_retries=FEED_N)
        one(lp)
        b = one(lp)
        if a is None or a != b:
            return [None] * FEED_N
        return a
    except Exception:
        return [None] * FEED_N


def valid_point(cl, name):
    try:
        o = cl.HealingOutcome[name]
        r = cl.HealingResult(outcome=o, folded=None, attempts=[], final_confidence=0.0, ubiquitin_tagged=False)
        v = r.valid
        return v if isinstance(v, bool) else None
    except Exception:
        return None


def defaults(cl, rs, nu, providers, schema):
    """counts observed when the limit is not named at all + the default values as the classes declare them"""
    import dataclasses
    import inspect
    out = {}
    try:
        out["heal_calls"] = _heal_count(_mk_loop(cl, schema))
    except Exception:
        out["heal_calls"] = None
    try:
        spawns, res = _swarm_run(rs, _mk_swarm(rs))
        out["swarm"] = (len(spawns), spawns[0]) if res is not None and len(set(spawns)) == 1 else None
    except Exception:
        out["swarm"] = None
    try:
        out["tools"] = _tool_run(nu, providers, {})[0]
    except Exception:
        out["tools"] = None

    def fld(klass, name):
        try:
            for f in dataclasses.fields(klass):
                if f.name == name and isinstance(f.default, int) and not isinstance(f.default, bool):
                    return f.default
        except Exception:
            pass
        return None
    out["max_retries"] = fld(cl.ChaperoneLoop, "max_retries")
    out["max_regenerations"] = fld(rs.RegenerativeSwarm, "max_regenerations")
    out["max_steps_per_worker"] = fld(rs.RegenerativeSwarm, "max_steps_per_worker")
    try:
        d = inspect.signature(nu.Nucleus.transcribe_with_tools).parameters["max_iterations"].default
        out["max_iterations"] = d if isinstance(d, int) and not isinstance(d, bool) else None
    except Exception:
        out["max_iterations"] = None
    return out


# ----------------------------------------------------------------------------------------------------------------
def _opt(x, show=str):
    return "none" if x is None else f"(some {show(x)})"


def _int(n):
    return f"({n})" if n < 0 else str(n)


def _pair(p):
    return f"({p[0]}, {p[1]})"


def _str(s):
    return '"' + s.replace("\\", "\\\\").replace('"', '\\"') + '"'


def render(cl, rs, nu, providers):
    from pydantic import BaseModel

    class S(BaseModel):
        x: int
    poisoned = 0
    L = ["import Operon.Model.Loops",
         "/- GENERATED by harness/vf/extract/eval_loops.py on every run by EVALUATING ChaperoneLoop / RegenerativeSwarm /",
         "   Nucleus of the tree under test on finite domains (nothing is parsed); do not edit.  `none` = the evaluation of",
         "   that point failed or its routes disagreed: the consuming theorem of Operon/Props/C18.lean then fails. -/",
         "namespace Operon.Loops.Gen", ""]

    def table(name, doc, typ, rows):
        nonlocal poisoned
        L.append(f"/-- {doc} -/")
        L.append(f"def {name} : List ({typ}) := [")
        L.extend("  " + r + ("," if i + 1 < len(rows) else "") for i, r in enumerate(rows))
        L.append("]")
        L.append("")
        poisoned += sum(1 for r in rows if r.endswith("none)"))

    table("healBudgetTable", "max_retries ↦ generator calls against a generator that never validates", "Int × Option Nat",
          [f"({_int(n)}, {_opt(heal_point(cl, S, n))})" for n in LIMS])
    table("swarmBudgetTable", "(max_regenerations, max_steps_per_worker) ↦ (workers spawned, steps on each)",
          "(Int × Int) × Option (Nat × Nat)",
          [f"(({_int(a)}, {_int(b)}), {_opt(swarm_point(rs, a, b), _pair)})" for a, b in [(a, b) for a in SLIMS for b in SLIMS] + SBIG])
    table("toolBudgetTable", "max_iterations ↦ (tool rounds, plain completions) against a provider that always asks for a tool",
          "Int × Option (Nat × Nat)", [f"({_int(n)}, {_opt(tool_point(nu, providers, n), _pair)})" for n in LIMS])
    table("markerTable", "worker output ↦ supervise() reported success on it", "String × Option Bool",
          [f"({_str(p)}, {_opt(marker_point(rs, p), lambda b: 'true' if b else 'false')})" for p in MARKER_PROBES])
    table("collapseTable", "(outputs of one worker, entropy_threshold) ↦ steps run on it before it was given up",
          "(List Nat × Int × Nat) × Option Nat",
          [f"(([{', '.join(map(str, pat))}], {_int(t.numerator)}, {t.denominator}), {_opt(collapse_point(rs, pat, t))})"
           for pat in PATTERNS for t in THRS])
    table("validTable", "outcome ↦ HealingResult.valid", "Outcome × Option Bool",
          [f"(.{lean}, {_opt(valid_point(cl, py), lambda b: 'true' if b else 'false')})"
           for lean, py in (("validFirstTry", "VALID_FIRST_TRY"), ("healed", "HEALED"), ("degraded", "DEGRADED"))])
    table("traceTable", "error_trace reported by the validator ↦ the default text was recorded and shown instead",
          "Option String × Option Bool",
          [f"({_opt(t, _str)}, {_opt(trace_point(cl, S, t), lambda b: 'true' if b else 'false')})" for t in TRACES])
    table("prefixTable", "length of the raw output ↦ number of its leading characters the retry is shown", "Nat × Option Nat",
          [f"({n}, {_opt(prefix_point(cl, S, n))})" for n in PREFIX_LENS])
    oc = {"VALID_FIRST_TRY": ".validFirstTry", "HEALED": ".healed", "DEGRADED": ".degraded"}
    bl = lambda b: "true" if b else "false"     # noqa: E731

    def show_healed(q):
        return f"({oc[q[0]]}, {bl(q[1])}, {q[2]}, {bl(q[3])})" if q[0] in oc else None
    rows = []
    for k in range(0, 6):
        q = healed_point(cl, S, k)
        shown = show_healed(q) if q is not None else None
        rows.append(f"({k}, {'none' if shown is None else '(some ' + shown + ')'})")
    table("healedTable", "validator accepts from its k-th answer on, max_retries 3 ↦ (outcome, tagged, generator calls, valid)",
          "Nat × Option (Outcome × Bool × Nat × Bool)", rows)
    lst = lambda xs: "[" + ", ".join(map(str, xs)) + "]"     # noqa: E731
    table("feedTable", "retry i ↦ (attempts whose validator trace, attempts whose raw output) the error context shown to it carries",
          "Nat × Option (List Nat × List Nat)",
          [f"({i + 1}, {_opt(pt, lambda q: f'({lst(q[0])}, {lst(q[1])})')})" for i, pt in enumerate(feed_points(cl, S))])
    table("threadTable", "provider call j (three tool rounds, then the final completion) ↦ tool executions whose results its prompt carries",
          "Nat × Option (List Nat)",
          [f"({j}, {_opt(pt, lst)})" for j, pt in enumerate(thread_points(nu, providers))])
    hp = hint_points(rs)
    table("hintTable", "spawn i of a never-succeeding swarm (max_regenerations 3) ↦ summarizer answers its hints carry",
          "Nat × Option (List Nat)",
          [f"({i}, {_opt(None if hp is None else hp[0][i], lst)})" for i in range(4)])
    L.append("/-- (apoptosis events, regeneration events, workers) one such call adds -/")
    L.append("def swarmBookkeeping : Option (Nat × Nat × Nat) := "
             + ("none" if hp is None else f"(some ({hp[1][0]}, {hp[1][1]}, {hp[1][2]}))"))
    L.append("")
    d = defaults(cl, rs, nu, providers, S)
    L.append("/-- limits as the classes declare them when the caller does not name them -/")
    L.append(f"def defaultMaxRetries : Option Int := {_opt(d['max_retries'], _int)}")
    L.append(f"def defaultMaxRegenerations : Option Int := {_opt(d['max_regenerations'], _int)}")
    L.append(f"def defaultMaxSteps : Option Int := {_opt(d['max_steps_per_worker'], _int)}")
    L.append(f"def defaultMaxIterations : Option Int := {_opt(d['max_iterations'], _int)}")
    L.append("/-- counts observed on objects built / calls made without naming the limit -/")
    L.append(f"def defaultHealCalls : Option Nat := {_opt(d['heal_calls'])}")
    L.append(f"def defaultSwarm : Option (Nat × Nat) := {_opt(d['swarm'], _pair)}")
    L.append(f"def defaultTools : Option (Nat × Nat) := {_opt(d['tools'], _pair)}")
    poisoned += sum(1 for v in d.values() if v is None)
    L += ["", "end Operon.Loops.Gen", ""]
    return "\n".join(L), {"poisoned": poisoned}


def run(lean_dir: Path, write_if_changed, cl, rs, nu, providers) -> list[dict]:
    text, info = render(cl, rs, nu, providers)
    changed = write_if_changed(Path(lean_dir) / "Operon/Gen/LoopTables.lean", text)
    points = len(LIMS) * 2 + len(SLIMS) ** 2 + len(SBIG) + len(MARKER_PROBES) + len(PATTERNS) * len(THRS) + 3 + len(TRACES) + len(PREFIX_LENS) + FEED_N + 6 + 4 + 5 + 7
    return [{"id": "eval-loops", "facts_changed": bool(changed), "points": points, "poisoned": info["poisoned"]}]


if __name__ == "__main__":
    import sys
    sys.path.insert(0, sys.argv[1] if len(sys.argv) > 1 else "/repo")
    from operon_ai.healing import chaperone_loop as cl_, regenerative_swarm as rs_
    from operon_ai.organelles import nucleus as nu_
    from operon_ai import providers as pv_
    t, i = render(cl_, rs_, nu_, pv_)
    print(t)
    print(i, file=sys.stderr)
