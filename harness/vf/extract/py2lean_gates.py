"""py2lean (gates): translate the straight-line decision code of the two injection gates from the Python AST into
Lean definitions, regenerated into lean/Operon/Gen/GatesTranslated.lean on every run of ./check C10.

Translated (namespace Operon.Gates.Tr):
  checkRateLimit   Membrane._check_rate_limit                      : Membrane -> now -> Bool x List Nat
  filterTail       Membrane.filter from `allowed = ...` to the end  : Membrane -> content -> matched -> level -> Membrane x FilterOut
                   (audit append, counters, immune memory, on_threat hook - in source order; `self._log_result(...)`
                    is inlined)
  innateAllow      the `allowed = (...)` rule of InnateImmunity.check
  totalSeverity, patternCount, newLevel   the head of InnateImmunity._evaluate_inflammation
  lengthValidate, charsetValidate, jsonValidate   the `validate` methods of the three shipped validators
The theorems `c10_translation_agrees_*` (Props/C10.lean) state that each translation computes exactly what the
hand-written model computes; so the property theorems are theorems about the translated source.

Supported subset - nothing more: `if` / `elif` / `else`, early `return`, assignments to locals, comparisons of
naturals, `and` / `or` / `not`, `len(x)`, `x in content`, `X.value`, enum members (read from the class body), integer
literals and `+` `*`; `self.<field> is None` as the first test on an optional field; `now - <seconds>` kept symbolic
and moved across the comparison (`t > now - k`  ->  `t + k > now`, no truncated subtraction); list comprehension
filter; `.append`, `+= 1`, `.add` on the modelled fields; `with <lock>:` transparent; console prints dropped;
`if self.on_threat: self.on_threat(result)` -> the hook adversary of the model, whose exception aborts the rest;
`for i, ch in enumerate(content): code = ord(ch); if <test>: return ...` -> `content.any`; `try: x = json.loads(content)
... except (<classes>): return ...` -> a match on the recorded outcome of `json.loads`, an exception class that is
not caught propagates.  `self._measure_depth(parsed)` is the model's `measure` (its recursion is not translated).
Anything else -> the definition becomes `untranslatable "<why>"` (a default value), and its agreement theorem fails.
"""
from __future__ import annotations

import ast
from pathlib import Path

MB = "operon_ai/organelles/membrane.py"
IN = "operon_ai/surveillance/innate.py"


class Unsupported(Exception):
    pass


def bad(node, what):
    raise Unsupported(f"{what} (line {getattr(node, 'lineno', '?')})")


def find_class(tree, name):
    for n in tree.body:
        if isinstance(n, ast.ClassDef) and n.name == name:
            return n
    raise Unsupported(f"class {name} not found")


def find_fn(cls, name):
    for n in cls.body:
        if isinstance(n, ast.FunctionDef) and n.name == name:
            return n
    raise Unsupported(f"method {cls.name}.{name} not found")


def enum_values(tree, name):
    out = {}
    for n in find_class(tree, name).body:
        if isinstance(n, ast.Assign) and len(n.targets) == 1 and isinstance(n.targets[0], ast.Name) \
                and isinstance(n.value, ast.Constant) and isinstance(n.value.value, int):
            out[n.targets[0].id] = n.value.value
    return out


def is_self(node, attr=None):
    return (isinstance(node, ast.Attribute) and isinstance(node.value, ast.Name) and node.value.id == "self"
            and (attr is None or node.attr == attr))


def is_docstring(st):
    return isinstance(st, ast.Expr) and isinstance(st.value, ast.Constant) and isinstance(st.value.value, str)


def is_print(st):
    return isinstance(st, ast.Expr) and isinstance(st.value, ast.Call) and isinstance(st.value.func, ast.Name) \
        and st.value.func.id == "print"


# ------------------------------------------------------------------------------------------------------------------
# expressions.  env: python source text of a name / attribute / call  ->  (lean term, type)
# types: nat, bool, str (List Nat), list, time, ('tminus', base, seconds)
# ------------------------------------------------------------------------------------------------------------------
class Expr:
    def __init__(self, env, enums=None):
        self.env = dict(env)
        self.enums = enums or {}

    def key(self, node):
        return ast.unparse(node).replace(" ", "")

    def tr(self, node):
        k = self.key(node)
        if k in self.env:
            return self.env[k]
        if isinstance(node, ast.Constant):
            if isinstance(node.value, bool):
                return ("true" if node.value else "false"), "bool"
            if isinstance(node.value, int) and node.value >= 0:
                return str(node.value), "nat"
            if isinstance(node.value, str) and len(node.value) == 1:
                return str(ord(node.value)), "nat"
            bad(node, f"constant {node.value!r}")
        if isinstance(node, ast.Attribute) and isinstance(node.value, ast.Name) and node.value.id in self.enums:
            vals = self.enums[node.value.id]
            if node.attr not in vals:
                bad(node, f"unknown enum member {k}")
            return str(vals[node.attr]), "nat"
        if isinstance(node, ast.Attribute) and node.attr == "value":
            t, ty = self.tr(node.value)
            if ty != "nat":
                bad(node, ".value of a non-level")
            return t, "nat"
        if isinstance(node, ast.Call) and isinstance(node.func, ast.Name) and node.func.id == "len" and len(node.args) == 1:
            t, ty = self.tr(node.args[0])
            if ty == "count":          # a list the model represents by its length
                return t, "nat"
            if ty not in ("str", "list"):
                bad(node, "len of a non-sequence")
            return f"({t}).length", "nat"
        if isinstance(node, ast.BinOp) and isinstance(node.op, (ast.Add, ast.Mult)):
            a, ta = self.tr(node.left)
            b, tb = self.tr(node.right)
            if ta != "nat" or tb != "nat":
                bad(node, "arithmetic on non-naturals")
            return f"({a} {'+' if isinstance(node.op, ast.Add) else '*'} {b})", "nat"
        if isinstance(node, ast.BinOp) and isinstance(node.op, ast.Sub):
            a, ta = self.tr(node.left)
            b, tb = self.tr(node.right)
            if ta == "time" and tb == "nat" and isinstance(node.right, ast.Constant):
                return a, ("tminus", a, int(node.right.value))
            bad(node, "subtraction (only `now - <seconds>` is supported)")
        if isinstance(node, ast.UnaryOp) and isinstance(node.op, ast.Not):
            return f"(!{self.bool(node.operand)})", "bool"
        if isinstance(node, ast.BoolOp):
            op = " && " if isinstance(node.op, ast.And) else " || "
            return "(" + op.join(self.bool(v) for v in node.values) + ")", "bool"
        if isinstance(node, ast.Compare) and len(node.ops) == 1:
            return self.compare(node), "bool"
        bad(node, f"expression {k[:40]}")

    def bool(self, node):
        t, ty = self.tr(node)
        if ty != "bool":
            bad(node, f"truthiness of a non-boolean ({ast.unparse(node)[:30]})")
        return t

    def compare(self, node):
        op, l, r = node.ops[0], node.left, node.comparators[0]
        if isinstance(op, (ast.In, ast.NotIn)):
            a, ta = self.tr(l) if not (isinstance(l, ast.Constant) and isinstance(l.value, str)) else (None, None)
            if isinstance(r, ast.Constant) and isinstance(r.value, str) and ta == "nat":
                # char in '<literal>'  (the loop variable is the code point)
                t = f"[{', '.join(str(ord(c)) for c in r.value)}].contains {a}"
            else:
                b, tb = self.tr(r)
                if tb != "str":
                    bad(node, "`in` on a non-string")
                if isinstance(l, ast.Constant) and isinstance(l.value, str) and len(l.value) == 1:
                    t = f"({b}).contains {ord(l.value)}"
                else:
                    bad(node, "`in` with a non-character needle")
            return f"(!({t}))" if isinstance(op, ast.NotIn) else f"({t})"
        a, ta = self.tr(l)
        b, tb = self.tr(r)
        sym = {ast.Lt: "<", ast.LtE: "≤", ast.Gt: ">", ast.GtE: "≥", ast.Eq: "=", ast.NotEq: "≠"}.get(type(op))
        if sym is None:
            bad(node, "comparison operator")
        if isinstance(tb, tuple) and tb[0] == "tminus" and ta == "time" and sym in (">", "≥"):
            # t > now - k   <->   t + k > now      (seconds -> microseconds)
            return f"decide ({a} + {tb[2]} * 1000000 {sym} {tb[1]})"
        if ta != "nat" or tb != "nat":
            bad(node, f"comparison of non-naturals ({ast.unparse(node)[:40]})")
        return f"decide ({a} {sym} {b})"


IND = "  "


# ------------------------------------------------------------------------------------------------------------------
# Membrane._check_rate_limit
# ------------------------------------------------------------------------------------------------------------------
def tr_check_rate_limit(tree):
    f = find_fn(find_class(tree, "Membrane"), "_check_rate_limit")
    body = [s for s in f.body if not is_docstring(s)]
    # first statement: `if self.rate_limit is None: return False`
    st = body[0]
    if not (isinstance(st, ast.If) and isinstance(st.test, ast.Compare) and is_self(st.test.left, "rate_limit")
            and isinstance(st.test.ops[0], ast.Is) and isinstance(st.test.comparators[0], ast.Constant)
            and st.test.comparators[0].value is None and len(st.body) == 1 and isinstance(st.body[0], ast.Return)
            and isinstance(st.body[0].value, ast.Constant) and st.body[0].value.value is False and not st.orelse):
        bad(st, "expected `if self.rate_limit is None: return False` first")
    rest = body[1:]
    if len(rest) == 1 and isinstance(rest[0], ast.With):
        rest = rest[0].body          # the lock is transparent here (single caller)
    counter = [0]

    def block(stmts, env, ts, depth):
        pad = IND * depth
        if not stmts:
            bad(f, "falls off the end")
        st, more = stmts[0], stmts[1:]
        ex = Expr(env)
        if isinstance(st, ast.Assign) and len(st.targets) == 1:
            tg = st.targets[0]
            if isinstance(tg, ast.Name):
                if ast.unparse(st.value).replace(" ", "") == "time.time()":
                    env2 = dict(env)
                    env2[tg.id] = ("now", "time")
                    return block(more, env2, ts, depth)
                t, ty = ex.tr(st.value)
                env2 = dict(env)
                if isinstance(ty, tuple):
                    env2[tg.id] = (t, ty)
                    return block(more, env2, ts, depth)
                env2[tg.id] = (f"v_{tg.id}", ty)
                return f"{pad}let v_{tg.id} := {t}\n" + block(more, env2, ts, depth)
            if is_self(tg, "_request_times"):
                v = st.value
                if isinstance(v, ast.ListComp) and len(v.generators) == 1 and isinstance(v.elt, ast.Name) \
                        and isinstance(v.generators[0].target, ast.Name) and v.elt.id == v.generators[0].target.id \
                        and is_self(v.generators[0].iter, "_request_times") and len(v.generators[0].ifs) == 1:
                    var = v.elt.id
                    env3 = dict(env)
                    env3[var] = (var, "time")
                    cond = Expr(env3).bool(v.generators[0].ifs[0])
                    counter[0] += 1
                    n = f"ts{counter[0]}"
                    env2 = dict(env)
                    env2["self._request_times"] = (n, "list")
                    return f"{pad}let {n} := {ts}.filter (fun {var} => {cond})\n" + block(more, env2, n, depth)
                bad(st, "assignment to _request_times")
            bad(st, "assignment target")
        if isinstance(st, ast.Expr) and isinstance(st.value, ast.Call) and isinstance(st.value.func, ast.Attribute) \
                and st.value.func.attr == "append" and is_self(st.value.func.value, "_request_times") \
                and len(st.value.args) == 1:
            t, ty = ex.tr(st.value.args[0])
            if ty != "time":
                bad(st, "appending a non-timestamp")
            counter[0] += 1
            n = f"ts{counter[0]}"
            env2 = dict(env)
            env2["self._request_times"] = (n, "list")
            return f"{pad}let {n} := {ts} ++ [{t}]\n" + block(more, env2, n, depth)
        if isinstance(st, ast.If):
            c = ex.bool(st.test)
            return (f"{pad}if {c} then\n" + block(st.body + more, env, ts, depth + 1)
                    + f"{pad}else\n" + block(st.orelse + more, env, ts, depth + 1))
        if isinstance(st, ast.Return):
            if isinstance(st.value, ast.Constant) and isinstance(st.value.value, bool):
                return f"{pad}({'true' if st.value.value else 'false'}, {ts})\n"
            bad(st, "return value")
        bad(st, f"statement {type(st).__name__}")

    env = {"self.rate_limit": ("rl", "nat"), "self._request_times": ("m.reqTimes", "list")}
    inner = block(rest, env, "m.reqTimes", 2)
    return ("def Tr.checkRateLimit (m : Membrane) (now : Nat) : Bool × List Nat :=\n"
            "  match m.rateLimit with\n  | none => (false, m.reqTimes)\n  | some rl =>\n" + inner)


# ------------------------------------------------------------------------------------------------------------------
# tail of Membrane.filter
# ------------------------------------------------------------------------------------------------------------------
def tr_filter_tail(tree):
    cls = find_class(tree, "Membrane")
    f = find_fn(cls, "filter")
    idx = next((i for i, s in enumerate(f.body) if isinstance(s, ast.Assign) and len(s.targets) == 1
                and isinstance(s.targets[0], ast.Name) and s.targets[0].id == "allowed"), None)
    if idx is None:
        bad(f, "no `allowed = ...` in filter")
    tail = f.body[idx:]
    log_result = find_fn(cls, "_log_result")
    counter = [0]
    base_env = {"max_level.value": ("lvl", "nat"), "self.threshold.value": ("m.threshold", "nat")}

    def fresh(cur, upd):
        counter[0] += 1
        n = f"m{counter[0]}"
        return n, f"let {n} : Membrane := {{ {cur} with {upd} }}\n"

    def block(stmts, env, cur, res, depth):
        """cur = name of the current Membrane value, res = lean name of the result object (or None)"""
        pad = IND * depth
        if not stmts:
            bad(f, "falls off the end")
        st, more = stmts[0], stmts[1:]
        ex = Expr(env)
        if is_print(st) or is_docstring(st):
            return block(more, env, cur, res, depth)
        if isinstance(st, ast.Assign) and len(st.targets) == 1 and isinstance(st.targets[0], ast.Name):
            name = st.targets[0].id
            v = st.value
            if isinstance(v, ast.Call) and isinstance(v.func, ast.Name) and v.func.id == "FilterResult":
                kw = {k.arg: k.value for k in v.keywords}
                want = {"allowed": "allowed", "threat_level": "max_level", "matched_signatures": "matched",
                        "audit_hash": "content_hash"}
                for k, src in want.items():
                    if k not in kw or ast.unparse(kw[k]) != src:
                        bad(st, f"FilterResult field {k}")
                if set(kw) - set(want) - {"processing_time_ms"} or v.args:
                    bad(st, "FilterResult arguments")
                env2 = dict(env)
                env2[name] = ("result", "result")
                return f"{pad}let result : FilterRes := ⟨allowed, lvl, ms, c, .scan⟩\n" + block(more, env2, cur, "result", depth)
            t, ty = ex.tr(v)
            env2 = dict(env)
            env2[name] = (name, ty)
            return f"{pad}let {name} := {t}\n" + block(more, env2, cur, res, depth)
        if isinstance(st, ast.AugAssign) and isinstance(st.op, ast.Add) and is_self(st.target, "_total_blocked") \
                and isinstance(st.value, ast.Constant) and st.value.value == 1:
            n, line = fresh(cur, f"totalBlocked := {cur}.totalBlocked + 1")
            return pad + line + block(more, env, n, res, depth)
        if isinstance(st, ast.Expr) and isinstance(st.value, ast.Call) and isinstance(st.value.func, ast.Attribute):
            call = st.value
            fn = call.func
            if fn.attr == "append" and is_self(fn.value, "_audit_log") and len(call.args) == 1 \
                    and env.get(ast.unparse(call.args[0]), (None, None))[1] == "result":
                n, line = fresh(cur, f"audit := {cur}.audit ++ [result]")
                return pad + line + block(more, env, n, res, depth)
            if fn.attr == "add" and is_self(fn.value, "_blocked_hashes") and len(call.args) == 1 \
                    and ast.unparse(call.args[0]) == "content_hash":
                n, line = fresh(cur, f"blocked := c :: {cur}.blocked")
                return pad + line + block(more, env, n, res, depth)
            if is_self(fn, "_log_result") and len(call.args) == 2 \
                    and env.get(ast.unparse(call.args[0]), (None, None))[1] == "result":
                # inline: def _log_result(self, result, reason)
                params = [a.arg for a in log_result.args.args]
                if params != ["self", "result", "reason"]:
                    bad(log_result, "_log_result signature")
                env2 = dict(env)
                env2["result"] = ("result", "result")
                env2["result.allowed"] = ("allowed", "bool")
                return block([s for s in log_result.body if not is_docstring(s)] + [ast.Pass()] + more, env2, cur, res, depth)
            bad(st, f"call {ast.unparse(fn)[:30]}")
        if isinstance(st, ast.Pass):
            return block(more, env, cur, res, depth)
        if isinstance(st, ast.If):
            # hook: `if self.on_threat: self.on_threat(result)`
            if is_self(st.test, "on_threat") and not st.orelse and len(st.body) == 1 \
                    and isinstance(st.body[0], ast.Expr) and isinstance(st.body[0].value, ast.Call) \
                    and is_self(st.body[0].value.func, "on_threat") and len(st.body[0].value.args) == 1 \
                    and env.get(ast.unparse(st.body[0].value.args[0]), (None, None))[1] == "result":
                return (f"{pad}match hookRaise {cur}.onThreat {cur}.view result with\n"
                        f"{pad}| some k => ({cur}, ⟨result, some k⟩)\n"
                        f"{pad}| none =>\n" + block(more, env, cur, res, depth + 1))
            # `if not self.silent: print(...)` and other print-only ifs are dropped
            if all(is_print(s) for s in st.body) and all(is_print(s) for s in st.orelse):
                return block(more, env, cur, res, depth)
            env2 = dict(env)
            env2.setdefault("result.allowed", ("allowed", "bool"))
            c = Expr(env2 if res else env).bool(st.test)
            return (f"{pad}if {c} then\n" + block(st.body + more, env, cur, res, depth + 1)
                    + f"{pad}else\n" + block(st.orelse + more, env, cur, res, depth + 1))
        if isinstance(st, ast.Return):
            if res and isinstance(st.value, ast.Name) and env.get(st.value.id, (None, None))[1] == "result":
                return f"{pad}({cur}, ⟨result, none⟩)\n"
            bad(st, "return value")
        bad(st, f"statement {type(st).__name__}")

    return ("def Tr.filterTail (m : Membrane) (c : Str) (ms : List Sig) (lvl : Nat) : Membrane × FilterOut :=\n"
            + block(tail, base_env, "m", None, 1))


# ------------------------------------------------------------------------------------------------------------------
# innate: allow rule, inflammation head
# ------------------------------------------------------------------------------------------------------------------
def tr_innate(tree):
    cls = find_class(tree, "InnateImmunity")
    enums = {"InflammationLevel": enum_values(tree, "InflammationLevel")}
    out = []
    chk = find_fn(cls, "check")
    st = next((s for s in chk.body if isinstance(s, ast.Assign) and len(s.targets) == 1
               and isinstance(s.targets[0], ast.Name) and s.targets[0].id == "allowed"), None)
    if st is None:
        bad(chk, "no `allowed = ...` in check")
    env = {"max_severity": ("maxSev", "nat"), "self.severity_threshold": ("thr", "nat"),
           "structural_errors": ("nErr", "count"), "inflammation.level": ("lvl", "nat")}
    out.append("/-- translation of the allow rule of `InnateImmunity.check` -/\n"
               "def Tr.innateAllow (maxSev thr nErr lvl : Nat) : Bool :=\n  " + Expr(env, enums).bool(st.value) + "\n")
    ev = find_fn(cls, "_evaluate_inflammation")
    body = [s for s in ev.body if not is_docstring(s)]
    env2 = {"patterns": ("nPat", "count"), "errors": ("nErr", "count"),
            "sum((p.severityforpinpatterns))": ("sumSev", "nat"), "sum(p.severityforpinpatterns)": ("sumSev", "nat")}
    defs = {}
    chain = None
    for s in body:
        if isinstance(s, ast.Assign) and len(s.targets) == 1 and isinstance(s.targets[0], ast.Name) \
                and s.targets[0].id in ("total_severity", "pattern_count"):
            t, ty = Expr(env2, enums).tr(s.value)
            if ty != "nat":
                bad(s, "non-natural")
            defs[s.targets[0].id] = t
        elif isinstance(s, ast.If):
            chain = s
            break
        else:
            bad(s, "statement before the level chain")
    if chain is None or set(defs) != {"total_severity", "pattern_count"}:
        bad(ev, "head of _evaluate_inflammation")
    out.append("/-- translation of `total_severity = ...` -/\n"
               f"def Tr.totalSeverity (sumSev nErr : Nat) : Nat := {defs['total_severity']}\n")
    out.append("/-- translation of `pattern_count = ...` -/\n"
               f"def Tr.patternCount (nPat nErr : Nat) : Nat := {defs['pattern_count']}\n")
    env3 = {"total_severity": ("totalSeverity", "nat"), "max_severity": ("maxSeverity", "nat"),
            "pattern_count": ("patternCount", "nat"), "self.inflammation_state.is_in_cooldown()": ("cooling", "bool")}

    def level(stmts, depth):
        pad = IND * depth
        if len(stmts) != 1:
            bad(ev, "level chain branch")
        s = stmts[0]
        if isinstance(s, ast.Assign) and ast.unparse(s.targets[0]) == "new_level":
            t, ty = Expr(env3, enums).tr(s.value)
            return f"{pad}{t}\n"
        if isinstance(s, ast.If):
            return (f"{pad}if {Expr(env3, enums).bool(s.test)} then\n" + level(s.body, depth + 1)
                    + f"{pad}else\n" + level(s.orelse, depth + 1))
        bad(s, "level chain statement")
    out.append("/-- translation of the `new_level` chain of `_evaluate_inflammation` -/\n"
               "def Tr.newLevel (totalSeverity maxSeverity patternCount : Nat) (cooling : Bool) : Nat :=\n"
               + level([chain], 1))
    return out


# ------------------------------------------------------------------------------------------------------------------
# validators
# ------------------------------------------------------------------------------------------------------------------
CAUGHT_BY = {"decodeError": {"JSONDecodeError", "json.JSONDecodeError", "ValueError", "Exception", "BaseException"},
             "valueError": {"ValueError", "Exception", "BaseException"},
             "recursionError": {"RecursionError", "RuntimeError", "Exception", "BaseException"},
             "other": {"BaseException"}}
RAISE_NAME = {"decodeError": "JSONDecodeError", "valueError": "ValueError", "recursionError": "RecursionError",
              "other": "other"}


def tr_validator(tree, clsname, lean_name, params, env):
    f = find_fn(find_class(tree, clsname), "validate")
    body = [s for s in f.body if not is_docstring(s)]

    def ret(st):
        v = st.value
        if isinstance(v, ast.Tuple) and len(v.elts) == 2 and isinstance(v.elts[0], ast.Constant) \
                and isinstance(v.elts[0].value, bool):
            if v.elts[0].value:
                if not (isinstance(v.elts[1], ast.Constant) and v.elts[1].value is None):
                    bad(st, "(True, <message>)")
                return ".ok true"
            if isinstance(v.elts[1], ast.Constant) and not v.elts[1].value:
                bad(st, "(False, <empty message>) is not counted as an error by check()")
            return ".ok false"
        bad(st, "return value")

    def block(stmts, env, depth):
        pad = IND * depth
        if not stmts:
            bad(f, "falls off the end")
        st, more = stmts[0], stmts[1:]
        ex = Expr(env)
        if isinstance(st, ast.Return):
            return f"{pad}{ret(st)}\n"
        if isinstance(st, ast.If):
            return (f"{pad}if {ex.bool(st.test)} then\n" + block(st.body + more, env, depth + 1)
                    + f"{pad}else\n" + block(st.orelse + more, env, depth + 1))
        if isinstance(st, ast.Assign) and len(st.targets) == 1 and isinstance(st.targets[0], ast.Name):
            name = st.targets[0].id
            v = st.value
            if isinstance(v, ast.Call) and is_self(v.func, "_measure_depth") and len(v.args) == 1 \
                    and env.get(ast.unparse(v.args[0]), (None, None))[1] == "json":
                env2 = dict(env)
                env2[name] = (name, "nat")
                return f"{pad}let {name} := measure md {env[ast.unparse(v.args[0])][0]} 0\n" + block(more, env2, depth)
            t, ty = ex.tr(v)
            env2 = dict(env)
            env2[name] = (name, ty)
            return f"{pad}let {name} := {t}\n" + block(more, env2, depth)
        if isinstance(st, ast.For) and not st.orelse:
            # for i, char in enumerate(content): code = ord(char); if <test>: return <rejected>
            tg = st.target
            if not (isinstance(tg, ast.Tuple) and len(tg.elts) == 2 and all(isinstance(e, ast.Name) for e in tg.elts)
                    and ast.unparse(st.iter) == "enumerate(content)"):
                bad(st, "for loop header")
            ch = tg.elts[1].id
            b = st.body
            if not (len(b) == 2 and isinstance(b[0], ast.Assign) and isinstance(b[0].targets[0], ast.Name)
                    and ast.unparse(b[0].value) == f"ord({ch})" and isinstance(b[1], ast.If) and not b[1].orelse
                    and len(b[1].body) == 1 and isinstance(b[1].body[0], ast.Return)):
                bad(st, "for loop body")
            code = b[0].targets[0].id
            env2 = dict(env)
            env2[code] = (code, "nat")
            env2[ch] = (code, "nat")
            test = Expr(env2).bool(b[1].test)
            return (f"{pad}if content.any (fun {code} => {test}) then\n{pad}{IND}{ret(b[1].body[0])}\n{pad}else\n"
                    + block(more, env, depth + 1))
        if isinstance(st, ast.Try) and not st.orelse and not st.finalbody and len(st.handlers) == 1:
            h = st.handlers[0]
            names = [ast.unparse(e) for e in h.type.elts] if isinstance(h.type, ast.Tuple) else \
                [ast.unparse(h.type)] if h.type is not None else ["BaseException"]
            if not (len(h.body) == 1 and isinstance(h.body[0], ast.Return)):
                bad(h, "handler body")
            handled = ret(h.body[0])
            first = st.body[0]
            if not (isinstance(first, ast.Assign) and isinstance(first.targets[0], ast.Name)
                    and ast.unparse(first.value) == "json.loads(content)"):
                bad(first, "try body must start with `x = json.loads(content)`")
            pv = first.targets[0].id
            env2 = dict(env)
            env2[pv] = (pv, "json")
            s = f"{pad}match env.json content with\n{pad}| .parsed {pv} =>\n" + block(st.body[1:] + more, env2, depth + 2)
            for ctor in ("decodeError", "valueError", "recursionError", "other"):
                caught = bool(CAUGHT_BY[ctor] & set(names))
                s += f"{pad}| .{ctor} => " + (handled if caught else f'.raise "{RAISE_NAME[ctor]}"') + "\n"
            return s
        bad(st, f"statement {type(st).__name__}")

    return (f"/-- translation of `{clsname}.validate` -/\n"
            f"def Tr.{lean_name} {params} (content : Str) : Out Bool :=\n" + block(body, env, 1))


# ------------------------------------------------------------------------------------------------------------------
SIGS = {
    "checkRateLimit": "def Tr.checkRateLimit (m : Membrane) (now : Nat) : Bool × List Nat :=",
    "filterTail": "def Tr.filterTail (m : Membrane) (c : Str) (ms : List Sig) (lvl : Nat) : Membrane × FilterOut :=",
    "innate": None,
    "lengthValidate": "def Tr.lengthValidate (mn mx : Nat) (content : Str) : Out Bool :=",
    "charsetValidate": "def Tr.charsetValidate (allowCtl allowNull : Bool) (content : Str) : Out Bool :=",
    "jsonValidate": "def Tr.jsonValidate (env : Env) (md ms : Nat) (content : Str) : Out Bool :=",
}
INNATE_FALLBACK = [
    "def Tr.innateAllow (maxSev thr nErr lvl : Nat) : Bool :=",
    "def Tr.totalSeverity (sumSev nErr : Nat) : Nat :=",
    "def Tr.patternCount (nPat nErr : Nat) : Nat :=",
    "def Tr.newLevel (totalSeverity maxSeverity patternCount : Nat) (cooling : Bool) : Nat :=",
]


def generate(repo: Path):
    info = {"unsupported": {}}
    parts = []
    try:
        mtree = ast.parse((repo / MB).read_text())
    except Exception as e:  # noqa
        mtree = None
        info["unsupported"]["membrane.py"] = f"does not parse: {e}"
    try:
        itree = ast.parse((repo / IN).read_text())
    except Exception as e:  # noqa
        itree = None
        info["unsupported"]["innate.py"] = f"does not parse: {e}"

    def attempt(key, fn, doc):
        try:
            if (mtree if key in ("checkRateLimit", "filterTail") else itree) is None:
                raise Unsupported("source does not parse")
            r = fn()
            parts.append((f"/-- {doc} -/\n" if not r.startswith("/--") else "") + r)
        except Unsupported as e:
            info["unsupported"][key] = str(e)
            why = str(e).replace('"', "'")
            parts.append(f"/-- {doc}: NOT TRANSLATED -/\n{SIGS[key]}\n  untranslatable \"{why}\"\n")
        except Exception as e:  # any translator crash is also fail-closed
            info["unsupported"][key] = f"translator error: {e!r}"
            parts.append(f"{SIGS[key]}\n  untranslatable \"translator error\"\n")

    attempt("checkRateLimit", lambda: tr_check_rate_limit(mtree), "translation of `Membrane._check_rate_limit`")
    attempt("filterTail", lambda: tr_filter_tail(mtree),
            "translation of `Membrane.filter` from `allowed = ...` to the end (the scan decision and its bookkeeping)")
    try:
        if itree is None:
            raise Unsupported("source does not parse")
        parts.extend(tr_innate(itree))
    except Exception as e:  # noqa
        info["unsupported"]["innate"] = str(e)
        why = str(e).replace('"', "'")
        for sig in INNATE_FALLBACK:
            parts.append(f"{sig}\n  untranslatable \"{why}\"\n")
    attempt("lengthValidate", lambda: tr_validator(itree, "LengthValidator", "lengthValidate", "(mn mx : Nat)",
                                                   {"content": ("content", "str"), "self.min_length": ("mn", "nat"),
                                                    "self.max_length": ("mx", "nat")}), "")
    attempt("charsetValidate", lambda: tr_validator(itree, "CharacterSetValidator", "charsetValidate",
                                                    "(allowCtl allowNull : Bool)",
                                                    {"content": ("content", "str"),
                                                     "self.allow_null": ("allowNull", "bool"),
                                                     "self.allow_control_chars": ("allowCtl", "bool")}), "")
    attempt("jsonValidate", lambda: tr_validator(itree, "JSONValidator", "jsonValidate", "(env : Env) (md ms : Nat)",
                                                 {"content": ("content", "str"), "self.max_depth": ("md", "nat"),
                                                  "self.max_size": ("ms", "nat")}), "")
    text = ("import Operon.Model.Membrane\nimport Operon.Model.Innate\n"
            "/- GENERATED by harness/vf/extract/py2lean_gates.py from operon_ai/organelles/membrane.py and\n"
            "   operon_ai/surveillance/innate.py on every run of ./check C10; do not edit.  Each definition is the\n"
            "   translation of the named piece of Python (see the translator for the supported subset).\n"
            "   `untranslatable \"...\"` marks a piece that left the subset: its agreement theorem\n"
            "   c10_translation_agrees_* then fails. -/\n"
            "namespace Operon.Gates\nset_option linter.unusedVariables false\n\n"
            + "\n".join(parts) + "\nend Operon.Gates\n")
    return text, info


def run(repo: Path, lean: Path, write_if_changed):
    text, info = generate(repo)
    changed = write_if_changed(lean / "Operon" / "Gen" / "GatesTranslated.lean", text)
    return [{"id": "py2lean-gates", "facts_changed": bool(changed), "untranslatable": info["unsupported"]}]
