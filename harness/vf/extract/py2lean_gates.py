"""py2lean (gates): translate the decision code of the two injection gates from the Python AST into Lean definitions,
regenerated into lean/Operon/Gen/GatesTranslated.lean on every run of ./check C10.

Translated (namespace Operon.Gates.Tr):
  checkRateLimit   Membrane._check_rate_limit                     : Membrane -> now -> Bool x List Nat
  rateProgram      the same method as a program over the SHARED window (statements that read / write
                   `_request_times`, in order, and where the lock is taken) : Option (List RInstr), see rate_program()
  filter           Membrane.filter, WHOLE, by symbolic execution  : Env -> Membrane -> now -> content -> Membrane x FilterOut
  innateAllow      the allow rule of InnateImmunity.check
  newLevel         the level chain of the inflammation function
  lengthValidate, charsetValidate, jsonValidate   the `validate` methods of the three shipped validators
The theorems `c10_translation_agrees_*` (Props/C10.lean) state that each translation computes exactly what the
hand-written model computes; so the property theorems are theorems about the translated source.

How the tie is kept robust against behaviour-preserving rewrites (and only those):
  * methods are found through the CALL GRAPH from the public entry points (`filter`, `check`) and inlined wherever
    they are defined and whatever they are called (values returned through a continuation, so early `return` and a
    trailing `if` give the same term; `if not c: A else: B` is emitted as `if c then B else A`); generator methods
    made of `yield from` are concatenations;
  * local names never reach the output (generated names); the pieces of `check` are located by ROLE (the fields of the
    InnateCheckResult it builds, the running maximum of the pattern loop, the method whose result is the
    `inflammation=` field and the roles of its arguments), single-assignment locals and pure one-expression helpers
    are expanded;
  * module / class constants and enum members are resolved to their VALUES (through the imported module when the
    harness passes it, else literal module-level assignments);
  * logging / warnings calls, console output, docstrings, annotations, timing values, f-strings and anything that only
    feeds them are no-ops; methods not reachable from the entry points (`__repr__`, new read-only accessors, new
    optional parameters of other methods) are never looked at.
Supported statement / expression subset otherwise: `if`/`elif`/`else`, `return`, assignments to locals, tuple
unpacking of a helper's result, comparisons of naturals, `and`/`or`/`not`, `len`, `x in content`, `.value`, `+` `*`,
`self.rate_limit is None`, `now - <seconds>` moved across the comparison (`t > now - k` -> `t + k > now`), the
list-comprehension filter on `_request_times`, `.append` / `+= 1` / `.add` on the modelled fields, `with <lock>:`
(transparent), the signature-scan loop (match, append, running maximum) over any concatenation of `self.signatures`
and the learned patterns, `FilterResult(...)`, the hook call `if self.on_threat: self.on_threat(result)` (its
exception aborts the rest), `for i, ch in enumerate(content): code = ord(ch); if <test>: return ...` -> `content.any`,
`try: x = json.loads(content) ... except (<classes>): return ...` -> a match on the recorded outcome of `json.loads`.
`self._measure_depth(parsed)` is `Tr.measure`, the translation of the recursion itself (tr_measure_depth; agreement with
the model's `measure` by mutual induction).  The ghost tag of a result
(rate / replay / scan) is assigned from the path: inside the true branch of the rate-check helper, inside the true
branch of the `_blocked_hashes` membership test, otherwise scan.
Anything else -> that definition becomes `untranslatable "<why>"` (a default value) and ITS agreement theorem fails;
the generated file stays well-formed.
"""
from __future__ import annotations

import ast
from pathlib import Path

MB = "operon_ai/organelles/membrane.py"
IN = "operon_ai/surveillance/innate.py"


class Unsupported(Exception):
    pass


def bad(node, what):
    raise Unsupported(f"{what} (line {getattr(node, 'lineno', '?')})")


def find_class(tree, name):
    for n in tree.body:
        if isinstance(n, ast.ClassDef) and n.name == name:
            return n
    raise Unsupported(f"class {name} not found")


def find_fn(cls, name):
    for n in cls.body:
        if isinstance(n, ast.FunctionDef) and n.name == name:
            return n
    raise Unsupported(f"method {cls.name}.{name} not found")


def enum_values(tree, name):
    out = {}
    for n in find_class(tree, name).body:
        if isinstance(n, ast.Assign) and len(n.targets) == 1 and isinstance(n.targets[0], ast.Name) \
                and isinstance(n.value, ast.Constant) and isinstance(n.value.value, int):
            out[n.targets[0].id] = n.value.value
    return out


def is_self(node, attr=None):
    return (isinstance(node, ast.Attribute) and isinstance(node.value, ast.Name) and node.value.id == "self"
            and (attr is None or node.attr == attr))


def is_docstring(st):
    return isinstance(st, ast.Expr) and isinstance(st.value, ast.Constant) and isinstance(st.value.value, str)


def is_print(st):
    return isinstance(st, ast.Expr) and isinstance(st.value, ast.Call) and isinstance(st.value.func, ast.Name) \
        and st.value.func.id == "print"


# ------------------------------------------------------------------------------------------------------------------
# expressions.  env: python source text of a name / attribute / call  ->  (lean term, type)
# types: nat, bool, str (List Nat), list, time, ('tminus', base, seconds)
# ------------------------------------------------------------------------------------------------------------------
MODULE_CONSTS = {}      # name -> int | str : module-level constants of the file being translated, resolved to
                        # their VALUES through the imported module (set by generate())


class Expr:
    def __init__(self, env, enums=None):
        self.env = dict(env)
        self.enums = enums or {}

    def key(self, node):
        return ast.unparse(node).replace(" ", "")

    def tr(self, node):
        k = self.key(node)
        if k in self.env:
            return self.env[k]
        if isinstance(node, ast.Name) and node.id in MODULE_CONSTS:
            v = MODULE_CONSTS[node.id]
            return self.tr(ast.copy_location(ast.Constant(value=v), node))
        if isinstance(node, ast.Constant):
            if isinstance(node.value, bool):
                return ("true" if node.value else "false"), "bool"
            if isinstance(node.value, int) and node.value >= 0:
                return str(node.value), "nat"
            if isinstance(node.value, str) and len(node.value) == 1:
                return str(ord(node.value)), "nat"
            bad(node, f"constant {node.value!r}")
        if isinstance(node, ast.Attribute) and isinstance(node.value, ast.Name) and node.value.id in self.enums:
            vals = self.enums[node.value.id]
            if node.attr not in vals:
                bad(node, f"unknown enum member {k}")
            return str(vals[node.attr]), "nat"
        if isinstance(node, ast.Attribute) and node.attr == "value":
            t, ty = self.tr(node.value)
            if ty != "nat":
                bad(node, ".value of a non-level")
            return t, "nat"
        if isinstance(node, ast.Call) and isinstance(node.func, ast.Name) and node.func.id == "len" and len(node.args) == 1:
            t, ty = self.tr(node.args[0])
            if ty == "count":          # a list the model represents by its length
                return t, "nat"
            if ty not in ("str", "list"):
                bad(node, "len of a non-sequence")
            return f"({t}).length", "nat"
        if isinstance(node, ast.BinOp) and isinstance(node.op, (ast.Add, ast.Mult)):
            a, ta = self.tr(node.left)
            b, tb = self.tr(node.right)
            if ta != "nat" or tb != "nat":
                bad(node, "arithmetic on non-naturals")
            return f"({a} {'+' if isinstance(node.op, ast.Add) else '*'} {b})", "nat"
        if isinstance(node, ast.BinOp) and isinstance(node.op, ast.Sub):
            a, ta = self.tr(node.left)
            b, tb = self.tr(node.right)
            if ta == "time" and tb == "nat" and isinstance(node.right, ast.Constant):
                return a, ("tminus", a, int(node.right.value))
            bad(node, "subtraction (only `now - <seconds>` is supported)")
        if isinstance(node, ast.UnaryOp) and isinstance(node.op, ast.Not):
            return f"(!{self.bool(node.operand)})", "bool"
        if isinstance(node, ast.BoolOp):
            op = " && " if isinstance(node.op, ast.And) else " || "
            return "(" + op.join(self.bool(v) for v in node.values) + ")", "bool"
        if isinstance(node, ast.Compare) and len(node.ops) == 1:
            return self.compare(node), "bool"
        bad(node, f"expression {k[:40]}")

    def bool(self, node):
        t, ty = self.tr(node)
        if ty != "bool":
            bad(node, f"truthiness of a non-boolean ({ast.unparse(node)[:30]})")
        return t

    def compare(self, node):
        op, l, r = node.ops[0], node.left, node.comparators[0]
        if isinstance(op, (ast.In, ast.NotIn)):
            if isinstance(r, ast.Name) and isinstance(MODULE_CONSTS.get(r.id), str):
                r = ast.copy_location(ast.Constant(value=MODULE_CONSTS[r.id]), r)
            if isinstance(l, ast.Name) and isinstance(MODULE_CONSTS.get(l.id), str) and l.id not in self.env:
                l = ast.copy_location(ast.Constant(value=MODULE_CONSTS[l.id]), l)
            a, ta = self.tr(l) if not (isinstance(l, ast.Constant) and isinstance(l.value, str)) else (None, None)
            if isinstance(r, ast.Constant) and isinstance(r.value, str) and ta == "nat":
                # char in '<literal>'  (the loop variable is the code point)
                t = f"[{', '.join(str(ord(c)) for c in r.value)}].contains {a}"
            else:
                b, tb = self.tr(r)
                if tb != "str":
                    bad(node, "`in` on a non-string")
                if isinstance(l, ast.Constant) and isinstance(l.value, str) and len(l.value) == 1:
                    t = f"({b}).contains {ord(l.value)}"
                else:
                    bad(node, "`in` with a non-character needle")
            return f"(!({t}))" if isinstance(op, ast.NotIn) else f"({t})"
        a, ta = self.tr(l)
        b, tb = self.tr(r)
        sym = {ast.Lt: "<", ast.LtE: "≤", ast.Gt: ">", ast.GtE: "≥", ast.Eq: "=", ast.NotEq: "≠"}.get(type(op))
        if sym is None:
            bad(node, "comparison operator")
        if isinstance(tb, tuple) and tb[0] == "tminus" and ta == "time" and sym in (">", "≥"):
            # t > now - k   <->   t + k > now      (seconds -> microseconds)
            return f"decide ({a} + {tb[2]} * 1000000 {sym} {tb[1]})"
        if ta != "nat" or tb != "nat":
            bad(node, f"comparison of non-naturals ({ast.unparse(node)[:40]})")
        return f"decide ({a} {sym} {b})"


IND = "  "


# ------------------------------------------------------------------------------------------------------------------
# Membrane: whole-method translation by symbolic execution with helper inlining
# ------------------------------------------------------------------------------------------------------------------
NOOP_CALL_ROOTS = {"logger", "logging", "log", "LOGGER", "_logger", "_log", "warnings"}


class V:
    """a symbolic value: kind + lean term (+ fields for results / items for tuples)"""
    def __init__(self, kind, lean="", **kw):
        self.kind, self.lean = kind, lean
        self.__dict__.update(kw)


JUNK = V("junk")


def root_name(node):
    while isinstance(node, (ast.Attribute, ast.Call, ast.Subscript)):
        node = node.func if isinstance(node, ast.Call) else node.value
    return node.id if isinstance(node, ast.Name) else None


def has_self_call(node):
    for n in ast.walk(node):
        if isinstance(n, ast.Call) and isinstance(n.func, ast.Attribute) and root_name(n.func) == "self":
            return True
    return False


class MembraneTx:
    """Translates methods of `Membrane` to Lean terms of type `Membrane × <result>`.

    Statements are executed symbolically in source order; the current membrane is a Lean variable that is re-bound
    by every modelled update (`let mK : Membrane := { mJ with … }`); calls to other methods of the object are inlined
    through the call graph (wherever defined, whatever named, values returned through a continuation; generators
    consisting of `yield from` are concatenations); local names are replaced by generated ones; `if not c: A else: B`
    is emitted as `if c then B else A`, so early-return and trailing-if forms coincide.  Logging, console output,
    docstrings, annotations, timing values and anything that only feeds them are no-ops."""

    def __init__(self, tree):
        self.tree = tree
        self.cls = find_class(tree, "Membrane")
        self.methods = {n.name: n for n in self.cls.body if isinstance(n, ast.FunctionDef)}
        self.levels = enum_values(tree, "ThreatLevel")
        self.n = 0
        # class-level constants (`NAME = <natural>` in the class body, never assigned through `self.` / the class
        # anywhere in the class): `self.NAME`, `Membrane.NAME`, `type(self).NAME` resolve to the VALUE
        cands = {}
        for n in self.cls.body:
            tg = n.targets[0] if isinstance(n, ast.Assign) and len(n.targets) == 1 else \
                n.target if isinstance(n, ast.AnnAssign) and n.value is not None else None
            if isinstance(tg, ast.Name) and isinstance(n.value, ast.Constant) and isinstance(n.value.value, int) \
                    and not isinstance(n.value.value, bool) and n.value.value >= 0:
                cands[tg.id] = n.value.value
        for n in ast.walk(self.cls):
            tgs = n.targets if isinstance(n, ast.Assign) else [n.target] if isinstance(n, (ast.AugAssign, ast.AnnAssign)) else []
            for tg in tgs:
                if isinstance(tg, ast.Attribute) and tg.attr in cands:
                    cands.pop(tg.attr)
        self.class_consts = cands

    def fresh(self, p):
        self.n += 1
        return f"{p}{self.n}"

    def window_container(self):
        """what `__init__` binds `_request_times` to: "list" (`[]`, `list()`) or "deque" (`deque()` without arguments:
        unbounded).  Anything else - a deque with `maxlen` (appending then EVICTS), a pre-filled container, another
        type - is not the modelled window: the pieces that touch it leave the subset."""
        init = self.methods.get("__init__")
        if init is None:
            bad(self.cls, "Membrane has no __init__")
        found = None
        for n in ast.walk(init):
            tg = n.targets[0] if isinstance(n, ast.Assign) and len(n.targets) == 1 else \
                n.target if isinstance(n, ast.AnnAssign) and n.value is not None else None
            if tg is not None and is_self(tg, "_request_times"):
                if found is not None:
                    bad(n, "_request_times bound twice in __init__")
                v = n.value
                if isinstance(v, ast.List) and not v.elts:
                    found = "list"
                elif isinstance(v, ast.Call) and not v.args and not v.keywords and ast.unparse(v.func) == "list":
                    found = "list"
                elif isinstance(v, ast.Call) and not v.args and not v.keywords \
                        and ast.unparse(v.func) in ("deque", "collections.deque"):
                    found = "deque"
                else:
                    bad(n, f"_request_times starts as {ast.unparse(v)[:40]}")
        if found is None:
            bad(init, "__init__ does not bind _request_times")
        return found

    # -- expressions (pure) -----------------------------------------------------------------------------------
    def ev(self, node, env, cur):
        k = ast.unparse(node).replace(" ", "")
        if isinstance(node, ast.Name):
            if node.id in env:
                return env[node.id]
            if node.id in MODULE_CONSTS and isinstance(MODULE_CONSTS[node.id], int):
                return V("nat", str(MODULE_CONSTS[node.id]))
            return JUNK
        if isinstance(node, ast.Constant):
            if isinstance(node.value, bool):
                return V("bool", "true" if node.value else "false")
            if node.value is None:
                return V("none")
            if isinstance(node.value, int) and node.value >= 0:
                return V("nat", str(node.value))
            return JUNK
        if isinstance(node, ast.JoinedStr):
            return JUNK
        if isinstance(node, ast.List) and not node.elts:
            return V("siglist", "([] : List Sig)")
        if isinstance(node, ast.Tuple):
            return V("tuple", items=[self.ev(e, env, cur) for e in node.elts])
        if isinstance(node, ast.Attribute):
            if isinstance(node.value, ast.Name) and node.value.id == "ThreatLevel" and node.attr in self.levels:
                return V("nat", str(self.levels[node.attr]))
            if node.attr in self.class_consts and (
                    is_self(node) or ast.unparse(node.value) in (self.cls.name, "type(self)", "self.__class__")) \
                    and "self." + node.attr not in env:
                return V("nat", str(self.class_consts[node.attr]))
            if is_self(node):
                a = node.attr
                if "self." + a in env:
                    return env["self." + a]
                return {"signatures": V("siglist", f"{cur}.sigs"), "threshold": V("nat", f"{cur}.threshold"),
                        "rate_limit": V("onat", f"{cur}.rateLimit"), "_request_times": V("times", f"{cur}.reqTimes"),
                        "_blocked_hashes": V("hashset", f"{cur}.blocked"), "on_threat": V("hook"),
                        "_audit_log": V("audit"), "_learned_patterns": V("learned"),
                        "enable_adaptive": V("bool", f"{cur}.adaptive")}.get(a, JUNK)
            base = self.ev(node.value, env, cur)
            if node.attr == "value" and base.kind == "nat":
                return base
            if base.kind == "sig" and node.attr == "level":
                return V("siglevel", var=base.lean)
            if base.kind == "siglevel" and node.attr == "value":
                return base
            if base.kind == "result":
                f = {"allowed": "allowed", "threat_level": "level", "matched_signatures": "matched",
                     "audit_hash": "key"}.get(node.attr)
                if f:
                    return base.fields[f]
            if base.kind == "signal" and node.attr == "content":
                return V("str", "c")
            return JUNK
        if isinstance(node, ast.Subscript):
            b = self.ev(node.value, env, cur)
            # the audit hash: the first 16 hex digits (64 bits), however the 16 is spelled
            if b.kind == "hash" and isinstance(node.slice, ast.Slice) and node.slice.lower is None \
                    and node.slice.step is None and node.slice.upper is not None:
                u = self.ev(node.slice.upper, env, cur)
                if u.kind == "nat" and u.lean == "16":
                    return b
            return JUNK
        if isinstance(node, ast.Call):
            f = node.func
            if isinstance(f, ast.Name) and f.id == "len" and len(node.args) == 1:
                a = self.ev(node.args[0], env, cur)
                if a.kind in ("times", "siglist"):
                    return V("nat", f"({a.lean}).length")
                return JUNK
            if isinstance(f, ast.Name) and f.id == "list" and len(node.args) == 1:
                a = self.ev(node.args[0], env, cur)
                return a if a.kind in ("siglist", "times") else JUNK
            if k == "time.time()":
                return V("time", "now")
            if isinstance(f, ast.Attribute) and f.attr == "values" and not node.args \
                    and self.ev(f.value, env, cur).kind == "learned":
                return V("siglist", f"{cur}.learned")
            # sha256(content.encode("utf-8", "surrogatepass")).hexdigest()
            if isinstance(f, ast.Attribute) and f.attr == "hexdigest" and isinstance(f.value, ast.Call) \
                    and ast.unparse(f.value.func) in ("hashlib.sha256", "sha256") and len(f.value.args) == 1:
                enc = f.value.args[0]
                if isinstance(enc, ast.Call) and isinstance(enc.func, ast.Attribute) and enc.func.attr == "encode" \
                        and self.ev(enc.func.value, env, cur).kind == "str":
                    args = [a.value for a in enc.args if isinstance(a, ast.Constant)] + \
                           [kw.value.value for kw in enc.keywords if isinstance(kw.value, ast.Constant)]
                    if "surrogatepass" in args:
                        return V("hash", "c")
                    bad(node, "content.encode() is strict: raises UnicodeEncodeError on a lone surrogate")
                bad(node, "hash of something else than the content")
            if isinstance(f, ast.Name) and f.id == "FilterResult":
                kw = {x.arg: self.ev(x.value, env, cur) for x in node.keywords}
                for i, a in enumerate(node.args):
                    kw[["allowed", "threat_level", "matched_signatures", "sanitized_content", "audit_hash"][i]] = \
                        self.ev(a, env, cur)
                al, lv, ms, hh = (kw.get(x) for x in ("allowed", "threat_level", "matched_signatures", "audit_hash"))
                if not (al and al.kind == "bool" and lv and lv.kind == "nat" and ms and ms.kind == "siglist"
                        and hh and hh.kind == "hash"):
                    bad(node, "FilterResult(...) fields")
                return V("result", fields={"allowed": al, "level": lv, "matched": ms, "key": hh})
            return JUNK
        if isinstance(node, ast.UnaryOp) and isinstance(node.op, ast.Not):
            a = self.ev(node.operand, env, cur)
            return V("bool", f"(!{a.lean})") if a.kind == "bool" else JUNK
        if isinstance(node, ast.BoolOp):
            vs = [self.ev(x, env, cur) for x in node.values]
            if all(v.kind == "bool" for v in vs):
                return V("bool", "(" + (" && " if isinstance(node.op, ast.And) else " || ").join(v.lean for v in vs) + ")")
            return JUNK
        if isinstance(node, ast.BinOp) and isinstance(node.op, ast.Sub):
            a, b = self.ev(node.left, env, cur), self.ev(node.right, env, cur)
            if a.kind == "time" and b.kind == "nat" and b.lean.isdigit():
                return V("tminus", a.lean, secs=int(b.lean))
            return JUNK
        if isinstance(node, ast.Compare) and len(node.ops) == 1:
            op = node.ops[0]
            a, b = self.ev(node.left, env, cur), self.ev(node.comparators[0], env, cur)
            if isinstance(op, (ast.Is, ast.IsNot)) and b.kind == "none" and a.kind == "onat":
                return V("isnone", a.lean, neg=isinstance(op, ast.IsNot))
            if isinstance(op, (ast.In, ast.NotIn)) and a.kind == "hash" and b.kind == "hashset":
                t = f"decide ({a.lean} ∈ {b.lean})"
                return V("bool", t if isinstance(op, ast.In) else f"(!{t})", replay=isinstance(op, ast.In))
            sym = {ast.Lt: "<", ast.LtE: "≤", ast.Gt: ">", ast.GtE: "≥", ast.Eq: "=", ast.NotEq: "≠"}.get(type(op))
            if sym and a.kind == "nat" and b.kind == "nat":
                return V("bool", f"decide ({a.lean} {sym} {b.lean})")
            if sym in (">", "≥") and a.kind == "time" and b.kind == "tminus":
                return V("bool", f"decide ({a.lean} + {b.secs} * 1000000 {sym} {b.lean})")
            if sym in ("<", "≤") and b.kind == "time" and a.kind == "tminus":
                flip = {"<": ">", "≤": "≥"}[sym]
                return V("bool", f"decide ({b.lean} + {a.secs} * 1000000 {flip} {a.lean})")
            return JUNK
        return JUNK

    # -- iterables of signatures ---------------------------------------------------------------------------------
    def sig_iter(self, node, env, cur):
        v = self.ev(node, env, cur)
        if v.kind == "siglist":
            return v.lean
        if isinstance(node, ast.Call) and is_self(node.func) and not node.args and node.func.attr in self.methods:
            body = [s for s in self.methods[node.func.attr].body if not is_docstring(s)]
            parts = []
            for s in body:
                if isinstance(s, ast.Expr) and isinstance(s.value, ast.YieldFrom):
                    parts.append(self.sig_iter(s.value.value, env, cur))
                else:
                    bad(s, "generator body other than `yield from`")
            return "(" + " ++ ".join(parts) + ")"
        if isinstance(node, ast.Call) and ast.unparse(node.func) in ("itertools.chain", "chain"):
            return "(" + " ++ ".join(self.sig_iter(a, env, cur) for a in node.args) + ")"
        if isinstance(node, ast.BinOp) and isinstance(node.op, ast.Add):
            return f"({self.sig_iter(node.left, env, cur)} ++ {self.sig_iter(node.right, env, cur)})"
        bad(node, f"iterable {ast.unparse(node)[:40]}")

    # -- statements -----------------------------------------------------------------------------------------------
    def is_noop(self, st):
        if is_docstring(st) or is_print(st) or isinstance(st, ast.Pass):
            return True
        if isinstance(st, ast.AnnAssign) and st.value is None:
            return True
        if isinstance(st, ast.Expr) and isinstance(st.value, ast.Call) and root_name(st.value.func) in NOOP_CALL_ROOTS \
                and not has_self_call(st.value):
            return True
        if isinstance(st, ast.If) and not has_self_call(st.test):
            return all(self.is_noop(x) for x in st.body) and all(self.is_noop(x) for x in st.orelse)
        return False

    def upd(self, cur, field, expr, depth):
        n = self.fresh("m")
        return n, f"{IND * depth}let {n} : Membrane := {{ {cur} with {field} := {expr} }}\n"

    def run(self, stmts, env, cur, ghost, ret, depth, stack):
        pad = IND * depth
        if not stmts:
            return ret(V("none"), env, cur, ghost, depth)
        st, more = stmts[0], stmts[1:]
        if self.is_noop(st):
            return self.run(more, env, cur, ghost, ret, depth, stack)
        if isinstance(st, ast.With):
            return self.run(st.body + more, env, cur, ghost, ret, depth, stack)       # locks are transparent here
        if isinstance(st, ast.AnnAssign):
            st = ast.copy_location(ast.Assign(targets=[st.target], value=st.value), st)
        # ---- calls that must be inlined: x = self.f(..) | return self.f(..) | self.f(..) | if self.f(..):
        call, how = None, None
        if isinstance(st, ast.Assign) and self.self_call(st.value):
            call, how = st.value, "assign"
        elif isinstance(st, ast.Return) and st.value is not None and self.self_call(st.value):
            call, how = st.value, "return"
        elif isinstance(st, ast.Expr) and self.self_call(st.value):
            call, how = st.value, "expr"
        elif isinstance(st, ast.If) and self.self_call(st.test):
            call, how = st.test, "if"
        elif isinstance(st, ast.If) and isinstance(st.test, ast.UnaryOp) and isinstance(st.test.op, ast.Not) \
                and self.self_call(st.test.operand):
            call, how = st.test.operand, "ifnot"
        if call is not None:
            name = call.func.attr
            if name in stack or len(stack) > 6:
                bad(st, "recursive helper")
            fn = self.methods[name]
            # bind the arguments like Python does: positional, keyword, defaults; `@staticmethod` has no `self`
            decos = {ast.unparse(d) for d in fn.decorator_list}
            if decos - {"staticmethod", "classmethod"} or fn.args.vararg or fn.args.kwarg or fn.args.kwonlyargs \
                    or getattr(fn.args, "posonlyargs", None):
                bad(st, f"helper {name} has a decorator / variadic / keyword-only parameters")
            allargs = [a.arg for a in fn.args.args]
            params = allargs if "staticmethod" in decos else allargs[1:]
            dflt = dict(zip(allargs[len(allargs) - len(fn.args.defaults):], fn.args.defaults))
            if len(call.args) > len(params) or any(isinstance(a, ast.Starred) for a in call.args):
                bad(st, f"call of {name} with too many / starred arguments")
            callee_env = {p: self.ev(a, env, cur) for p, a in zip(params, call.args)}
            for kw in call.keywords:
                if kw.arg is None or kw.arg not in params or kw.arg in callee_env:
                    bad(st, f"call of {name}: keyword argument {kw.arg}")
                callee_env[kw.arg] = self.ev(kw.value, env, cur)
            for p_ in params:
                if p_ not in callee_env:
                    if p_ not in dflt:
                        bad(st, f"call of {name}: no value for parameter {p_}")
                    callee_env[p_] = self.ev(dflt[p_], {}, cur)
            touches_rate = any(is_self(n, "rate_limit") for n in ast.walk(fn))

            def k(v, _cenv, cur2, ghost2, depth2):
                if how == "assign":
                    return self.run(more, self.bind(st.targets[0], v, env), cur2, ghost, ret, depth2, stack)
                if how == "return":
                    return ret(v, env, cur2, ghost2, depth2)
                if how == "expr":
                    return self.run(more, env, cur2, ghost, ret, depth2, stack)
                if v.kind != "bool" or v.lean not in ("true", "false"):
                    bad(st, "helper used as a test must return a boolean constant on every path")
                taken = (v.lean == "true") != (how == "ifnot")
                g = ".rate" if (touches_rate and v.lean == "true") else ghost
                return self.run((st.body if taken else st.orelse) + more, env, cur2, g, ret, depth2, stack)
            return self.run([x for x in fn.body], callee_env, cur, ghost, k, depth, stack + [name])
        # ---- plain statements
        if isinstance(st, ast.Return):
            v = self.ev(st.value, env, cur) if st.value is not None else V("none")
            return ret(v, env, cur, ghost, depth)
        if isinstance(st, ast.Assign) and len(st.targets) == 1:
            tg = st.targets[0]
            if is_self(tg, "_request_times"):
                v = st.value
                # the rebuilt window may be a list or an unbounded deque: `[...]`, `list(<gen>)`, `deque(<gen>)` hold the
                # same elements in the same order (iteration, len() and append are all the code uses - see
                # window_container()); a deque with `maxlen` is NOT the same container and is refused there and here
                if isinstance(v, ast.Call) and ast.unparse(v.func) in ("deque", "collections.deque", "list") \
                        and len(v.args) == 1 and not v.keywords and isinstance(v.args[0], (ast.GeneratorExp, ast.ListComp)):
                    if ast.unparse(v.func) != "list" and self.window_container() != "deque":
                        bad(st, "deque assigned to a window that starts as a list")
                    v = ast.copy_location(ast.ListComp(elt=v.args[0].elt, generators=v.args[0].generators), v)
                if isinstance(v, ast.ListComp) and len(v.generators) == 1 and isinstance(v.elt, ast.Name) \
                        and isinstance(v.generators[0].target, ast.Name) and v.elt.id == v.generators[0].target.id \
                        and self.ev(v.generators[0].iter, env, cur).kind == "times" and len(v.generators[0].ifs) == 1:
                    env2 = dict(env)
                    env2[v.elt.id] = V("time", "t")
                    c = self.ev(v.generators[0].ifs[0], env2, cur)
                    if c.kind != "bool":
                        bad(st, "filter condition on _request_times")
                    n, line = self.upd(cur, "reqTimes", f"{cur}.reqTimes.filter (fun t => {c.lean})", depth)
                    return line + self.run(more, env, n, ghost, ret, depth, stack)
                bad(st, "assignment to _request_times")
            if is_self(tg):
                bad(st, f"assignment to self.{tg.attr}")
            v = self.ev(st.value, env, cur)
            if v.kind == "result":
                n = self.fresh("r")
                f = v.fields
                line = (f"{pad}let {n} : FilterRes := ⟨{f['allowed'].lean}, {f['level'].lean}, {f['matched'].lean}, "
                        f"{f['key'].lean}, {ghost}⟩\n")
                v = V("result", n, fields=f)
                return line + self.run(more, self.bind(tg, v, env), cur, ghost, ret, depth, stack)
            if v.kind in ("bool", "nat") and not v.lean.replace(".", "").replace("_", "").isalnum():
                n = self.fresh("b" if v.kind == "bool" else "n")
                extra = {k2: getattr(v, k2) for k2 in ("replay",) if hasattr(v, k2)}
                return (f"{pad}let {n} := {v.lean}\n"
                        + self.run(more, self.bind(tg, V(v.kind, n, **extra), env), cur, ghost, ret, depth, stack))
            return self.run(more, self.bind(tg, v, env), cur, ghost, ret, depth, stack)
        if isinstance(st, ast.AugAssign) and isinstance(st.op, ast.Add) and is_self(st.target) \
                and isinstance(st.value, ast.Constant) and st.value.value == 1 \
                and st.target.attr in ("_total_blocked", "_total_filtered"):
            fld = {"_total_blocked": "totalBlocked", "_total_filtered": "totalFiltered"}[st.target.attr]
            n, line = self.upd(cur, fld, f"{cur}.{fld} + 1", depth)
            return line + self.run(more, env, n, ghost, ret, depth, stack)
        if isinstance(st, ast.Expr) and isinstance(st.value, ast.Call) and isinstance(st.value.func, ast.Attribute):
            call = st.value
            recv = self.ev(call.func.value, env, cur)
            args = [self.ev(a, env, cur) for a in call.args]
            m = call.func.attr
            if recv.kind == "audit" and m == "append" and len(args) == 1 and args[0].kind == "result" and args[0].lean:
                n, line = self.upd(cur, "audit", f"{cur}.audit ++ [{args[0].lean}]", depth)
                return line + self.run(more, env, n, ghost, ret, depth, stack)
            if recv.kind == "hashset" and m == "add" and len(args) == 1 and args[0].kind == "hash":
                n, line = self.upd(cur, "blocked", f"{args[0].lean} :: {cur}.blocked", depth)
                return line + self.run(more, env, n, ghost, ret, depth, stack)
            if recv.kind == "times" and m == "append" and len(args) == 1 and args[0].kind == "time":
                n, line = self.upd(cur, "reqTimes", f"{cur}.reqTimes ++ [{args[0].lean}]", depth)
                return line + self.run(more, env, n, ghost, ret, depth, stack)
            if recv.kind == "junk" and root_name(call.func) != "self":
                return self.run(more, env, cur, ghost, ret, depth, stack)      # mutation of an unmodelled local
            bad(st, f"call {ast.unparse(call.func)[:40]}")
        if isinstance(st, ast.For):
            return self.scan_loop(st, more, env, cur, ghost, ret, depth, stack)
        if isinstance(st, ast.If):
            test, body, orelse = st.test, st.body, st.orelse
            while isinstance(test, ast.UnaryOp) and isinstance(test.op, ast.Not):
                test, body, orelse = test.operand, orelse, body
            # one spelling per comparison: `if a < b: X else: Y` is emitted as `if a >= b: Y else: X` (likewise `<=`)
            if isinstance(test, ast.Compare) and len(test.ops) == 1 and isinstance(test.ops[0], (ast.Lt, ast.LtE)):
                flipped = ast.GtE() if isinstance(test.ops[0], ast.Lt) else ast.Gt()
                test = ast.copy_location(ast.Compare(left=test.left, ops=[flipped], comparators=test.comparators), test)
                body, orelse = orelse, body
            # the hook: `if self.on_threat: self.on_threat(result)`
            if is_self(test, "on_threat") and not orelse and len(body) == 1 and isinstance(body[0], ast.Expr) \
                    and isinstance(body[0].value, ast.Call) and is_self(body[0].value.func, "on_threat") \
                    and len(body[0].value.args) == 1:
                r = self.ev(body[0].value.args[0], env, cur)
                if r.kind != "result" or not r.lean:
                    bad(st, "hook argument")
                return (f"{pad}match hookRaise {cur}.onThreat {cur}.view {r.lean} with\n"
                        f"{pad}| some k => ({cur}, ⟨{r.lean}, some k⟩)\n{pad}| none =>\n"
                        + self.run(more, env, cur, ghost, ret, depth + 1, stack))
            c = self.ev(test, env, cur)
            if c.kind == "isnone":
                if c.lean != f"{cur}.rateLimit":
                    bad(st, "None test")
                rl = self.fresh("rl")
                env2 = dict(env)
                env2["self.rate_limit"] = V("nat", rl)
                for k2, v2 in env.items():      # locals that hold a copy of the limit are known to be that number too
                    if getattr(v2, "kind", None) == "onat" and v2.lean == c.lean:
                        env2[k2] = V("nat", rl)
                a, b = (orelse, body) if c.neg else (body, orelse)
                return (f"{pad}match {cur}.rateLimit with\n{pad}| none =>\n"
                        + self.run(a + more, env, cur, ghost, ret, depth + 1, stack)
                        + f"{pad}| some {rl} =>\n" + self.run(b + more, env2, cur, ghost, ret, depth + 1, stack))
            if c.kind != "bool":
                bad(st, f"test {ast.unparse(st.test)[:40]}")
            if c.lean == "true":
                return self.run(body + more, env, cur, ghost, ret, depth, stack)
            if c.lean == "false":
                return self.run(orelse + more, env, cur, ghost, ret, depth, stack)
            g = ".replay" if getattr(c, "replay", False) else ghost
            return (f"{pad}if {c.lean} then\n" + self.run(body + more, env, cur, g, ret, depth + 1, stack)
                    + f"{pad}else\n" + self.run(orelse + more, env, cur, ghost, ret, depth + 1, stack))
        bad(st, f"statement {type(st).__name__}")

    def self_call(self, node):
        return isinstance(node, ast.Call) and is_self(node.func) and node.func.attr in self.methods \
            and not self.is_generator(node.func.attr)

    def is_generator(self, name):
        return any(isinstance(n, (ast.Yield, ast.YieldFrom)) for n in ast.walk(self.methods[name]))

    def bind(self, target, v, env):
        env2 = dict(env)
        if isinstance(target, ast.Name):
            env2[target.id] = v
        elif isinstance(target, ast.Tuple) and v.kind == "tuple" and len(v.items) == len(target.elts) \
                and all(isinstance(e, ast.Name) for e in target.elts):
            for e, x in zip(target.elts, v.items):
                env2[e.id] = x
        else:
            bad(target, "assignment target")
        return env2

    def scan_loop(self, st, more, env, cur, ghost, ret, depth, stack):
        """for s in <sigs>: if s.matches(content): M.append(s); if s.level.value > L.value: L = s.level"""
        pad = IND * depth
        if st.orelse or not isinstance(st.target, ast.Name):
            bad(st, "for loop")
        var = st.target.id
        it = self.sig_iter(st.iter, env, cur)
        body = [x for x in st.body if not self.is_noop(x)]
        # `if not C: continue` followed by the rest of the body is `if C: <rest>` (guard-clause spelling of the scan)
        if len(body) >= 2 and isinstance(body[0], ast.If) and not body[0].orelse \
                and [type(x) for x in body[0].body if not self.is_noop(x)] == [ast.Continue] \
                and isinstance(body[0].test, ast.UnaryOp) and isinstance(body[0].test.op, ast.Not) \
                and not any(isinstance(n_, (ast.Continue, ast.Break)) for x in body[1:] for n_ in ast.walk(x)):
            body = [ast.If(test=body[0].test.operand, body=body[1:], orelse=[])]
        ok = len(body) == 1 and isinstance(body[0], ast.If) and not body[0].orelse
        if ok:
            t = body[0].test
            ok = isinstance(t, ast.Call) and isinstance(t.func, ast.Attribute) and t.func.attr == "matches" \
                and isinstance(t.func.value, ast.Name) and t.func.value.id == var and len(t.args) == 1 \
                and self.ev(t.args[0], env, cur).kind == "str"
        inner = [x for x in body[0].body if not self.is_noop(x)] if ok else []
        ok = ok and len(inner) == 2
        if ok:
            ap, up = inner
            ok = isinstance(ap, ast.Expr) and isinstance(ap.value, ast.Call) and isinstance(ap.value.func, ast.Attribute) \
                and ap.value.func.attr == "append" and isinstance(ap.value.func.value, ast.Name) \
                and len(ap.value.args) == 1 and ast.unparse(ap.value.args[0]) == var \
                and env.get(ap.value.func.value.id, JUNK).kind == "siglist"
        if ok:
            ok = isinstance(up, ast.If) and not up.orelse and len(up.body) == 1 and isinstance(up.body[0], ast.Assign) \
                and isinstance(up.body[0].targets[0], ast.Name) and ast.unparse(up.body[0].value) == f"{var}.level" \
                and isinstance(up.test, ast.Compare) and isinstance(up.test.ops[0], ast.Gt) \
                and ast.unparse(up.test.left) == f"{var}.level.value" \
                and ast.unparse(up.test.comparators[0]) == f"{up.body[0].targets[0].id}.value" \
                and env.get(up.body[0].targets[0].id, JUNK).kind == "nat"
        if not ok:
            bad(st, "loop is not the signature scan (match, append, running maximum)")
        mname, lname_ = ap.value.func.value.id, up.body[0].targets[0].id
        hits, m2, l2 = self.fresh("hits"), self.fresh("ms"), self.fresh("lv")
        env2 = dict(env)
        env2[mname] = V("siglist", m2)
        env2[lname_] = V("nat", l2)
        return (f"{pad}let {hits} := matched env {it} c\n"
                f"{pad}let {m2} := {env[mname].lean} ++ {hits}\n"
                f"{pad}let {l2} := maxFrom {env[lname_].lean} {hits}\n"
                + self.run(more, env2, cur, ghost, ret, depth, stack))


def tr_membrane_piece(tree, key):
    return tr_membrane(tree, only=key)[key]


def tr_membrane(tree, only=None):
    out = {}
    tx = MembraneTx(tree)
    tx.window_container()               # the rate window starts as an empty list / unbounded deque, else fail closed
    if only == "filter":
        return {"filter": _tr_filter(tree)}

    def ret_rate(v, env, cur, ghost, depth):
        if v.kind != "bool":
            bad(tx.methods["_check_rate_limit"], "_check_rate_limit must return a boolean")
        return f"{IND * depth}({v.lean}, {cur}.reqTimes)\n"
    body = tx.run(list(tx.methods["_check_rate_limit"].body), {}, "m", ".scan", ret_rate, 1, ["_check_rate_limit"])
    out["checkRateLimit"] = "def Tr.checkRateLimit (m : Membrane) (now : Nat) : Bool × List Nat :=\n" + body
    if only == "checkRateLimit":
        return out
    out["filter"] = _tr_filter(tree)
    return out


def _tr_filter(tree):
    tx2 = MembraneTx(tree)
    f = tx2.methods["filter"]
    params = [a.arg for a in f.args.args][1:]
    if len(params) != 1:
        bad(f, "filter signature")

    def ret_filter(v, env, cur, ghost, depth):
        if v.kind != "result" or not v.lean:
            bad(f, "filter must return the FilterResult it booked")
        return f"{IND * depth}({cur}, ⟨{v.lean}, none⟩)\n"
    body = tx2.run(list(f.body), {params[0]: V("signal")}, "m", ".scan", ret_filter, 1, ["filter"])
    return "def Tr.filter (env : Env) (m : Membrane) (now : Nat) (c : Str) : Membrane × FilterOut :=\n" + body


# ------------------------------------------------------------------------------------------------------------------
# innate: allow rule, inflammation level — located by ROLE through the call graph, not by local names
# ------------------------------------------------------------------------------------------------------------------
class Subst(ast.NodeTransformer):
    def __init__(self, m):
        self.m = m

    def visit_Name(self, node):
        return self.m.get(node.id, node)


def single_defs(fn):
    """locals assigned exactly once, at the top level of the function body: name -> value expression"""
    count, val = {}, {}
    for n in ast.walk(fn):
        tg = None
        if isinstance(n, ast.Assign) and len(n.targets) == 1 and isinstance(n.targets[0], ast.Name):
            tg = n.targets[0].id
        elif isinstance(n, ast.AnnAssign) and isinstance(n.target, ast.Name) and n.value is not None:
            tg = n.target.id
        elif isinstance(n, ast.AugAssign) and isinstance(n.target, ast.Name):
            count[n.target.id] = count.get(n.target.id, 0) + 2
        if tg:
            count[tg] = count.get(tg, 0) + 1
    for n in fn.body:
        if isinstance(n, ast.Assign) and len(n.targets) == 1 and isinstance(n.targets[0], ast.Name) \
                and count.get(n.targets[0].id) == 1:
            val[n.targets[0].id] = n.value
        elif isinstance(n, ast.AnnAssign) and isinstance(n.target, ast.Name) and n.value is not None \
                and count.get(n.target.id) == 1:
            val[n.target.id] = n.value
    return val


def kwargs_of(call, fields):
    kw = {k.arg: k.value for k in call.keywords}
    for i, a in enumerate(call.args):
        if i < len(fields):
            kw[fields[i]] = a
    return kw


def pure_helper_expr(cls_methods, call):
    """`self.h(a, b)` where h's body (docstrings / logging aside) is a single `return <expr>`: the expression with the
    parameters replaced by the arguments"""
    fn = cls_methods.get(call.func.attr)
    if fn is None:
        return None
    body = [s for s in fn.body if not is_docstring(s) and not is_print(s)
            and not (isinstance(s, ast.Expr) and isinstance(s.value, ast.Call) and root_name(s.value.func) in NOOP_CALL_ROOTS)]
    if len(body) != 1 or not isinstance(body[0], ast.Return) or body[0].value is None:
        return None
    params = [a.arg for a in fn.args.args][1:]
    if call.keywords or len(call.args) != len(params):
        return None
    import copy
    return Subst(dict(zip(params, call.args))).visit(copy.deepcopy(body[0].value))


class RoleExpr(Expr):
    """Expr with role-resolved leaves: `special(node)` is consulted first; single-assignment locals and pure helpers
    are expanded"""
    def __init__(self, special, defs, methods, enums):
        super().__init__({}, enums)
        self.special, self.defs, self.methods, self.depth = special, defs, methods, 0

    def tr(self, node):
        r = self.special(node, self)
        if r is not None:
            return r
        if self.depth < 8:
            if isinstance(node, ast.Name) and node.id in self.defs:
                self.depth += 1
                try:
                    return self.tr(self.defs[node.id])
                finally:
                    self.depth -= 1
            if isinstance(node, ast.Call) and is_self(node.func) and node.func.attr in self.methods:
                e = pure_helper_expr(self.methods, node)
                if e is not None:
                    self.depth += 1
                    try:
                        return self.tr(e)
                    finally:
                        self.depth -= 1
        if isinstance(node, ast.UnaryOp) and isinstance(node.op, ast.Not):
            t, ty = self.tr(node.operand)
            if ty == "count":
                return f"decide ({t} = 0)", "bool"
            if ty == "bool":
                return f"(!{t})", "bool"
        return super().tr(node)


def find_calls(fn, pred):
    return [n for n in ast.walk(fn) if isinstance(n, ast.Call) and pred(n)]


def tr_innate(tree):
    cls = find_class(tree, "InnateImmunity")
    methods = {n.name: n for n in cls.body if isinstance(n, ast.FunctionDef)}
    enums = {"InflammationLevel": enum_values(tree, "InflammationLevel")}
    chk = methods.get("check")
    if chk is None:
        bad(cls, "no check()")
    # the function that builds the InnateCheckResult (check itself or a helper it calls)
    reach = [chk] + [methods[c.func.attr] for c in find_calls(chk, lambda c: is_self(c.func) and c.func.attr in methods)]
    site = None
    for fn in reach:
        cs = find_calls(fn, lambda c: isinstance(c.func, ast.Name) and c.func.id == "InnateCheckResult")
        if cs:
            site = (fn, cs[0])
            break
    if site is None:
        bad(chk, "no InnateCheckResult(...) construction reachable from check()")
    fn, ctor = site
    kw = kwargs_of(ctor, ["allowed", "matched_patterns", "structural_errors", "inflammation", "processing_time_ms"])
    for need in ("allowed", "matched_patterns", "structural_errors", "inflammation"):
        if need not in kw:
            bad(ctor, f"InnateCheckResult without {need}")
    defs = single_defs(fn)
    err_name = kw["structural_errors"].id if isinstance(kw["structural_errors"], ast.Name) else None
    infl_name = kw["inflammation"].id if isinstance(kw["inflammation"], ast.Name) else None
    pat_name = kw["matched_patterns"].id if isinstance(kw["matched_patterns"], ast.Name) else None
    # the running maximum of the pattern loop: `if p.severity > N: N = p.severity`
    max_name = None
    for n in ast.walk(fn):
        if isinstance(n, ast.If) and isinstance(n.test, ast.Compare) and isinstance(n.test.ops[0], ast.Gt) \
                and isinstance(n.test.left, ast.Attribute) and n.test.left.attr == "severity" \
                and isinstance(n.test.comparators[0], ast.Name) and len(n.body) == 1 \
                and isinstance(n.body[0], ast.Assign) and ast.unparse(n.body[0].targets[0]) == n.test.comparators[0].id \
                and ast.unparse(n.body[0].value) == ast.unparse(n.test.left):
            max_name = n.test.comparators[0].id
    if not (err_name and infl_name and max_name):
        bad(fn, "roles (structural errors, inflammation response, running maximum) not recognised")

    def special_allow(node, ex):
        if isinstance(node, ast.Name):
            if node.id == max_name:
                return "maxSev", "nat"
            if node.id == err_name:
                return "nErr", "count"
        if is_self(node, "severity_threshold"):
            return "thr", "nat"
        if isinstance(node, ast.Attribute) and node.attr == "level" and isinstance(node.value, ast.Name) \
                and node.value.id == infl_name:
            return "lvl", "nat"
        if isinstance(node, ast.Compare) and len(node.ops) == 1 and isinstance(node.ops[0], ast.Eq) \
                and isinstance(node.left, ast.Name) and node.left.id == err_name \
                and isinstance(node.comparators[0], ast.List) and not node.comparators[0].elts:
            return "decide (nErr = 0)", "bool"
        return None
    out = []
    ex = RoleExpr(special_allow, {k: v for k, v in defs.items() if k not in (max_name, err_name, infl_name)}, methods, enums)
    out.append("/-- translation of the allow rule of `InnateImmunity.check` (located through the `allowed=` field of the\n"
               "    InnateCheckResult it builds; locals and pure helpers expanded) -/\n"
               "def Tr.innateAllow (maxSev thr nErr lvl : Nat) : Bool :=\n  " + ex.bool(kw["allowed"]) + "\n")

    # the inflammation function: the self-method whose result is the `inflammation=` field
    src = defs.get(infl_name)
    if not (isinstance(src, ast.Call) and is_self(src.func) and src.func.attr in methods):
        bad(fn, "inflammation response is not the result of a method of the object")
    ev = methods[src.func.attr]
    params = [a.arg for a in ev.args.args][1:]
    args = list(src.args) + [None] * (len(params) - len(src.args))
    for k in src.keywords:
        if k.arg in params:
            args[params.index(k.arg)] = k.value
    role_of = {}
    for p, a in zip(params, args):
        if isinstance(a, ast.Name):
            role_of[p] = {pat_name: "patterns", err_name: "errors", max_name: "max"}.get(a.id)
    if sorted(v for v in role_of.values() if v) != ["errors", "max", "patterns"]:
        bad(src, "arguments of the inflammation function")
    body = [s for s in ev.body if not is_docstring(s)]
    # the level chain: the first top-level `if` all of whose leaves assign one and the same local an enum member
    def leaves(node):
        if isinstance(node, ast.If):
            if len(node.body) != 1 or len(node.orelse) != 1:
                return None
            a, b = leaves(node.body[0]), leaves(node.orelse[0])
            return None if a is None or b is None else a + b
        if isinstance(node, ast.Assign) and len(node.targets) == 1 and isinstance(node.targets[0], ast.Name):
            return [(node.targets[0].id, node.value)]
        return None
    chain, lvl_var = None, None
    for s in body:
        if isinstance(s, ast.If):
            lv = leaves(s)
            if lv and len({n for n, _ in lv}) == 1 and all(isinstance(v, ast.Attribute) and isinstance(v.value, ast.Name)
                                                            and v.value.id == "InflammationLevel" for _, v in lv):
                chain, lvl_var = s, lv[0][0]
                break
    if chain is None:
        bad(ev, "no if-chain assigning the inflammation level (table-driven levels are not translated)")
    edefs = single_defs(ev)

    def special_level(node, ex):
        if isinstance(node, ast.Name) and role_of.get(node.id) == "max":
            return "maxSev", "nat"
        if isinstance(node, ast.Name) and role_of.get(node.id) == "patterns":
            return "nPat", "count"
        if isinstance(node, ast.Name) and role_of.get(node.id) == "errors":
            return "nErr", "count"
        if isinstance(node, ast.Call) and isinstance(node.func, ast.Name) and node.func.id == "sum" and len(node.args) == 1 \
                and isinstance(node.args[0], ast.GeneratorExp) and len(node.args[0].generators) == 1:
            g = node.args[0].generators[0]
            if isinstance(g.iter, ast.Name) and role_of.get(g.iter.id) == "patterns" and not g.ifs \
                    and isinstance(g.target, ast.Name) and ast.unparse(node.args[0].elt) == f"{g.target.id}.severity":
                return "sumSev", "nat"
        if isinstance(node, ast.Call) and ast.unparse(node).replace(" ", "") == "self.inflammation_state.is_in_cooldown()":
            return "cooling", "bool"
        return None
    ex2 = RoleExpr(special_level, edefs, methods, enums)

    def level(node, depth):
        pad = IND * depth
        if isinstance(node, ast.If):
            return (f"{pad}if {ex2.bool(node.test)} then\n" + level(node.body[0], depth + 1)
                    + f"{pad}else\n" + level(node.orelse[0], depth + 1))
        t, ty = ex2.tr(node.value)
        return f"{pad}{t}\n"
    out.append("/-- translation of the level chain of the inflammation function (the method whose result is the\n"
               "    `inflammation=` field), with the locals it reads expanded -/\n"
               "def Tr.newLevel (sumSev nPat nErr maxSev : Nat) (cooling : Bool) : Nat :=\n" + level(chain, 1))
    return out


# ------------------------------------------------------------------------------------------------------------------
# validators
# ------------------------------------------------------------------------------------------------------------------
CAUGHT_BY = {"decodeError": {"JSONDecodeError", "json.JSONDecodeError", "ValueError", "Exception", "BaseException"},
             "valueError": {"ValueError", "Exception", "BaseException"},
             "recursionError": {"RecursionError", "RuntimeError", "Exception", "BaseException"},
             "other": {"BaseException"}}
RAISE_NAME = {"decodeError": "JSONDecodeError", "valueError": "ValueError", "recursionError": "RecursionError",
              "other": "other"}


def tr_validator(tree, clsname, lean_name, params, env):
    f = find_fn(find_class(tree, clsname), "validate")
    body = [s for s in f.body if not is_docstring(s)]

    def ret(st):
        v = st.value
        if isinstance(v, ast.Tuple) and len(v.elts) == 2 and isinstance(v.elts[0], ast.Constant) \
                and isinstance(v.elts[0].value, bool):
            if v.elts[0].value:
                if not (isinstance(v.elts[1], ast.Constant) and v.elts[1].value is None):
                    bad(st, "(True, <message>)")
                return ".ok true"
            if isinstance(v.elts[1], ast.Constant) and not v.elts[1].value:
                bad(st, "(False, <empty message>) is not counted as an error by check()")
            return ".ok false"
        bad(st, "return value")

    def block(stmts, env, depth):
        pad = IND * depth
        if not stmts:
            bad(f, "falls off the end")
        st, more = stmts[0], stmts[1:]
        ex = Expr(env)
        if isinstance(st, ast.Return):
            return f"{pad}{ret(st)}\n"
        if isinstance(st, ast.If):
            return (f"{pad}if {ex.bool(st.test)} then\n" + block(st.body + more, env, depth + 1)
                    + f"{pad}else\n" + block(st.orelse + more, env, depth + 1))
        if isinstance(st, ast.Assign) and len(st.targets) == 1 and isinstance(st.targets[0], ast.Name):
            name = st.targets[0].id
            v = st.value
            if isinstance(v, ast.Call) and is_self(v.func, "_measure_depth") and len(v.args) == 1 \
                    and env.get(ast.unparse(v.args[0]), (None, None))[1] == "json":
                env2 = dict(env)
                env2[name] = (name, "nat")
                return f"{pad}let {name} := Tr.measure md {env[ast.unparse(v.args[0])][0]} 0\n" + block(more, env2, depth)
            t, ty = ex.tr(v)
            env2 = dict(env)
            env2[name] = (name, ty)
            return f"{pad}let {name} := {t}\n" + block(more, env2, depth)
        if isinstance(st, ast.For) and not st.orelse:
            # for i, char in enumerate(content): code = ord(char); if <test>: return <rejected>
            tg = st.target
            if not (isinstance(tg, ast.Tuple) and len(tg.elts) == 2 and all(isinstance(e, ast.Name) for e in tg.elts)
                    and ast.unparse(st.iter) == "enumerate(content)"):
                bad(st, "for loop header")
            ch = tg.elts[1].id
            b = st.body
            if not (len(b) == 2 and isinstance(b[0], ast.Assign) and isinstance(b[0].targets[0], ast.Name)
                    and ast.unparse(b[0].value) == f"ord({ch})" and isinstance(b[1], ast.If) and not b[1].orelse
                    and len(b[1].body) == 1 and isinstance(b[1].body[0], ast.Return)):
                bad(st, "for loop body")
            code = b[0].targets[0].id
            env2 = dict(env)
            env2[code] = (code, "nat")
            env2[ch] = (code, "nat")
            test = Expr(env2).bool(b[1].test)
            return (f"{pad}if content.any (fun {code} => {test}) then\n{pad}{IND}{ret(b[1].body[0])}\n{pad}else\n"
                    + block(more, env, depth + 1))
        if isinstance(st, ast.Try) and not st.orelse and not st.finalbody and len(st.handlers) == 1:
            h = st.handlers[0]
            names = [ast.unparse(e) for e in h.type.elts] if isinstance(h.type, ast.Tuple) else \
                [ast.unparse(h.type)] if h.type is not None else ["BaseException"]
            if not (len(h.body) == 1 and isinstance(h.body[0], ast.Return)):
                bad(h, "handler body")
            handled = ret(h.body[0])
            first = st.body[0]
            if not (isinstance(first, ast.Assign) and isinstance(first.targets[0], ast.Name)
                    and ast.unparse(first.value) == "json.loads(content)"):
                bad(first, "try body must start with `x = json.loads(content)`")
            pv = first.targets[0].id
            env2 = dict(env)
            env2[pv] = (pv, "json")
            s = f"{pad}match env.json content with\n{pad}| .parsed {pv} =>\n" + block(st.body[1:] + more, env2, depth + 2)
            for ctor in ("decodeError", "valueError", "recursionError", "other"):
                caught = bool(CAUGHT_BY[ctor] & set(names))
                s += f"{pad}| .{ctor} => " + (handled if caught else f'.raise "{RAISE_NAME[ctor]}"') + "\n"
            return s
        bad(st, f"statement {type(st).__name__}")

    return (f"/-- translation of `{clsname}.validate` -/\n"
            f"def Tr.{lean_name} {params} (content : Str) : Out Bool :=\n" + block(body, env, 1))


# ------------------------------------------------------------------------------------------------------------------

# ------------------------------------------------------------------------------------------------------------------
# JSONValidator._measure_depth: the recursion itself
# ------------------------------------------------------------------------------------------------------------------
def tr_measure_depth(tree):
    """`JSONValidator._measure_depth(self, obj, current=0)` -> mutual `Tr.measure` / `Tr.measureMax` over the model's JSON
    trees (`J`: scalar | node children; dicts and lists are both `node`, so the dict branch and the list branch must
    translate to the same text).  Supported: `if <nat comparison>: …`, `if isinstance(obj, dict|list|(dict, list)): …`,
    the emptiness test of the container (`if not obj:` / `if len(obj) == 0:`) -> a match on the children,
    `return <nat expression over current / self.max_depth>`, and
    `return max(self._measure_depth(v, <expr>) for v in obj[.values()])` on the non-empty side of the emptiness test
    (`max()` of nothing raises).  Anything else -> Unsupported."""
    cls = find_class(tree, "JSONValidator")
    fn = find_fn(cls, "_measure_depth")
    params = [a.arg for a in fn.args.args][1:]
    if len(params) != 2 or len(fn.args.defaults) != 1 or not isinstance(fn.args.defaults[0], ast.Constant) \
            or fn.args.defaults[0].value != 0:
        bad(fn, "_measure_depth(self, obj, current=0) expected")
    obj, cur = params

    def nat(e):
        if isinstance(e, ast.Name) and e.id == cur:
            return "cur"
        if isinstance(e, ast.Name) and e.id in MODULE_CONSTS and isinstance(MODULE_CONSTS[e.id], int):
            return str(MODULE_CONSTS[e.id])
        if is_self(e, "max_depth"):
            return "md"
        if isinstance(e, ast.Constant) and isinstance(e.value, int) and not isinstance(e.value, bool) and e.value >= 0:
            return str(e.value)
        if isinstance(e, ast.BinOp) and isinstance(e.op, ast.Add):
            return f"{nat(e.left)} + {nat(e.right)}"
        bad(e, f"expression {ast.unparse(e)[:30]}")

    def kinds_of(test):
        """isinstance(obj, X) -> set of container kinds tested, else None"""
        if isinstance(test, ast.Call) and isinstance(test.func, ast.Name) and test.func.id == "isinstance" \
                and len(test.args) == 2 and isinstance(test.args[0], ast.Name) and test.args[0].id == obj:
            t = test.args[1]
            names = [x.id for x in t.elts] if isinstance(t, ast.Tuple) and all(isinstance(x, ast.Name) for x in t.elts) \
                else [t.id] if isinstance(t, ast.Name) else None
            if names and set(names) <= {"dict", "list"}:
                return set(names)
        return None

    def is_empty_test(test):
        """-> True for `not obj` / `len(obj) == 0`, False for `obj` / `len(obj) > 0` …, None otherwise"""
        u = ast.unparse(test).replace(" ", "")
        if u in (f"not{obj}", f"len({obj})==0", f"{obj}=={{}}", f"{obj}==[]"):
            return True
        if u in (obj, f"len({obj})>0", f"len({obj})!=0", f"len({obj})>=1"):
            return False
        return None

    def block(stmts, kind, nonempty, depth):
        """kind: 'scalar' | 'dict' | 'list'; nonempty: None (unknown) | True | False"""
        pad = IND * depth
        stmts = [x for x in stmts if not is_docstring(x) and not is_print(x) and not isinstance(x, ast.Pass)]
        if not stmts:
            bad(fn, "a path falls off the end (returns None)")
        st, more = stmts[0], stmts[1:]
        if isinstance(st, ast.Return):
            v = st.value
            if isinstance(v, ast.Call) and isinstance(v.func, ast.Name) and v.func.id == "max" and len(v.args) == 1 \
                    and isinstance(v.args[0], ast.GeneratorExp) and len(v.args[0].generators) == 1 \
                    and not v.args[0].generators[0].ifs:
                g = v.args[0].generators[0]
                it = ast.unparse(g.iter).replace(" ", "")
                want = {"dict": f"{obj}.values()", "list": obj}.get(kind)
                call = v.args[0].elt
                if it != want or not (isinstance(g.target, ast.Name) and isinstance(call, ast.Call)
                                      and is_self(call.func, "_measure_depth") and len(call.args) == 2
                                      and not call.keywords and isinstance(call.args[0], ast.Name)
                                      and call.args[0].id == g.target.id):
                    bad(st, "max(...) over something else than the children")
                if nonempty is not True:
                    bad(st, "max() over the children without an emptiness test before it (raises on an empty container)")
                return f"{pad}Tr.measureMax md (y :: ys) ({nat(call.args[1])})\n"
            return f"{pad}{nat(v)}\n"
        if isinstance(st, ast.If):
            test, body, orelse = st.test, st.body, st.orelse
            while isinstance(test, ast.UnaryOp) and isinstance(test.op, ast.Not) and is_empty_test(test) is None:
                test, body, orelse = test.operand, orelse, body
            ks = kinds_of(test)
            if ks is not None:
                return block((body if kind in ks else orelse) + more, kind, nonempty, depth)
            e = is_empty_test(test)
            if e is not None:
                if kind == "scalar":
                    bad(st, "emptiness test on a scalar")
                if nonempty is not None:
                    return block((body if e != nonempty else orelse) + more, kind, nonempty, depth)
                a, b = (body, orelse) if e else (orelse, body)
                return (f"{pad}match xs with\n{pad}| [] =>\n" + block(a + more, kind, False, depth + 1)
                        + f"{pad}| y :: ys =>\n" + block(b + more, kind, True, depth + 1))
            if isinstance(test, ast.Compare) and len(test.ops) == 1:
                sym = {ast.Lt: "<", ast.LtE: "≤", ast.Gt: ">", ast.GtE: "≥", ast.Eq: "=", ast.NotEq: "≠"}.get(type(test.ops[0]))
                if sym:
                    c = f"{nat(test.left)} {sym} {nat(test.comparators[0])}"
                    return (f"{pad}if {c} then\n" + block(body + more, kind, nonempty, depth + 1)
                            + f"{pad}else\n" + block(orelse + more, kind, nonempty, depth + 1))
            bad(st, f"test {ast.unparse(st.test)[:40]}")
        bad(st, f"statement {type(st).__name__}")

    scalar = block(list(fn.body), "scalar", None, 2)
    d, l = block(list(fn.body), "dict", None, 2), block(list(fn.body), "list", None, 2)
    if d != l:
        bad(fn, "the dict branch and the list branch differ")
    return ("mutual\n/-- translation of `JSONValidator._measure_depth` (dicts and lists are both `node`) -/\n"
            "def Tr.measure (md : Nat) : J → Nat → Nat\n"
            "  | .scalar, cur =>\n" + scalar + "  | .node xs, cur =>\n" + d +
            "/-- `max(self._measure_depth(v, cur) for v in children)` -/\n"
            "def Tr.measureMax (md : Nat) : List J → Nat → Nat\n"
            "  | [], _ => 0\n  | x :: xs, cur => max (Tr.measure md x cur) (Tr.measureMax md xs cur)\nend\n")


# ------------------------------------------------------------------------------------------------------------------
# the rate check as a CONCURRENT program: which statements touch the shared window, and where the lock is taken
# ------------------------------------------------------------------------------------------------------------------
def tr_matches(tree, clsname, lean_name):
    """`ThreatSignature.matches` / `TLRPattern.matches` (+ the `__post_init__` that compiles the pattern), recognised by
    ROLE and emitted in ONE canonical form:

        if s.isRegex then env.rx s.pat content else isInfix (lowerS env s.pat) (lowerS env content)

    Accepted: the guard is a conjunction of `self.is_regex` and the truthiness / `is not None` of `self._compiled`
    (`__post_init__` must set `_compiled = re.compile(self.pattern, <IGNORECASE only>)` exactly when `is_regex`);
    the regex value is `self._compiled.search(content)` seen through `bool(..)`, `.. is not None`, `True if .. else
    False`; the substring value is `<fold>(self.pattern) in <fold>(content)` with `casefold` (full case folding, what
    `Env.lower` stands for); early return or if/else or one conditional expression; single-assignment locals.
    Anything else (`match` / `fullmatch`, a slice or other transformation of the content, `lower()`, another flag,
    a length guard ...) leaves the subset."""
    cls = find_class(tree, clsname)
    fn = find_fn(cls, "matches")
    post = find_fn(cls, "__post_init__")
    params = [a.arg for a in fn.args.args]
    if len(params) != 2:
        bad(fn, "matches takes (self, content)")
    cname = params[1]
    import copy
    defs = single_defs(fn)

    def expand(e):
        for _ in range(4):
            e = Subst(defs).visit(copy.deepcopy(e))
        return e

    def is_compiled(n):
        return is_self(n, "_compiled")

    def guard_terms(n):
        n = expand(n)
        if isinstance(n, ast.BoolOp) and isinstance(n.op, ast.And):
            return [t for v in n.values for t in guard_terms(v)]
        if is_self(n, "is_regex"):
            return ["regex"]
        if is_compiled(n):
            return ["compiled"]
        if isinstance(n, ast.Compare) and len(n.ops) == 1 and isinstance(n.ops[0], ast.IsNot) and is_compiled(n.left) \
                and isinstance(n.comparators[0], ast.Constant) and n.comparators[0].value is None:
            return ["compiled"]
        bad(n, "guard of matches is not `self.is_regex and self._compiled`")

    def regex_value(n):
        n = expand(n)
        if isinstance(n, ast.Call) and isinstance(n.func, ast.Name) and n.func.id == "bool" and len(n.args) == 1:
            return regex_value_raw(n.args[0])
        if isinstance(n, ast.Compare) and len(n.ops) == 1 and isinstance(n.ops[0], ast.IsNot) \
                and isinstance(n.comparators[0], ast.Constant) and n.comparators[0].value is None:
            return regex_value_raw(n.left)
        if isinstance(n, ast.IfExp) and isinstance(n.body, ast.Constant) and n.body.value is True \
                and isinstance(n.orelse, ast.Constant) and n.orelse.value is False:
            return regex_value_raw(n.test)
        bad(n, "regex branch of matches is not the truth value of a search")

    def regex_value_raw(n):
        n = expand(n)
        if isinstance(n, ast.Call) and isinstance(n.func, ast.Attribute) and is_compiled(n.func.value) \
                and not n.keywords and len(n.args) == 1 and isinstance(n.args[0], ast.Name) and n.args[0].id == cname:
            if n.func.attr != "search":
                bad(n, f"regex branch calls .{n.func.attr}(), not .search()")
            return "env.rx s.pat content"
        bad(n, "regex branch does not search the whole content with the compiled pattern")

    def folded(n, what):
        n = expand(n)
        if isinstance(n, ast.Call) and isinstance(n.func, ast.Attribute) and not n.args and not n.keywords:
            if n.func.attr != "casefold":
                bad(n, f"substring branch folds with .{n.func.attr}() (only casefold is code-point-wise)")
            inner = n.func.value
            if what == "pattern" and is_self(inner, "pattern"):
                return "lowerS env s.pat"
            if what == "content" and isinstance(inner, ast.Name) and inner.id == cname:
                return "lowerS env content"
        bad(n, f"substring branch: {what} is not folded with casefold()")

    def sub_value(n):
        n = expand(n)
        if isinstance(n, ast.Compare) and len(n.ops) == 1 and isinstance(n.ops[0], ast.In):
            return f"isInfix ({folded(n.left, 'pattern')}) ({folded(n.comparators[0], 'content')})"
        bad(n, "substring branch is not `<pattern> in <content>`")

    # __post_init__: `_compiled` is set, with IGNORECASE only, exactly when is_regex
    pbody = [st for st in post.body if not is_docstring(st) and not is_print(st)]
    if len(pbody) != 1 or not isinstance(pbody[0], ast.If) or pbody[0].orelse or not is_self(pbody[0].test, "is_regex") \
            or len(pbody[0].body) != 1:
        bad(post, "__post_init__ is not `if self.is_regex: self._compiled = re.compile(...)`")
    asg = pbody[0].body[0]
    if not (isinstance(asg, ast.Assign) and len(asg.targets) == 1 and is_compiled(asg.targets[0])
            and isinstance(asg.value, ast.Call) and ast.unparse(asg.value.func) in ("re.compile", "compile")):
        bad(asg, "__post_init__ does not assign re.compile(...) to _compiled")
    cargs = kwargs_of(asg.value, ["pattern", "flags"])
    if set(cargs) != {"pattern", "flags"} or not is_self(cargs["pattern"], "pattern"):
        bad(asg, "re.compile is not called with (self.pattern, <flags>)")
    import re as _re
    try:
        fl = int(eval(compile(ast.Expression(cargs["flags"]), "<flags>", "eval"), {"re": _re, "__builtins__": {}}))
    except Exception:
        bad(asg, "compile flags are not a constant expression over re.*")
    if fl != int(_re.IGNORECASE):
        bad(asg, f"compile flags are {fl}, not re.IGNORECASE")

    def block(stmts, env):
        """decision tree of a statement list: ('ret', expr) | ('if', test, then, else); locals substituted"""
        for i, st in enumerate(stmts):
            if is_docstring(st) or is_print(st):
                continue
            if isinstance(st, ast.Assign) and len(st.targets) == 1 and isinstance(st.targets[0], ast.Name):
                env = {**env, st.targets[0].id: Subst(env).visit(copy.deepcopy(st.value))}
                continue
            if isinstance(st, ast.AnnAssign) and isinstance(st.target, ast.Name) and st.value is not None:
                env = {**env, st.target.id: Subst(env).visit(copy.deepcopy(st.value))}
                continue
            if isinstance(st, ast.Return) and st.value is not None:
                v = Subst(env).visit(copy.deepcopy(st.value))
                if isinstance(v, ast.IfExp) and not (isinstance(v.body, ast.Constant) and v.body.value is True
                                                     and isinstance(v.orelse, ast.Constant) and v.orelse.value is False):
                    return ("if", v.test, ("ret", v.body), ("ret", v.orelse))
                return ("ret", v)
            if isinstance(st, ast.If):
                t = block(st.body, env)
                if t is None:
                    bad(st, "a branch of matches does not return")
                e = block(list(st.orelse) + list(stmts[i + 1:]), env)
                if e is None:
                    bad(st, "matches can fall off its end")
                return ("if", Subst(env).visit(copy.deepcopy(st.test)), t, e)
            bad(st, f"statement {type(st).__name__} in matches")
        return None
    defs = {}
    tree_ = block(fn.body, {})
    if not (tree_ and tree_[0] == "if" and tree_[2][0] == "ret" and tree_[3][0] == "ret"):
        bad(fn, "matches is not `if <guard>: return <regex> ; return <substring>`")
    guard, rxv, subv = tree_[1], tree_[2][1], tree_[3][1]
    terms = guard_terms(guard)
    if not terms:
        bad(guard, "empty guard")
    r, sv = regex_value(rxv), sub_value(subv)
    return (f"/-- translation of `{clsname}.matches` (with the `__post_init__` that compiles the pattern: IGNORECASE only,\n"
            f"    exactly when `is_regex`) -/\n"
            f"def Tr.{lean_name} (env : Env) (s : Sig) (content : Str) : Bool :=\n"
            f"  if s.isRegex then {r} else {sv}\n")


def rate_program(tree):
    """`_check_rate_limit` (found through the call graph from `filter`: the self-method that touches
    `self._request_times`; helpers it calls inlined) as the instruction list of Operon/Model/RateConc.lean:
    guardNone / acquire / readClock / pruneShared / testShared / appendShared / retFalse.  Only the SHAPE matters here
    (which statements read or write `_request_times`, in which order, inside or outside `with self.<lock>:`); what each
    statement computes is the business of `Tr.checkRateLimit`.  Local pure assignments, logging, docstrings are skipped.
    Anything else that touches `_request_times` (a snapshot into a local, an access through a helper's return value,
    statements after the `with` block, explicit acquire()/release()) is outside the subset -> Unsupported."""
    cls = find_class(tree, "Membrane")
    methods = {n.name: n for n in cls.body if isinstance(n, ast.FunctionDef)}
    MembraneTx(tree).window_container()     # an empty list / unbounded deque (appending never evicts), else fail closed

    def touches(fn, seen=()):
        if fn.name in seen:
            return False
        for n in ast.walk(fn):
            if is_self(n, "_request_times"):
                return True
            if isinstance(n, ast.Call) and is_self(n.func) and n.func.attr in methods \
                    and touches(methods[n.func.attr], seen + (fn.name,)):
                return True
        return False

    def reads_shared(node):
        for n in ast.walk(node):
            if is_self(n, "_request_times"):
                return True
            if isinstance(n, ast.Call) and is_self(n.func) and n.func.attr in methods and touches(methods[n.func.attr]):
                return True
        return False

    entry = None
    for n in ast.walk(methods.get("filter") or bad(cls, "no filter method")):
        if isinstance(n, ast.Call) and is_self(n.func) and n.func.attr in methods and touches(methods[n.func.attr]):
            entry = methods[n.func.attr]
            break
    if entry is None:
        bad(cls, "filter calls no method that touches _request_times")

    prog = []
    tx = MembraneTx(tree)
    limit_names = set()                   # locals holding a copy of self.rate_limit

    def is_limit(n):
        return is_self(n, "rate_limit") or (isinstance(n, ast.Name) and n.id in limit_names)

    def mentions_limit(node):
        return any(is_limit(n) for n in ast.walk(node))

    def walk(stmts, locked, depth, top):
        """returns True when every path through `stmts` ends in a return"""
        for k, st in enumerate(stmts):
            if tx.is_noop(st):
                continue
            if isinstance(st, ast.With):
                items = st.items
                if len(items) != 1 or not is_self(items[0].context_expr) or items[0].optional_vars is not None:
                    bad(st, "with-statement other than `with self.<lock>:`")
                if locked:
                    bad(st, "nested lock")
                prog.append("acquire")
                done = walk(st.body, True, depth, False)
                if not done:
                    bad(st, "control leaves the `with` block without returning")
                if [x for x in stmts[k + 1:] if not tx.is_noop(x)]:
                    bad(st, "statements after the `with` block")
                return True
            if isinstance(st, ast.If):
                test, body, orelse = st.test, st.body, st.orelse
                is_none = isinstance(test, ast.Compare) and len(test.ops) == 1 and isinstance(test.ops[0], ast.Is) \
                    and is_limit(test.left) and isinstance(test.comparators[0], ast.Constant) \
                    and test.comparators[0].value is None
                real = [x for x in body if not tx.is_noop(x)]
                ret = real[0] if len(real) == 1 and isinstance(real[0], ast.Return) else None
                if is_none and ret is not None and not orelse and isinstance(ret.value, ast.Constant) \
                        and ret.value.value is False:
                    prog.append("guardNone")
                    continue
                if reads_shared(test) and mentions_limit(test) and ret is not None and not orelse \
                        and isinstance(ret.value, ast.Constant) and ret.value.value is True:
                    if any(isinstance(n, ast.Call) and is_self(n.func) for n in ast.walk(test)):
                        bad(st, "window test through a helper")
                    prog.append("testShared")
                    continue
                # the same test written admitted-path-first: `if <window has room>: record; return False` / `return True`
                rest = [x for x in stmts[k + 1:] if not tx.is_noop(x)]
                if reads_shared(test) and mentions_limit(test) and not orelse and len(rest) == 1 \
                        and isinstance(rest[0], ast.Return) and isinstance(rest[0].value, ast.Constant) \
                        and rest[0].value.value is True \
                        and not any(isinstance(n, ast.Call) and is_self(n.func) for n in ast.walk(test)):
                    prog.append("testShared")
                    if not walk(body, locked, depth, False):
                        bad(st, "the admitted path does not return")
                    return True
                bad(st, f"if-statement {ast.unparse(test)[:40]}")
            if isinstance(st, ast.Return):
                if isinstance(st.value, ast.Constant) and st.value.value is False:
                    prog.append("retFalse")
                    return True
                if isinstance(st.value, ast.Call) and is_self(st.value.func) and st.value.func.attr in methods \
                        and not st.value.keywords and depth < 4:
                    return walk(methods[st.value.func.attr].body, locked, depth + 1, False)
                bad(st, f"return {ast.unparse(st.value)[:30] if st.value is not None else ''}")
            if isinstance(st, ast.AnnAssign) and st.value is not None:
                st = ast.copy_location(ast.Assign(targets=[st.target], value=st.value), st)
            if isinstance(st, ast.Assign) and len(st.targets) == 1:
                tg, v = st.targets[0], st.value
                if is_self(tg, "_request_times"):
                    if not reads_shared(v):
                        bad(st, "_request_times replaced by something not derived from it")
                    prog.append("pruneShared")
                    continue
                if is_self(tg):
                    bad(st, f"assignment to self.{tg.attr}")
                if ast.unparse(v).replace(" ", "") == "time.time()":
                    prog.append("readClock")
                    continue
                if reads_shared(v):
                    bad(st, "the shared window is read into a local (snapshot)")
                if isinstance(tg, ast.Name) and is_limit(v):
                    limit_names.add(tg.id)
                continue                      # pure local
            if isinstance(st, ast.Expr) and isinstance(st.value, ast.Call):
                c = st.value
                if isinstance(c.func, ast.Attribute) and is_self(c.func.value, "_request_times"):
                    if c.func.attr == "append" and len(c.args) == 1:
                        prog.append("appendShared")
                        continue
                    bad(st, f"_request_times.{c.func.attr}")
                if is_self(c.func) and c.func.attr in methods and not c.keywords and depth < 4:
                    if walk(methods[c.func.attr].body, locked, depth + 1, False):
                        bad(st, "helper that returns a value used as a statement")
                    continue
                if reads_shared(c):
                    bad(st, f"call {ast.unparse(c.func)[:40]} on the shared window")
                bad(st, f"call {ast.unparse(c.func)[:40]}")
            bad(st, f"statement {type(st).__name__}")
        return False

    if not walk(entry.body, False, 0, True):
        bad(entry, "a path through the rate check does not return")
    return prog


SIGS = {
    "checkRateLimit": "def Tr.checkRateLimit (m : Membrane) (now : Nat) : Bool × List Nat :=",
    "filter": "def Tr.filter (env : Env) (m : Membrane) (now : Nat) (c : Str) : Membrane × FilterOut :=",
    "innate": None,
    "lengthValidate": "def Tr.lengthValidate (mn mx : Nat) (content : Str) : Out Bool :=",
    "charsetValidate": "def Tr.charsetValidate (allowCtl allowNull : Bool) (content : Str) : Out Bool :=",
    "jsonValidate": "def Tr.jsonValidate (env : Env) (md ms : Nat) (content : Str) : Out Bool :=",
    "memMatches": "def Tr.memMatches (env : Env) (s : Sig) (content : Str) : Bool :=",
    "innMatches": "def Tr.innMatches (env : Env) (s : Sig) (content : Str) : Bool :=",
}
INNATE_FALLBACK = [
    "def Tr.innateAllow (maxSev thr nErr lvl : Nat) : Bool :=",
    "def Tr.newLevel (sumSev nPat nErr maxSev : Nat) (cooling : Bool) : Nat :=",
]


def module_consts(tree, module=None):
    """module-level constants resolved to values: through the imported module when available (covers tables and
    computed constants), else literal `NAME = <int|str>` assignments of the AST"""
    out = {}
    if tree is not None:
        for n in tree.body:
            tgt = n.targets[0] if isinstance(n, ast.Assign) and len(n.targets) == 1 else \
                n.target if isinstance(n, ast.AnnAssign) and n.value is not None else None
            if isinstance(tgt, ast.Name) and isinstance(n.value, ast.Constant) \
                    and isinstance(n.value.value, (int, str)) and not isinstance(n.value.value, bool):
                out[tgt.id] = n.value.value
    if module is not None:
        for k, v in vars(module).items():
            if isinstance(v, (int, str)) and not isinstance(v, bool) and not k.startswith("__"):
                out[k] = v
    return out


_CONST_NAME = __import__("re").compile(r"^_*[A-Z][A-Z0-9_]*$")


def resolve_constants(tree, module=None):
    """Replace every use of a NAMED CONSTANT by its value, in place, before anything is translated:
      * module level `NAME = <expr>` and class level `NAME = <expr>` (un-annotated, or annotated ClassVar / Final),
        `NAME` spelled like a constant (`_RATE_WINDOW_SECONDS`, `MAX_X`), bound exactly once there and never re-bound
        anywhere in the file (no `global NAME`, no `self.NAME = …` / `Cls.NAME = …` / `cls.NAME += …`, no `del`);
      * whose VALUE - read from the imported module / class when the harness passes it (so a computed constant such as
        `re.IGNORECASE` or `6 * 10` is covered), else a literal - is an int, a bool or a str;
      * uses: the bare name for a module constant; `self.NAME`, `<Class>.NAME`, `cls.NAME`, `type(self).NAME`,
        `self.__class__.NAME` inside the class for a class constant.  Enum classes and dataclass fields are not
        constants.  A changed VALUE changes the translation (and the agreement theorem then fails); anything that is not
        provably a constant is left alone and the pieces that use it stay outside the subset (fail closed)."""
    if tree is None:
        return tree
    import enum as _enum

    def value_of(owner, name, node):
        if owner is not None and name in vars(owner):
            v = vars(owner)[name]
        elif owner is None and isinstance(node, ast.Constant):
            v = node.value
        else:
            return None
        if isinstance(v, bool) or isinstance(v, str):
            return v
        if isinstance(v, int):
            return int(v)
        return None

    def bindings(body):
        out = {}
        for n in body:
            if isinstance(n, ast.Assign) and len(n.targets) == 1 and isinstance(n.targets[0], ast.Name):
                out.setdefault(n.targets[0].id, []).append(n.value)
            elif isinstance(n, ast.AnnAssign) and isinstance(n.target, ast.Name) and n.value is not None:
                ann = ast.unparse(n.annotation)
                out.setdefault(n.target.id, []).append(n.value if ("ClassVar" in ann or "Final" in ann) else None)
            elif isinstance(n, (ast.AugAssign,)) and isinstance(n.target, ast.Name):
                out.setdefault(n.target.id, []).extend([None, None])
        return out
    # names re-bound somewhere (attribute stores, globals, deletes, stores to the bare name inside functions)
    rebound = set()
    for n in ast.walk(tree):
        if isinstance(n, ast.Attribute) and isinstance(n.ctx, (ast.Store, ast.Del)):
            rebound.add(n.attr)
        elif isinstance(n, ast.Global):
            rebound.update(n.names)
        elif isinstance(n, (ast.FunctionDef, ast.AsyncFunctionDef, ast.Lambda)):
            for m in ast.walk(n):
                if isinstance(m, ast.Name) and isinstance(m.ctx, (ast.Store, ast.Del)):
                    rebound.add(m.id)
                elif isinstance(m, ast.arg):
                    rebound.add(m.arg)
        elif isinstance(n, ast.Call) and ast.unparse(n.func) in ("setattr", "delattr") and len(n.args) >= 2 \
                and isinstance(n.args[1], ast.Constant):
            rebound.add(n.args[1].value)
    mconst = {}
    for name, vals in bindings(tree.body).items():
        if _CONST_NAME.match(name) and len(vals) == 1 and vals[0] is not None and name not in rebound:
            v = value_of(module, name, vals[0]) if module is not None else value_of(None, name, vals[0])
            if v is not None:
                mconst[name] = v
    cconst = {}
    for c in tree.body:
        if not isinstance(c, ast.ClassDef):
            continue
        cobj = getattr(module, c.name, None) if module is not None else None
        if module is not None and not isinstance(cobj, type):
            continue
        if cobj is not None and issubclass(cobj, _enum.Enum):
            continue
        if any("Enum" in ast.unparse(b) for b in c.bases):
            continue
        for name, vals in bindings(c.body).items():
            if _CONST_NAME.match(name) and len(vals) == 1 and vals[0] is not None and name not in rebound:
                v = value_of(cobj, name, vals[0]) if cobj is not None else value_of(None, name, vals[0])
                if v is not None:
                    cconst[(c.name, name)] = v

    class R(ast.NodeTransformer):
        def __init__(self):
            self.cls = None

        def visit_ClassDef(self, node):
            prev, self.cls = self.cls, node.name
            # the binding statements themselves stay as they are
            node.body = [st if (isinstance(st, (ast.Assign, ast.AnnAssign))) else self.visit(st) for st in node.body]
            self.cls = prev
            return node

        def visit_Name(self, node):
            if isinstance(node.ctx, ast.Load) and node.id in mconst:
                return ast.copy_location(ast.Constant(value=mconst[node.id]), node)
            return node

        def visit_Attribute(self, node):
            self.generic_visit(node)
            if not isinstance(node.ctx, ast.Load):
                return node
            base = ast.unparse(node.value)
            owner = self.cls if base in ("self", "cls", "type(self)", "self.__class__") else base
            if owner is not None and (owner, node.attr) in cconst:
                return ast.copy_location(ast.Constant(value=cconst[(owner, node.attr)]), node)
            return node
    r = R()
    tree.body = [st if (isinstance(st, (ast.Assign, ast.AnnAssign)) and not isinstance(st, ast.ClassDef)) else r.visit(st)
                 for st in tree.body]
    ast.fix_missing_locations(tree)
    return tree


def generate(repo: Path, membrane_mod=None, innate_mod=None):
    info = {"unsupported": {}}
    parts = []
    try:
        mtree = ast.parse((repo / MB).read_text())
    except Exception as e:  # noqa
        mtree = None
        info["unsupported"]["membrane.py"] = f"does not parse: {e}"
    try:
        itree = ast.parse((repo / IN).read_text())
    except Exception as e:  # noqa
        itree = None
        info["unsupported"]["innate.py"] = f"does not parse: {e}"

    try:
        resolve_constants(mtree, membrane_mod)
        resolve_constants(itree, innate_mod)
    except Exception as e:  # noqa  (the pieces that use an unresolved constant then leave the subset)
        info["unsupported"]["constants"] = f"constant resolution failed: {e!r}"
    consts = {"m": module_consts(mtree, membrane_mod), "i": module_consts(itree, innate_mod)}

    def attempt(key, fn, doc):
        MODULE_CONSTS.clear()
        MODULE_CONSTS.update(consts["m" if key in ("checkRateLimit", "filter") else "i"])
        try:
            if (mtree if key in ("checkRateLimit", "filter") else itree) is None:
                raise Unsupported("source does not parse")
            r = fn()
            parts.append((f"/-- {doc} -/\n" if not r.startswith("/--") else "") + r)
        except Unsupported as e:
            info["unsupported"][key] = str(e)
            why = str(e).replace('"', "'")
            parts.append(f"/-- {doc}: NOT TRANSLATED -/\n{SIGS[key]}\n  untranslatable \"{why}\"\n")
        except Exception as e:  # any translator crash is also fail-closed
            info["unsupported"][key] = f"translator error: {e!r}"
            parts.append(f"{SIGS[key]}\n  untranslatable \"translator error\"\n")

    memo = {}

    def mem(key):
        if "out" not in memo:
            try:
                memo["out"] = tr_membrane(mtree)
            except Unsupported as e:
                memo["out"] = e
        if isinstance(memo["out"], Exception):
            raise memo["out"]
        return memo["out"][key]
    # the two membrane pieces are translated independently so that only the affected agreement theorem fails
    def mem_piece(key):
        tx_out = None
        try:
            tx_out = tr_membrane_piece(mtree, key)
        except Unsupported:
            raise
        return tx_out
    attempt("checkRateLimit", lambda: mem_piece("checkRateLimit"), "translation of `Membrane._check_rate_limit`")
    attempt("filter", lambda: mem_piece("filter"),
            "translation of `Membrane.filter` with every helper it calls inlined (rate check, refusals, scan, bookkeeping, hook)")
    try:
        if mtree is None:
            raise Unsupported("source does not parse")
        prog = rate_program(mtree)
        parts.append("/-- the rate check of the current source as a program over the shared window: which statements read or\n"
                     "    write `_request_times`, in source order, and where `with self.<lock>:` is entered -/\n"
                     "def Tr.rateProgram : Option (List RInstr) :=\n  some [" + ", ".join("." + x for x in prog) + "]\n")
    except Exception as e:  # noqa  (fail closed)
        info["unsupported"]["rateProgram"] = str(e)
        why = str(e).replace("-/", "- /")
        parts.append(f"/-- the rate check as a program over the shared window: NOT TRANSLATED ({why}) -/\n"
                     "def Tr.rateProgram : Option (List RInstr) := none\n")
    try:
        if itree is None:
            raise Unsupported("source does not parse")
        MODULE_CONSTS.clear()
        MODULE_CONSTS.update(consts["i"])
        parts.extend(tr_innate(itree))
    except Exception as e:  # noqa
        info["unsupported"]["innate"] = str(e)
        why = str(e).replace('"', "'")
        for sig in INNATE_FALLBACK:
            parts.append(f"{sig}\n  untranslatable \"{why}\"\n")
    try:
        if itree is None:
            raise Unsupported("source does not parse")
        MODULE_CONSTS.clear()
        MODULE_CONSTS.update(consts["i"])
        parts.append(tr_measure_depth(itree))
    except Exception as e:  # noqa  (fail closed)
        info["unsupported"]["measureDepth"] = str(e)
        why = str(e).replace('"', "'")
        parts.append("/-- translation of `JSONValidator._measure_depth`: NOT TRANSLATED -/\n"
                     f"def Tr.measure (md : Nat) (t : J) (cur : Nat) : Nat :=\n  untranslatable \"{why}\"\n"
                     f"def Tr.measureMax (md : Nat) (ts : List J) (cur : Nat) : Nat :=\n  untranslatable \"{why}\"\n")
    attempt("lengthValidate", lambda: tr_validator(itree, "LengthValidator", "lengthValidate", "(mn mx : Nat)",
                                                   {"content": ("content", "str"), "self.min_length": ("mn", "nat"),
                                                    "self.max_length": ("mx", "nat")}), "")
    attempt("charsetValidate", lambda: tr_validator(itree, "CharacterSetValidator", "charsetValidate",
                                                    "(allowCtl allowNull : Bool)",
                                                    {"content": ("content", "str"),
                                                     "self.allow_null": ("allowNull", "bool"),
                                                     "self.allow_control_chars": ("allowCtl", "bool")}), "")
    attempt("jsonValidate", lambda: tr_validator(itree, "JSONValidator", "jsonValidate", "(env : Env) (md ms : Nat)",
                                                 {"content": ("content", "str"), "self.max_depth": ("md", "nat"),
                                                  "self.max_size": ("ms", "nat")}), "")
    for key, tr_, cls_ in (("memMatches", mtree, "ThreatSignature"), ("innMatches", itree, "TLRPattern")):
        MODULE_CONSTS.clear()
        try:
            if tr_ is None:
                raise Unsupported("source does not parse")
            parts.append(tr_matches(tr_, cls_, key))
        except Exception as e:  # noqa  (fail closed)
            info["unsupported"][key] = str(e)
            why = str(e).replace('"', "'")
            parts.append(f"/-- translation of `{cls_}.matches`: NOT TRANSLATED -/\n{SIGS[key]}\n  untranslatable \"{why}\"\n")
    text = ("import Operon.Model.Membrane\nimport Operon.Model.Innate\nimport Operon.Model.RateConc\n"
            "/- GENERATED by harness/vf/extract/py2lean_gates.py from operon_ai/organelles/membrane.py and\n"
            "   operon_ai/surveillance/innate.py on every run of ./check C10; do not edit.  Each definition is the\n"
            "   translation of the named piece of Python (see the translator for the supported subset).\n"
            "   `untranslatable \"...\"` marks a piece that left the subset: its agreement theorem\n"
            "   c10_translation_agrees_* then fails. -/\n"
            "namespace Operon.Gates\nset_option linter.unusedVariables false\n\n"
            + "\n".join(parts) + "\nend Operon.Gates\n")
    return text, info


def run(repo: Path, lean: Path, write_if_changed, membrane_mod=None, innate_mod=None):
    text, info = generate(repo, membrane_mod, innate_mod)
    changed = write_if_changed(lean / "Operon" / "Gen" / "GatesTranslated.lean", text)
    return [{"id": "py2lean-gates", "facts_changed": bool(changed), "untranslatable": info["unsupported"]}]
