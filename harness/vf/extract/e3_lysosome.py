"""E3 (lysosome part): lock shape of every method of `Lysosome`, regenerated from the source on every run.

Emits lean/Operon/Gen/LysosomeLocks.lean:
  lockKind        Lock / RLock / unknown            (what `self._lock` is bound to in __init__)
  methods         name, public?, instruction list   (acq / rel for `with self._lock`, `call j` for a direct
                                                     self-method call, `cb` for an indirect / foreign callback call),
                                                     callees before callers so `call j` always points backwards
  tableMethods    self-methods that are *referenced* without being called (stored in the digester table):
                  these are what a `cb` may run besides foreign code; plus, when the caller evaluated the class, the
                  methods a fresh object really stores in `_digesters` (a table built from names is seen too)
  unlockedWrites  per public method: shared fields written while the lock is not held (transitively)
  lockedWrites    per public method: shared fields written while the lock is held (transitively)
  recognised      false when the extractor met a shape it does not understand (explicit acquire()/release(),
                  recursion among self-methods, a lock that is not created in __init__, ...): every dependent
                  theorem then fails to elaborate.

Only python's `ast` is used; the module under test is not imported.
"""
from __future__ import annotations

import ast
import builtins
from pathlib import Path

CONTAINER_METHODS = {"append", "update", "get", "clear", "items", "keys", "values", "pop", "extend", "copy",
                     "setdefault", "insert", "remove"}
MUTATORS = {"append", "update", "clear", "pop", "extend", "setdefault", "insert", "remove"}
LOCK_ATTR = "_lock"


class Unrecognised(Exception):
    pass


def _is_self_attr(n, attr=None):
    return (isinstance(n, ast.Attribute) and isinstance(n.value, ast.Name) and n.value.id == "self"
            and (attr is None or n.attr == attr))


def analyse(src: str, clsname: str = "Lysosome") -> dict:
    tree = ast.parse(src)
    classes = [n for n in tree.body if isinstance(n, ast.ClassDef) and n.name == clsname]
    if len(classes) != 1:
        raise Unrecognised(f"class {clsname} not found exactly once")
    cls = classes[0]
    fns = {n.name: n for n in cls.body if isinstance(n, (ast.FunctionDef, ast.AsyncFunctionDef))}
    if any(isinstance(n, ast.AsyncFunctionDef) for n in fns.values()):
        raise Unrecognised("async method")
    if "__init__" not in fns:
        raise Unrecognised("no __init__")
    module_names = set(dir(builtins))
    for n in tree.body:
        if isinstance(n, (ast.Import, ast.ImportFrom)):
            for a in n.names:
                module_names.add((a.asname or a.name).split(".")[0])
        elif isinstance(n, (ast.ClassDef, ast.FunctionDef)):
            module_names.add(n.name)
        elif isinstance(n, ast.Assign):
            for t in n.targets:
                if isinstance(t, ast.Name):
                    module_names.add(t.id)

    # --- lock kind ---------------------------------------------------------------------------------------
    kind = "unknown"
    lock_assigns = 0
    for name, f in fns.items():
        for n in ast.walk(f):
            targets = []
            if isinstance(n, ast.Assign):
                targets = n.targets
            elif isinstance(n, (ast.AnnAssign, ast.AugAssign)):
                targets = [n.target]
            for t in targets:
                if _is_self_attr(t, LOCK_ATTR):
                    lock_assigns += 1
                    if name != "__init__":
                        raise Unrecognised("lock re-bound outside __init__")
                    v = getattr(n, "value", None)
                    if isinstance(v, ast.Call) and not v.args and not v.keywords:
                        fn = ast.unparse(v.func)
                        if fn in ("threading.Lock", "Lock"):
                            kind = "lock"
                        elif fn in ("threading.RLock", "RLock"):
                            kind = "rlock"
    if lock_assigns != 1:
        kind = "unknown"

    # --- per-method instruction list -----------------------------------------------------------------------
    referenced: set[str] = set()     # self-methods referenced but not called (stored as callbacks)

    def is_lock_with(w: ast.With) -> bool:
        hits = [i for i in w.items if _is_self_attr(i.context_expr, LOCK_ATTR)]
        if hits and len(w.items) != 1:
            raise Unrecognised("with self._lock combined with other context managers")
        return bool(hits)

    class V(ast.NodeVisitor):
        def __init__(self):
            self.ins = []          # ("acq",) ("rel",) ("call", name) ("cb",) ("w", field)
            self.locals = set()

        def visit_With(self, node):
            if is_lock_with(node):
                self.ins.append(("acq",))
                for st in node.body:
                    self.visit(st)
                self.ins.append(("rel",))
            else:
                self.generic_visit(node)

        def visit_Return(self, node):
            self.generic_visit(node)
            self.ins.append(("ret",))

        def visit_Call(self, node):
            # arguments first (evaluation order), then the call itself
            for a in node.args:
                self.visit(a)
            for k in node.keywords:
                self.visit(k.value)
            f = node.func
            if _is_self_attr(f):
                if f.attr == LOCK_ATTR:
                    raise Unrecognised("self._lock called")
                if f.attr in fns:
                    self.ins.append(("call", f.attr))
                else:
                    self.ins.append(("cb",))          # callback stored in an attribute (on_toxic)
                return
            if isinstance(f, ast.Attribute):
                root = f
                while isinstance(root, (ast.Attribute, ast.Subscript, ast.Call)):
                    root = root.func if isinstance(root, ast.Call) else root.value
                if _is_self_attr(f.value, LOCK_ATTR) or (isinstance(f.value, ast.Attribute) and f.value.attr == LOCK_ATTR):
                    raise Unrecognised("explicit acquire()/release() on the lock")
                # mutation of a shared field through a container method
                if _is_self_attr(f.value) and f.attr in MUTATORS:
                    self.ins.append(("w", f.value.attr))
                self.visit(f.value)
                if isinstance(root, ast.Name) and root.id == "self":
                    if f.attr not in CONTAINER_METHODS:
                        self.ins.append(("cb",))
                elif isinstance(root, ast.Name) and root.id in module_names and root.id not in self.locals:
                    pass                                # library / module-level call
                elif f.attr in CONTAINER_METHODS:
                    pass
                else:
                    self.ins.append(("cb",))          # method of user data (content.cleanup())
                return
            if isinstance(f, ast.Name):
                if f.id in self.locals or f.id not in module_names:
                    self.ins.append(("cb",))          # a callable held in a local (digester(waste))
                return
            self.visit(f)
            self.ins.append(("cb",))

        def visit_Attribute(self, node):
            if _is_self_attr(node):
                if node.attr == LOCK_ATTR:
                    if isinstance(node.ctx, ast.Store):
                        return                          # the binding in __init__ (checked by the lock-kind pass)
                    raise Unrecognised("self._lock used outside a with statement")
                if node.attr in fns and isinstance(node.ctx, ast.Load):
                    referenced.add(node.attr)
                if isinstance(node.ctx, (ast.Store, ast.Del)):
                    self.ins.append(("w", node.attr))
            self.generic_visit(node)

        def visit_Subscript(self, node):
            if isinstance(node.ctx, (ast.Store, ast.Del)) and _is_self_attr(node.value):
                self.ins.append(("w", node.value.attr))
            self.generic_visit(node)

        def visit_AugAssign(self, node):
            self.visit(node.value)
            t = node.target
            if _is_self_attr(t):
                self.ins.append(("w", t.attr))
            elif isinstance(t, ast.Subscript) and _is_self_attr(t.value):
                self.ins.append(("w", t.value.attr))
                self.visit(t.slice)
            else:
                self.visit(t)

        def visit_FunctionDef(self, node):
            raise Unrecognised("nested function")

        def visit_Lambda(self, node):
            # treated as if its body ran where it is written (over-approximation: a key function, a default, ...)
            self.visit(node.body)

        def visit_Yield(self, node):
            raise Unrecognised("generator method")

    raw = {}
    for name, f in fns.items():
        v = V()
        v.locals = {a.arg for a in f.args.args + f.args.kwonlyargs} | {
            n.id for n in ast.walk(f) if isinstance(n, ast.Name) and isinstance(n.ctx, ast.Store)}
        # a `return` inside a `with self._lock` leaves through the context manager: fine, but a return in the
        # middle of a region makes the flat instruction list wrong only by skipping instructions, which the
        # path semantics already allows (calls are skippable); acq/rel stay paired.
        for st in f.body:
            v.visit(st)
        raw[name] = v.ins

    # --- order: callees first; recursion is not recognised -----------------------------------------------------
    order: list[str] = []
    state: dict[str, int] = {}

    def dfs(n):
        if state.get(n) == 1:
            raise Unrecognised(f"recursion through {n}")
        if state.get(n) == 2:
            return
        state[n] = 1
        for i in raw[n]:
            if i[0] == "call":
                dfs(i[1])
        state[n] = 2
        order.append(n)
    for n in sorted(fns):
        dfs(n)
    index = {n: i for i, n in enumerate(order)}

    # --- transitive writes with the lock held / not held ---------------------------------------------------------
    def writes(name, held: int, seen=()):
        lockd, unlockd = set(), set()
        depth = held
        for i in raw[name]:
            if i[0] == "acq":
                depth += 1
            elif i[0] == "rel":
                depth -= 1
            elif i[0] == "w":
                (lockd if depth > 0 else unlockd).add(i[1])
            elif i[0] == "call":
                a, b = writes(i[1], depth)
                lockd |= a
                unlockd |= b
        return lockd, unlockd

    def is_public(n):       # dunder methods (repr, len, ...) are entry points too; __init__ runs before sharing
        return not n.startswith("_") or (n.startswith("__") and n.endswith("__") and n != "__init__")
    public = [n for n in order if is_public(n)]
    lw, uw = {}, {}
    for n in public:
        a, b = writes(n, 0)
        lw[n], uw[n] = sorted(a), sorted(b)

    methods = []
    for n in order:
        ins = []
        for i in raw[n]:
            if i[0] in ("acq", "rel", "cb"):
                ins.append(i[0])
            elif i[0] == "call":
                ins.append(f"call {index[i[1]]}")
        methods.append((n, is_public(n), ins))
    return {"kind": kind, "methods": methods, "table": sorted(index[n] for n in referenced),
            "locked_writes": lw, "unlocked_writes": uw, "recognised": True}


def _lean_str_list(xs):
    return "[" + ", ".join('"%s"' % x for x in xs) + "]"


def render(facts: dict) -> str:
    kind = {"lock": ".lock", "rlock": ".rlock"}.get(facts["kind"], ".unknown")
    out = ["import Operon.Model.Lysosome",
           "/-! GENERATED by harness/vf/extract/e3_lysosome.py from operon_ai/organelles/lysosome.py — do not edit. -/",
           "namespace Operon.Gen.LysosomeLocks",
           "open Operon.Lysosome",
           "",
           f"def recognised : Bool := {'true' if facts['recognised'] else 'false'}",
           f"def lockKind : LockKind := {kind}",
           "",
           "/-- (name, public, body); `call j` refers to the j-th entry, always an earlier one -/",
           "def methods : List (String × Bool × List Instr) := ["]
    rows = []
    for i, (n, pub, ins) in enumerate(facts["methods"]):
        body = ", ".join("." + x.replace("call ", "call ") for x in ins)
        rows.append(f'  /- {i:2d} -/ ("{n}", {"true" if pub else "false"}, [{body}])')
    out.append(",\n".join(rows) + "]")
    out.append("")
    out.append("/-- self-methods stored as callbacks (the built-in digester table): what a `cb` may run -/")
    out.append("def tableMethods : List Nat := [" + ", ".join(str(i) for i in facts["table"]) + "]")
    out.append("")
    for nm, key in (("lockedWrites", "locked_writes"), ("unlockedWrites", "unlocked_writes")):
        out.append(f"def {nm} : List (String × List String) := [")
        out.append(",\n".join(f'  ("{n}", {_lean_str_list(ws)})' for n, ws in sorted(facts[key].items())) + "]")
        out.append("")
    out.append("end Operon.Gen.LysosomeLocks")
    return "\n".join(out) + "\n"


def extract(repo: Path, table_by_value=None) -> tuple[str, dict]:
    """`table_by_value`: names of the methods a freshly constructed object really stores in its digester table (the
    caller evaluates the class); they join the methods the source references without calling them, so a table built
    from names (`getattr(self, name)`) is seen as well as one written out.  An entry that is not a method of the class
    makes the result unrecognised."""
    p = repo / "operon_ai" / "organelles" / "lysosome.py"
    try:
        facts = analyse(p.read_text())
        if table_by_value is not None:
            index = {n: i for i, (n, _pub, _ins) in enumerate(facts["methods"])}
            for n in table_by_value:
                if n not in index:
                    raise Unrecognised(f"the digester table holds {n}, which is not a method of the class")
            facts["table"] = sorted(set(facts["table"]) | {index[n] for n in table_by_value})
    except (Unrecognised, SyntaxError, OSError) as e:
        facts = {"kind": "unknown", "methods": [], "table": [], "locked_writes": {}, "unlocked_writes": {},
                 "recognised": False, "why": str(e)}
    return render(facts), facts


if __name__ == "__main__":
    import sys
    text, facts = extract(Path(sys.argv[1] if len(sys.argv) > 1 else "/repo"))
    print(text)
