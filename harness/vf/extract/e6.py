"""E6 — the flow predicate and the coercion guards of the typed-wiring code, by EVALUATION.

The domain (data types x integrity labels) is finite, so nothing is parsed: the real functions
`PortType.can_flow_to`, `PortType.require_flow_to`, `WiringDiagram.connect`, `_coerce_output`, `_coerce_input` and
the executor's per-wire runtime check (`enforce_static_checks`) are run on the COMPLETE table and the outcomes are
written to `lean/Operon/Gen/WiringFlow.lean`.  `Operon/Props/C16.lean` proves (by `decide` over the complete
table) that every entry equals what the hand-written model `Operon.Wiring` computes; the model's theorems are
stated for all naturals, so they cover whatever the enums contain now.

Fail closed: an outcome that is neither "accepted as expected shape" nor "WiringError" (another exception, a
wrong return value, a mutated argument, a missing function) is emitted as `none`, which no model value equals, so
the table theorems stop checking.  Integrity labels are represented by their rank in the enum's own value order;
data types by their position in the enum.
"""
from __future__ import annotations

from pathlib import Path

from ..core import LEAN, write_if_changed

OUT = LEAN / "Operon" / "Gen" / "WiringFlow.lean"

# kinds of callable a handler may be; the last five have a truth value of their own, and it is False
HANDLER_KINDS = ["func", "lambda", "method", "partial", "obj", "boolfalse", "len0", "collector", "listsub", "dictsub"]


def _out(x, lab=None):
    """Outcome: None -> unknown; False -> rejected (WiringError); True -> accepted carrying label `lab`;
    a pair -> accepted carrying that label."""
    if x is None:
        return ".unknown"
    if x is False:
        return ".rejected"
    if x is True:
        return f".accepted {lab[0]} {lab[1]}"
    return f".accepted {x[0]} {x[1]}"


def evaluate():
    """Returns (facts dict, notes).  Never raises."""
    notes = []
    try:
        from operon_ai.core import types as T
        from operon_ai.core import wagent as W
        from operon_ai.core import wiring_runtime as R
        DTs = list(T.DataType)
        ILs = sorted(T.IntegrityLabel, key=lambda x: x.value)
        WiringError = W.WiringError
    except Exception as e:  # the modules do not even load
        return None, [f"import failed: {e!r}"]
    nD, nI = len(DTs), len(ILs)
    di = {d: i for i, d in enumerate(DTs)}
    ii = {l: i for i, l in enumerate(ILs)}
    quads = [(a, b, c, d) for a in range(nD) for b in range(nI) for c in range(nD) for d in range(nI)]

    def guard(fn):
        try:
            return fn()
        except WiringError:
            return False
        except BaseException as e:  # noqa
            notes.append(repr(e)[:80])
            return None

    can, req, con, cout, cin, wchk, wunchk, wext = [], [], [], [], [], [], [], []
    for (a, b, c, d) in quads:
        s, t = W.PortType(DTs[a], ILs[b]), W.PortType(DTs[c], ILs[d])
        # can_flow_to
        r = guard(lambda: s.can_flow_to(t))
        can.append(r if isinstance(r, bool) else None)
        # require_flow_to: returns None or raises WiringError
        r = guard(lambda: s.require_flow_to(t) is None)
        req.append(r)

        # connect on a two-module diagram
        def do_connect():
            dg = W.WiringDiagram()
            dg.add_module(W.ModuleSpec("a", outputs={"o": s}))
            dg.add_module(W.ModuleSpec("b", inputs={"i": t}))
            try:
                dg.connect("a", "o", "b", "i")
            except WiringError:
                return False if dg.wires == [] else None
            return True if dg.wires == [W.Wire("a", "o", "b", "i")] else None
        con.append(guard(do_connect))

        # _coerce_output / _coerce_input on an explicitly labelled value (label (a,b)) for port (c,d)
        def co(fn):
            v = R.TypedValue(DTs[a], ILs[b], 41)
            out = fn(v, t)
            if out is v and (out.data_type, out.integrity, out.value) == (DTs[a], ILs[b], 41):
                return (a, b)
            return None
        cout.append(guard(lambda: co(R._coerce_output)))
        cin.append(guard(lambda: co(R._coerce_input)))

        # the executor's per-wire check: a wire appended behind connect's back, source emits a raw value
        def wire(enforce):
            dg = W.WiringDiagram()
            dg.add_module(W.ModuleSpec("a", outputs={"o": s}))
            dg.add_module(W.ModuleSpec("b", inputs={"i": t}))
            dg.wires.append(W.Wire("a", "o", "b", "i"))
            ex = R.DiagramExecutor(dg)
            ex.register_module("a", lambda inputs: {"o": 7})
            rep = ex.execute(None, enforce_static_checks=enforce)
            tv = rep.modules["b"].inputs["i"]
            if (tv.data_type, tv.integrity, tv.value) == (DTs[a], ILs[b], 7) and rep.execution_order == ["a", "b"]:
                return True
            return None
        wchk.append(guard(lambda: wire(True)))
        wunchk.append(guard(lambda: wire(False)))

        # an input port with a wire AND an external value (two sources); the destination module is declared first, so
        # it is the first one a scheduler looks at.  rejected = WiringError before ANY handler was invoked; a
        # WiringError after an invocation is `unknown` (fail closed)
        def wire_and_external():
            dg = W.WiringDiagram()
            dg.add_module(W.ModuleSpec("b", inputs={"i": t}))
            dg.add_module(W.ModuleSpec("a", outputs={"o": s}))
            dg.wires.append(W.Wire("a", "o", "b", "i"))
            ex = R.DiagramExecutor(dg)
            seen = []
            ex.register_module("a", lambda inputs: (seen.append("a"), {"o": 7})[1])
            ex.register_module("b", lambda inputs: (seen.append("b"), {})[1])
            try:
                ex.execute({"b": {"i": 9}}, enforce_static_checks=True)
            except WiringError:
                return False if not seen else None
            return None
        wext.append(guard(wire_and_external))

    # the scheduler: three modules (one input port, one output port each) declared in every order, each input port fed
    # by one of the three modules or externally: what the real execute() does (execution order, or the invocation log
    # of a raising run)
    import itertools
    sched = []
    if nD >= 1 and nI >= 1:
        P = W.PortType(DTs[0], ILs[0])
        for perm in itertools.permutations(range(3)):
            for src in itertools.product([None, 0, 1, 2], repeat=3):
                def run_one():
                    dg = W.WiringDiagram()
                    for m in perm:
                        dg.add_module(W.ModuleSpec(f"m{m}", inputs={"i": P}, outputs={"o": P}))
                    for b in range(3):
                        if src[b] is not None:
                            dg.connect(f"m{src[b]}", "o", f"m{b}", "i")
                    ex = R.DiagramExecutor(dg)
                    log = []
                    for m in range(3):
                        ex.register_module(f"m{m}", (lambda mm: lambda inputs: (log.append(mm), {"o": mm})[1])(m))
                    extv = {f"m{b}": {"i": 5} for b in range(3) if src[b] is None}
                    try:
                        rep = ex.execute(extv)
                    except WiringError:
                        return ("err", list(log))
                    if list(rep.modules) != rep.execution_order or log != [int(x[1:]) for x in rep.execution_order]:
                        return None
                    return ("ok", [int(x[1:]) for x in rep.execution_order])
                sched.append((list(perm), list(src), guard(run_one)))

    # the handler as a callable OBJECT of several kinds - among them objects whose own truth value is false (a collector
    # with __len__ that is empty before its first run, empty list / dict subclasses with __call__, __bool__ False) - on the
    # source, the inner and the sink module of a chain m0 -> m1 -> m2 declared m2, m1, m0: what the real execute() does
    import functools
    hobj = []
    if nD >= 1 and nI >= 1:
        P = W.PortType(DTs[0], ILs[0])

        def as_kind(kind, fn):
            if kind == "func":
                return fn
            if kind == "lambda":
                return lambda inputs: fn(inputs)
            if kind == "partial":
                return functools.partial(fn)
            if kind == "method":
                class Service:
                    def handle(self, inputs):
                        return fn(inputs)
                return Service().handle
            if kind == "listsub":
                class Pipeline(list):
                    def __call__(self, inputs):
                        return fn(inputs)
                return Pipeline()
            if kind == "dictsub":
                class Registry(dict):
                    def __call__(self, inputs):
                        return fn(inputs)
                return Registry()

            class Obj:
                seen = 0

                def __call__(self, inputs):
                    self.seen += 1
                    return fn(inputs)
            if kind == "boolfalse":
                Obj.__bool__ = lambda self: False
            elif kind == "len0":
                Obj.__len__ = lambda self: 0
            elif kind == "collector":
                Obj.__len__ = lambda self: self.seen
            return Obj()

        for kind in HANDLER_KINDS:
            for pos in range(3):
                def run_obj():
                    dg = W.WiringDiagram()
                    dg.add_module(W.ModuleSpec("m2", inputs={"i": P}))
                    dg.add_module(W.ModuleSpec("m1", inputs={"i": P}, outputs={"o": P}))
                    dg.add_module(W.ModuleSpec("m0", outputs={"o": P}))
                    dg.connect("m0", "o", "m1", "i")
                    dg.connect("m1", "o", "m2", "i")
                    ex = R.DiagramExecutor(dg)
                    log = []
                    for m in range(3):
                        fn = (lambda mm: lambda inputs: (log.append(mm), {} if mm == 2 else {"o": mm})[1])(m)
                        ex.register_module(f"m{m}", as_kind(kind, fn) if m == pos else fn)
                    try:
                        rep = ex.execute()
                    except WiringError:
                        return ("err", [], list(log))
                    if list(rep.modules) != rep.execution_order:
                        return None
                    return ("ok", [int(x[1:]) for x in rep.execution_order], list(log))
                hobj.append((kind, pos, guard(run_obj)))

    # raw values take the port's label
    def raw(fn):
        out = []
        for c in range(nD):
            for d in range(nI):
                def one():
                    tv = fn(13, W.PortType(DTs[c], ILs[d]))
                    if isinstance(tv, R.TypedValue) and tv.value == 13:
                        return (di.get(tv.data_type), ii.get(tv.integrity))
                    return None
                r = guard(one)
                out.append(r if (r and r[0] is not None and r[1] is not None) else None)
        return out
    facts = {
        "nD": nD, "nI": nI, "dts": [d.value for d in DTs], "ils": [l.name for l in ILs],
        "quads": quads, "can": can, "req": req, "con": con, "cout": cout, "cin": cin,
        "wchk": wchk, "wunchk": wunchk, "wext": wext, "sched": sched, "hobj": hobj, "rawout": raw(R._coerce_output), "rawin": raw(R._coerce_input),
    }
    return facts, sorted(set(notes))[:5]


def render(f, notes) -> str:
    if f is None:
        f = {"nD": 0, "nI": 0, "dts": [], "ils": [], "quads": [], "can": [], "req": [], "con": [], "cout": [],
             "cin": [], "wchk": [], "wunchk": [], "wext": [], "rawout": [], "rawin": []}
    q = f["quads"]

    def tbl(name, vals, doc):
        rows = [f"  ⟨{a}, {b}, {c}, {d}, {_out(v, (a, b))}⟩" for (a, b, c, d), v in zip(q, vals)]
        return f"/-- {doc} -/\ndef {name} : List Row := [\n" + ",\n".join(rows) + "]\n"

    pairs = [(c, d) for c in range(f["nD"]) for d in range(f["nI"])]

    def rawtbl(name, vals, doc):
        rows = [f"  ⟨{c}, {d}, {_out(v)}⟩" for (c, d), v in zip(pairs, vals)]
        return f"/-- {doc} -/\ndef {name} : List RawRow := [\n" + ",\n".join(rows) + "]\n"

    strs = lambda xs: "[" + ", ".join('"' + x + '"' for x in xs) + "]"
    out = [
        "/-",
        "  GENERATED by harness/vf/extract/e6.py on every run of ./check C16 — do not edit.",
        "  Source: operon_ai/core/types.py, wagent.py, wiring_runtime.py, by evaluating the real functions on the",
        "  complete table (source data type, source integrity rank, destination data type, destination rank).",
        "-/",
        "namespace Operon.Gen.WiringFlow",
        "",
        "/-- what the code did: `accepted dt il` = accepted, and the value/label that flows carries (dt, il);",
        "    `rejected` = WiringError; `unknown` = anything else (another exception, a wrong result) -/",
        "inductive Outcome where",
        "  | unknown | rejected | accepted (dt il : Nat)",
        "  deriving DecidableEq, Repr",
        "",
        "/-- (source / value label) x (destination / port label) -/",
        "structure Row where",
        "  sdt : Nat",
        "  sil : Nat",
        "  ddt : Nat",
        "  dil : Nat",
        "  out : Outcome",
        "  deriving DecidableEq, Repr",
        "",
        "structure RawRow where",
        "  pdt : Nat",
        "  pil : Nat",
        "  out : Outcome",
        "  deriving DecidableEq, Repr",
        "",
        f"def dataTypes : List String := {strs(f['dts'])}",
        f"def integrityLabels : List String := {strs(f['ils'])}   -- ascending by enum value",
        f"def nDT : Nat := {f['nD']}",
        f"def nIL : Nat := {f['nI']}",
        "",
        tbl("canFlowTo", f["can"], "PortType.can_flow_to: accepted = True, rejected = False"),
        tbl("requireFlowTo", f["req"], "PortType.require_flow_to: accepted = returns None, rejected = raises WiringError"),
        tbl("connect", f["con"],
            "WiringDiagram.connect between two one-port modules: accepted = wire appended, rejected = WiringError and no wire"),
        tbl("coerceOutput", f["cout"],
            "_coerce_output(TypedValue(s), port(d)): accepted l = the same object returned, labels l; rejected = WiringError"),
        tbl("coerceInput", f["cin"], "_coerce_input, same encoding"),
        tbl("wireChecked", f["wchk"],
            "execute(enforce_static_checks=True) over a wire that bypassed connect: accepted = value with the source label delivered"),
        tbl("wireUnchecked", f["wunchk"], "the same with enforce_static_checks=False"),
        tbl("wireAndExternal", f.get("wext", []),
            "execute over a wire whose destination port is ALSO given an external value, destination module declared first: "
            "rejected = WiringError before any handler was invoked (anything else, also a WiringError after an invocation, is unknown)"),
        "/-- one run of the real scheduler: modules declared in the order `perm`; `src[b]` = the module wired into module",
        "    b's input port (`none` = fed externally); `known` = the run ended in a report or a WiringError; `ok` = a report;",
        "    `log` = the execution order (= the handler invocations) of a successful run, the invocations of a raising one -/",
        "structure SchedRow where",
        "  perm : List Nat",
        "  src : List (Option Nat)",
        "  known : Bool",
        "  ok : Bool",
        "  log : List Nat",
        "  deriving DecidableEq, Repr",
        "",
        "def schedule : List SchedRow := [\n" + ",\n".join(
            "  ⟨%s, [%s], %s, %s, %s⟩" % (perm, ", ".join("none" if x is None else f"some {x}" for x in src),
                                        "true" if r else "false", "true" if (r and r[0] == "ok") else "false",
                                        (r[1] if r else []))
            for perm, src, r in f.get("sched", [])) + "]",
        "",
        "/-- one run of the real execute() on the chain m0 -> m1 -> m2 (declared m2, m1, m0; every module has a handler) where",
        "    the handler of module `pos` is a callable of the kind `kind` (func, lambda, method, partial, obj: truthy; boolfalse,",
        "    len0, collector, listsub, dictsub: callables whose own truth value is FALSE); `known` = report or WiringError;",
        "    `order` = execution_order of the report, `calls` = the handler invocations -/",
        "structure HandlerObjRow where",
        "  kind : String",
        "  pos : Nat",
        "  known : Bool",
        "  ok : Bool",
        "  order : List Nat",
        "  calls : List Nat",
        "  deriving DecidableEq, Repr",
        "",
        "def handlerObjects : List HandlerObjRow := [\n" + ",\n".join(
            '  ⟨"%s", %d, %s, %s, %s, %s⟩' % (kind, pos, "true" if r else "false", "true" if (r and r[0] == "ok") else "false",
                                            (r[1] if r else []), (r[2] if r else []))
            for kind, pos, r in f.get("hobj", [])) + "]",
        "",
        rawtbl("coerceOutputRaw", f["rawout"], "_coerce_output(raw, port): label of the result"),
        rawtbl("coerceInputRaw", f["rawin"], "_coerce_input(raw, port): label of the result"),
        "end Operon.Gen.WiringFlow",
        "",
    ]
    return "\n".join(out)


def run() -> dict:
    facts, notes = evaluate()
    changed = write_if_changed(OUT, render(facts, notes))
    unknown = 0 if facts is None else (sum(1 for k in ("can", "req", "con", "cout", "cin", "wchk", "wunchk", "wext", "rawout", "rawin")
                                           for v in facts[k] if v is None) + sum(1 for _, _, r in facts["sched"] if r is None)
                                           + sum(1 for _, _, r in facts["hobj"] if r is None))
    return {"id": "E6", "facts_changed": changed, "file": str(OUT.relative_to(LEAN)),
            "entries": 0 if facts is None else 8 * len(facts["quads"]) + 2 * facts["nD"] * facts["nI"] + len(facts["sched"]) + len(facts["hobj"]),
            "unknown_entries": unknown if facts is not None else -1, "notes": notes}
