"""E3 (lysosome clients): what the library's OWN callers do to a lysosome they share with an application.

Emits lean/Operon/Gen/LysosomeClients.lean:
  recognised   false when anything below failed (every dependent theorem then fails)
  sites        every place in operon_ai/ (outside organelles/lysosome.py) where a method is called / an attribute is
               assigned on something reached through a name containing `lysosome` - found with python's `ast`
               (file, enclosing Class.method, attribute).  A new client shows up here and breaks the table theorem
               until it is probed.
  probeRuns    MEASURED, not parsed: `AutophagyDaemon.check_and_prune` is run on a grid of situations
               (force x context size / fill) against a recording proxy around a real `Lysosome`; every call the
               daemon makes on the proxy is written down in the vocabulary of Operon/Model/LysosomeClients.lean,
               including what it put into `Waste.created_at` (the default = the clock at creation, an explicit naive
               datetime as an offset from the clock, or a timezone-aware value).
  reads        the read-only methods (`get_statistics`, `get_queue_status`, `get_recycled`) the daemon called; they are
               kept out of `probeRuns` so that a daemon that merely looks at the statistics stays quiet.

The modules are the ones the harness imported from the tree under test (C13.setup); the probe uses the harness clock.
"""
from __future__ import annotations

import ast
import datetime as _dt
from pathlib import Path

READS = {"get_statistics", "get_queue_status", "get_recycled"}
TY = {"misfolded": ".misfolded", "expired": ".expired", "failed_op": ".failedOp", "orphaned": ".orphaned",
      "toxic": ".toxic"}
SKIP = "operon_ai/organelles/lysosome.py"


def lean_str(s: str) -> str:
    return '"' + s.replace("\\", "\\\\").replace('"', '\\"') + '"'


# --- static: call sites --------------------------------------------------------------------------------
def _chain(n):
    """names along an attribute chain `a.b.c` -> ['a', 'b', 'c'] (None when it is not a plain chain)"""
    out = []
    while isinstance(n, ast.Attribute):
        out.append(n.attr)
        n = n.value
    if isinstance(n, ast.Name):
        out.append(n.id)
        return out[::-1]
    return None


def _through_lysosome(c):
    """`x.lysosome.ingest` -> 'ingest'; `self.lysosome._queue.append` -> '_queue' (what is reached on the lysosome)"""
    if not c:
        return None
    for j, name in enumerate(c[:-1]):
        if "lysosome" in name.lower() or name.lower().strip("_") in ("lys", "lyso"):
            return c[j + 1]
    return None


def sites(repo: Path):
    found = set()
    root = Path(repo) / "operon_ai"
    for path in sorted(root.rglob("*.py")):
        rel = str(path.relative_to(repo))
        if rel == SKIP:
            continue
        src = path.read_text()
        if "lysosome" not in src.lower():
            continue
        tree = ast.parse(src)

        def walk(node, qual):
            for ch in ast.iter_child_nodes(node):
                q = qual
                if isinstance(ch, (ast.ClassDef, ast.FunctionDef, ast.AsyncFunctionDef)):
                    q = (qual + "." if qual else "") + ch.name
                if isinstance(ch, ast.Call) and isinstance(ch.func, ast.Attribute):
                    hit = _through_lysosome(_chain(ch.func))
                    if hit:
                        found.add((rel, qual or "<module>", hit))
                if isinstance(ch, (ast.Assign, ast.AugAssign, ast.AnnAssign, ast.Delete)):
                    for tg in (ch.targets if isinstance(ch, (ast.Assign, ast.Delete)) else [ch.target]):
                        while isinstance(tg, ast.Subscript):
                            tg = tg.value
                        hit = _through_lysosome(_chain(tg)) if isinstance(tg, ast.Attribute) else None
                        if hit:
                            found.add((rel, qual or "<module>", "set:" + hit))
                walk(ch, q)
        walk(tree, "")
    return sorted(found)


# --- dynamic: the probe -------------------------------------------------------------------------------------
class Proxy:
    """forwards everything to a real Lysosome and writes down what was called / assigned"""

    def __init__(self, real, log, reads, classify):
        object.__setattr__(self, "_p", (real, log, reads, classify))

    def __getattr__(self, name):
        real, log, reads, classify = object.__getattribute__(self, "_p")
        v = getattr(real, name)
        if not callable(v):
            return v

        def rec(*a, **k):
            if name in READS:
                reads.add(name)
            else:
                log.append(classify(name, a, k))
            return v(*a, **k)
        return rec

    def __setattr__(self, name, value):
        real, log, _reads, _c = object.__getattribute__(self, "_p")
        log.append(f'.other {lean_str("set:" + name)}')
        setattr(real, name, value)


def probe(L, AD, clock):
    from operon_ai.state.histone import HistoneStore
    runs, reads = [], set()

    def stamp(w):
        c = getattr(w, "created_at", None)
        if not isinstance(c, _dt.datetime):
            return None
        if c.tzinfo is not None:
            return ".aware"
        d = (c - clock.now()) // _dt.timedelta(microseconds=1)
        return ".now" if d == 0 else f"(.at ({d}))"

    def classify(name, a, k):
        if name == "ingest":
            w = a[0] if a else k.get("waste")
            ty = TY.get(getattr(getattr(w, "waste_type", None), "value", None))
            st = stamp(w) if isinstance(w, L.Waste) else None
            if ty is None or st is None:
                return f'.other {lean_str("ingest of something that is not a Waste with a datetime created_at")}'
            return f".ingest {ty} {st}"
        if name == "ingest_error":
            return ".ingestError"
        if name == "ingest_sensitive":
            return ".ingestSensitive"
        if name == "digest":
            m = a[0] if a else k.get("max_items")
            return f".digest (some ({int(m)}))" if isinstance(m, int) and not isinstance(m, bool) else (
                ".digest none" if m is None else f'.other {lean_str("digest with a non-int argument")}')
        if name == "autophagy":
            return ".autophagy"
        if name == "clear_recycling_bin":
            return ".clearBin"
        return f".other {lean_str(name)}"

    line = "step {k}: did something useful with the data"
    contexts = {"tiny": ("\n".join(line.format(k=k) for k in range(2)), 8000),
                "large": ("\n".join(line.format(k=k) for k in range(120)), 8000),
                "critical": ("\n".join(line.format(k=k) for k in range(120)), 1500),
                "noisy": ("\n".join("error: retry\nerror: retry\nok" for _ in range(500)), 9000)}
    saved = clock.us
    try:
        for cname, (text, max_tokens) in contexts.items():
            for force in (False, True):
                clock.us = 987_654_321
                log = []
                real = L.Lysosome(max_queue_size=1000, auto_digest_threshold=1000, silent=True)
                daemon = AD.AutophagyDaemon(histone_store=HistoneStore(silent=True),
                                            lysosome=Proxy(real, log, reads, classify),
                                            summarizer=lambda t: t[:40], silent=True)
                raised, pruned = False, False
                try:
                    _ctx, res = daemon.check_and_prune(text, max_tokens, force=force)
                    pruned = res is not None
                except Exception:   # noqa
                    raised = True
                runs.append((f"check_and_prune force={force} context={cname}", pruned, raised, list(log)))
    finally:
        clock.us = saved
    return runs, sorted(reads)


def probe_made_inside(L, clock):
    """what the library itself puts into the wastes it builds: `Waste`'s default `created_at`, and the one item each
    convenience method (`ingest_error`, `ingest_sensitive`) queues - MEASURED on the real class"""
    def stamp(w):
        c = getattr(w, "created_at", None)
        if not isinstance(c, _dt.datetime):
            return None
        if c.tzinfo is not None:
            return ".aware"
        d = (c - clock.now()) // _dt.timedelta(microseconds=1)
        return ".now" if d == 0 else f"(.at ({d}))"

    def queued_as_calls(lys):
        out = []
        for w in list(lys._queue):
            ty = TY.get(getattr(getattr(w, "waste_type", None), "value", None))
            st = stamp(w)
            out.append(f".ingest {ty} {st}" if ty and st else
                       f'.other {lean_str("a queued item that is not a Waste with a datetime created_at")}')
        return out
    saved = clock.us
    try:
        clock.us = 555_555_555
        default = stamp(L.Waste(L.WasteType.EXPIRED_CACHE, None))
        a = L.Lysosome(max_queue_size=1000, auto_digest_threshold=1000, silent=True)
        a.ingest_error(ValueError("probe"), source="probe", context={"k": 1})
        b = L.Lysosome(max_queue_size=1000, auto_digest_threshold=1000, silent=True)
        b.ingest_sensitive({"secret": 1}, source="probe")
        return default, queued_as_calls(a), queued_as_calls(b)
    finally:
        clock.us = saved


def render(recognised, why, site_list, runs, reads, inside=(None, [], [])):
    def b(x):
        return "true" if x else "false"
    out = ["import Operon.Model.LysosomeClients",
           "/-! GENERATED by harness/vf/extract/e3_lysosome_clients.py (call sites: python `ast` over operon_ai/;",
           "    probeRuns: measured on the real AutophagyDaemon against a recording proxy) — do not edit. -/",
           "namespace Operon.Gen.LysosomeClients", "open Operon.Lysosome", "",
           f"def recognised : Bool := {b(recognised)}"]
    if why:
        out.append(f"-- {why}")
    out += ["", "/-- (file, enclosing definition, method called / `set:` attribute assigned) on a lysosome outside lysosome.py -/",
            "def sites : List (String × String × String) := ["
            + ",\n  ".join(f"({lean_str(a)}, {lean_str(q)}, {lean_str(m)})" for a, q, m in site_list) + "]", "",
            "/-- what `AutophagyDaemon.check_and_prune` did to the lysosome it shares, per probed situation -/",
            "def probeRuns : List ProbeRun := ["
            + ",\n  ".join(f"⟨{lean_str(s)}, {b(p)}, {b(r)}, [{', '.join(c)}]⟩" for s, p, r, c in runs) + "]", "",
            "def reads : List String := [" + ", ".join(lean_str(x) for x in reads) + "]", "",
            "/-- `created_at` of a `Waste` built without one (the dataclass default), measured -/",
            f"def wasteDefaultStamp : Option Stamp := {('some ' + inside[0]) if inside[0] else 'none'}", "",
            "/-- what one `ingest_error(...)` / one `ingest_sensitive(...)` call leaves in the queue of a fresh lysosome, measured -/",
            f"def ingestErrorMakes : List ClientCall := [{', '.join(inside[1])}]",
            f"def ingestSensitiveMakes : List ClientCall := [{', '.join(inside[2])}]", "",
            "end Operon.Gen.LysosomeClients", ""]
    return "\n".join(out)


def extract(repo, L, AD, clock):
    try:
        site_list = sites(Path(repo))
        runs, reads = probe(L, AD, clock)
        inside = probe_made_inside(L, clock)
        text = render(True, "", site_list, runs, reads, inside)
        facts = {"recognised": True, "sites": site_list, "runs": runs, "reads": reads, "inside": inside}
    except Exception as e:   # noqa: fail closed
        why = f"{type(e).__name__}: {e}".replace("\n", " ")[:200]
        text = render(False, why, [], [], [])
        facts = {"recognised": False, "why": why, "sites": [], "runs": [], "reads": []}
    return text, facts
