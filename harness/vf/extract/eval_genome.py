"""C20: finite decision tables of `operon_ai/state/genome.py`, EVALUATED on the real code through its public API.

Nothing is parsed: the tables are obtained by running the imported `Genome` of the tree under test on every point of a
finite domain, so behaviour-preserving rewrites (helpers, comprehensions, guard clauses, properties instead of plain
attributes) give the same file, and a behavioural change gives a different table and breaks the theorem that
consumes it (`c20_express_agrees_with_evaluated_source`, `c20_get_value_agrees_with_evaluated_source`,
`c20_gate_agrees_with_evaluated_source` in lean/Operon/Props/C20.lean).

  * expressTable  : (gene type, expression level, name in context) -> is the gene in express()?
                    5 x 5 x 2 points; each point is evaluated along several routes (level given as the gene's
                    default_expression / set afterwards by set_expression / silence_gene / activate_gene, inherited by a
                    child through replicate; context passed as dict with the name / without / None; the gene placed
                    before and after a neighbour that must always be expressed).  Routes that disagree -> `none`.
  * getValueTable : expression level -> does get_value() show the stored value (rather than the default)?
  * gateTable     : (operation in {mutate, rollback_mutation, re-add_gene}, allow_mutations, callback in {absent,
                    approves, refuses, raises}, settings given to the constructor | ASSIGNED to the public attributes of
                    a live genome that was built open and mutated once) -> (return value | raised, approved-flags of
                    the log entries the call appended, stored value afterwards).  3 x 2 x 4 x 2 points.

  * replicateTable : (allow_mutations, callback present, mutation_rate > 0, inherit_expression, settings assigned late,
                    gene silenced in the parent) -> what the child is born with: allow_mutations, on_mutation IS the
                    parent's current callback, mutation_rate > 0, expression level of the gene, generation, parent_hash =
                    the parent's hash, approved-flags of the child's log (random pass pinned to the identity mutation,
                    callback refusing), parent left exactly as it was.  2^6 points.
  * constructTable : allow_mutations -> what `Genome(genes=[t=1 (LOW), u=3, t=2 (HIGH)])` stores for the duplicated name
                    (value, level, number of genes, log length).

  * statsTable     : (allow_mutations, callback absent / approves / refuses) -> get_statistics() of parent and child after a
                    fixed history of approved / refused mutations, rollbacks, a re-add, a silencing and a replication.

Fail closed: any exception while evaluating a point, or an observation outside the expected vocabulary, makes that
entry `none`; the consuming theorem then fails.
"""
from __future__ import annotations

from pathlib import Path

TYPES = ["structural", "regulatory", "housekeeping", "conditional", "dormant"]
LEVELS = ["silenced", "low", "normal", "high", "over"]
ANS = [None, "approve", "refuse", "raise"]
OPS = ["mutate", "rollback", "readd"]


def _lean_bool(b):
    return "true" if b else "false"


def _opt(x, show):
    return "none" if x is None else f"(some {show(x)})"


def eval_express(m):
    rows = []
    for ti, t in enumerate(TYPES):
        for li, l in enumerate(LEVELS):
            for inctx in (False, True):
                rows.append(((t, l, inctx), _express_point(m, ti, li, inctx)))
    return rows


def _express_point(m, ti, li, inctx):
    gt = m.GeneType(TYPES[ti])
    lv = m.ExpressionLevel(li)
    answers = set()
    try:
        for first in (True, False):
            for route in ("default", "set", "wrapper", "child"):
                target = m.Gene(name="t", value=41, gene_type=gt,
                                default_expression=lv if route in ("default", "child") else
                                (m.ExpressionLevel.NORMAL if li != 2 else m.ExpressionLevel.SILENCED))
                nb = m.Gene(name="n", value=42)
                g = m.Genome(genes=[target, nb] if first else [nb, target], silent=True)
                if route == "set":
                    if g.set_expression("t", lv) is not True:
                        return None
                elif route == "wrapper":
                    if li == 0:
                        ok = g.silence_gene("t")
                    elif li == 2:
                        ok = g.activate_gene("t")
                    else:
                        ok = g.set_expression("t", lv, "x")
                    if ok is not True:
                        return None
                elif route == "child":
                    g = g.replicate()
                # not named: also when the context holds a name that merely LOOKS like it (other case, trailing blank,
                # full-width letter = NFKC-equal) — "named in the context" is exact key membership
                ctxs = [{"t": 1}, {"t": None, "other": 0}, {"T": 1, "t": 0}] if inctx else \
                    [{}, None, {"n": 1}, {"T": 1}, {"t ": 1, "\uff54": 1}]
                for c in ctxs:
                    out = g.express(c)
                    if not isinstance(out, dict) or out.get("n") != 42 or set(out) - {"t", "n"}:
                        return None
                    if "t" in out and out["t"] != 41:
                        return None
                    answers.add("t" in out)
    except Exception:  # noqa
        return None
    return answers.pop() if len(answers) == 1 else None


def eval_get_value(m):
    rows = []
    for li, l in enumerate(LEVELS):
        ans = set()
        try:
            for gt in m.GeneType:
                for route in ("default", "set"):
                    lv = m.ExpressionLevel(li)
                    g = m.Genome(genes=[m.Gene(name="t", value=41, gene_type=gt,
                                               default_expression=lv if route == "default" else m.ExpressionLevel.LOW)],
                                 silent=True)
                    if route == "set":
                        g.set_expression("t", lv)
                    sentinel = object()
                    v = g.get_value("t", sentinel)
                    if v is not sentinel and v != 41:
                        ans.add(None)
                    ans.add(v is not sentinel)
                    if g.get_value("absent", sentinel) is not sentinel:
                        ans.add(None)
        except Exception:  # noqa
            ans = {None}
        rows.append((l, ans.pop() if len(ans) == 1 else None))
    return rows


class _Raise(Exception):
    pass


def _cb(kind):
    if kind is None:
        return None
    if kind == "approve":
        return lambda mutation: True
    if kind == "refuse":
        return lambda mutation: False

    def boom(mutation):
        raise _Raise()
    return boom


def _gate_point(m, op, allow, ans, late):
    """values: gene t starts at 1; the late route mutates it to 5 while open; the probe asks for 7 (mutate) / re-adds 9"""
    try:
        if late:
            g = m.Genome(genes=[m.Gene(name="t", value=1)], allow_mutations=True, silent=True)
            if g.mutate("t", 5) is not True:
                return None
            g.allow_mutations = allow
            g.on_mutation = _cb(ans)
        else:
            g = m.Genome(genes=[m.Gene(name="t", value=1)], allow_mutations=allow, on_mutation=_cb(ans), silent=True)
        n0 = len(g._mutations)
        try:
            if op == "mutate":
                ret = g.mutate("t", 7)
            elif op == "rollback":
                ret = g.rollback_mutation("t")
            else:
                ret = g.add_gene(m.Gene(name="t", value=9))
            if ret is not True and ret is not False:
                return None
        except _Raise:
            ret = None
        flags = [bool(x.approved) for x in g._mutations[n0:]]
        v = g.get_gene("t").value
        if type(v) is not int or v < 0:
            return None
        return (ret, flags, v)
    except Exception:  # noqa
        return None


def eval_gate(m):
    rows = []
    for op in OPS:
        for allow in (False, True):
            for ans in ANS:
                for late in (False, True):
                    rows.append(((op, allow, ans, late), _gate_point(m, op, allow, ans, late)))
    return rows


def _parent_view(g):
    ex = g.export()
    return (repr(ex), g.get_hash(), [(x.gene_name, x.original_value, x.new_value, x.reason, x.approved) for x in g._mutations],
            g.allow_mutations, g.on_mutation, g.mutation_rate)


def _repl_point(m, allow, cb, rate, inherit, late, silenced):
    import random as _random
    refuse = lambda mutation: False   # noqa
    try:
        gene = m.Gene(name="t", value=1, default_expression=m.ExpressionLevel.HIGH)
        if late:
            p = m.Genome(genes=[gene], allow_mutations=not allow, mutation_rate=0.0 if rate else 1.0,
                         on_mutation=None if cb else refuse, silent=True)
            p.allow_mutations = allow
            p.on_mutation = refuse if cb else None
            p.mutation_rate = 1.0 if rate else 0.0
        else:
            p = m.Genome(genes=[gene], allow_mutations=allow, mutation_rate=1.0 if rate else 0.0,
                         on_mutation=refuse if cb else None, silent=True)
        if silenced:
            p.silence_gene("t")
        before = _parent_view(p)
        saved = _random.random
        _random.random = lambda: 0.5
        try:
            c = p.replicate(inherit_expression=inherit)
        finally:
            _random.random = saved
        same = _parent_view(p) == before
        lv = c.export()["expression"]["t"]["level"]
        if c is p or not isinstance(lv, int) or not 0 <= lv <= 4 or c.get_gene("t").value != 1:
            return None
        return (bool(c.allow_mutations), c.on_mutation is p.on_mutation, c.mutation_rate > 0, lv,
                c.export()["generation"], c.export()["parent_hash"] == p.get_hash(),
                [bool(x.approved) for x in c._mutations], same)
    except Exception:  # noqa
        return None


def eval_replicate(m):
    rows = []
    B = (False, True)
    for allow in B:
        for cb in B:
            for rate in B:
                for inherit in B:
                    for late in B:
                        for silenced in B:
                            key = (allow, cb, rate, inherit, late, silenced)
                            rows.append((key, _repl_point(m, *key)))
    return rows


def eval_construct(m):
    rows = []
    for allow in (False, True):
        try:
            g = m.Genome(genes=[m.Gene(name="t", value=1, default_expression=m.ExpressionLevel.LOW),
                                m.Gene(name="u", value=3),
                                m.Gene(name="t", value=2, default_expression=m.ExpressionLevel.HIGH)],
                         allow_mutations=allow, silent=True)
            ex = g.export()
            r = (g.get_gene("t").value, ex["expression"]["t"]["level"], len(ex["genes"]), len(g._mutations))
            if not all(type(x) is int and x >= 0 for x in r) or r[1] > 4:
                r = None
        except Exception:  # noqa
            r = None
        rows.append((allow, r))
    return rows


STATS_ANS = [None, "approve", "refuse"]


def eval_stats(m):
    """get_statistics() after a fixed history that logs approved / refused mutations, rollbacks (approved or refused), a
    re-add (refused or accepted), an expression change and a replication with a requested mutation:
    (total_genes, generation, mutations_count, approved_mutations, number of SILENCED expression states; and generation,
    mutations_count, approved_mutations of the child).  `hash` / `parent_hash` must be get_hash() / the parent's hash."""
    rows = []
    for allow in (False, True):
        for ans in STATS_ANS:
            try:
                g = m.Genome(genes=[m.Gene(name="t", value=1), m.Gene(name="u", value=3, required=True)],
                             allow_mutations=allow, on_mutation=_cb(ans), silent=True)
                g.mutate("t", 7)
                g.mutate("u", 9)
                g.rollback_mutation("t")
                g.add_gene(m.Gene(name="t", value=5))
                g.rollback_mutation("t")
                g.silence_gene("u")
                h = g.get_hash()
                c = g.replicate({"t": 8})
                s, sc = g.get_statistics(), c.get_statistics()
                r = (s["total_genes"], s["generation"], s["mutations_count"], s["approved_mutations"],
                     s["by_expression"].get("SILENCED", 0), sc["generation"], sc["mutations_count"], sc["approved_mutations"])
                if not all(type(x) is int and x >= 0 for x in r) or s["hash"] != h or g.get_hash() != h \
                        or sc["parent_hash"] != h or sc["hash"] != c.get_hash() or s["parent_hash"] is not None:
                    r = None
            except Exception:  # noqa
                r = None
            rows.append(((allow, ans), r))
    return rows


def render(m) -> tuple[str, dict]:
    info = {"poisoned": []}
    if m is None:
        ex, gv, gt, rp, cs, stt = [], [], [], [], [], []
        info["poisoned"].append("module not importable")
    else:
        ex, gv, gt, rp, cs = eval_express(m), eval_get_value(m), eval_gate(m), eval_replicate(m), eval_construct(m)
        stt = eval_stats(m)
    out = ("import Operon.Model.Genome\n"
           "/- GENERATED by harness/vf/extract/eval_genome.py on every run by EVALUATING the Genome class of the tree under\n"
           "   test on finite domains (nothing is parsed); do not edit.  `none` = the evaluation of that point failed or its\n"
           "   routes disagreed: the consuming theorem of Operon/Props/C20.lean then fails. -/\n"
           "namespace Operon.Genome.Gen\n\n"
           "/-- (gene type, expression level, gene named in the context) ↦ the gene is in `express()` -/\n"
           "def expressTable : List ((GType × Level × Bool) × Option Bool) := [\n")
    lines = []
    for (t, l, c), r in ex:
        if r is None:
            info["poisoned"].append(f"express {t} {l} {c}")
        lines.append(f"  ((.{t}, .{l}, {_lean_bool(c)}), {_opt(r, _lean_bool)})")
    out += ",\n".join(lines) + "]\n\n"
    out += ("/-- expression level ↦ `get_value` shows the stored value (not the default) -/\n"
            "def getValueTable : List (Level × Option Bool) := [\n")
    lines = []
    for l, r in gv:
        if r is None:
            info["poisoned"].append(f"get_value {l}")
        lines.append(f"  (.{l}, {_opt(r, _lean_bool)})")
    out += ",\n".join(lines) + "]\n\n"
    out += ("/-- (operation: 0 mutate, 1 rollback_mutation, 2 add_gene on an existing name; allow_mutations; callback: none =\n"
            "    absent; settings ASSIGNED to a live genome that was built open and mutated once (true) / given to the\n"
            "    constructor (false)) ↦ (return value, none = the callback's exception propagated; approved-flags of the log\n"
            "    entries appended by the call; stored value afterwards) -/\n"
            "def gateTable : List ((Nat × Bool × Option Ans × Bool) × Option (Option Bool × List Bool × Nat)) := [\n")
    lines = []
    for (op, allow, ans, late), r in gt:
        key = f"({OPS.index(op)}, {_lean_bool(allow)}, {_opt(ans, lambda a: '.' + a)}, {_lean_bool(late)})"
        if r is None:
            info["poisoned"].append(f"gate {op} {allow} {ans} {late}")
            lines.append(f"  ({key}, none)")
        else:
            ret, flags, v = r
            lines.append(f"  ({key}, some ({_opt(ret, _lean_bool)}, [{', '.join(_lean_bool(f) for f in flags)}], {v}))")
    out += ",\n".join(lines) + "]\n\n"
    out += ("/-- (allow_mutations, callback present, mutation_rate > 0, inherit_expression, settings assigned late, gene silenced\n"
            "    in the parent) ↦ the child `replicate()` returns: (allow_mutations, on_mutation is the parent's, mutation_rate > 0,\n"
            "    level of the gene, generation, parent_hash = parent's hash, approved-flags of its log, parent untouched) -/\n"
            "def replicateTable : List ((Bool × Bool × Bool × Bool × Bool × Bool) × Option ChildView) := [\n")
    lines = []
    for key, r in rp:
        ks = "(" + ", ".join(_lean_bool(b) for b in key) + ")"
        if r is None:
            info["poisoned"].append(f"replicate {key}")
            lines.append(f"  ({ks}, none)")
        else:
            a, same_cb, rt, lv, gen, ph, flags, same = r
            lines.append(f"  ({ks}, some ⟨{_lean_bool(a)}, {_lean_bool(same_cb)}, {_lean_bool(rt)}, some .{LEVELS[lv]}, {gen}, "
                         f"{_lean_bool(ph)}, [{', '.join(_lean_bool(f) for f in flags)}], {_lean_bool(same)}⟩)")
    out += ",\n".join(lines) + "]\n\n"
    out += ("/-- allow_mutations ↦ `Genome(genes=[t=1 (LOW), u=3, t=2 (HIGH)])`: (stored value of t, level of t, number of genes,\n"
            "    length of the log) -/\n"
            "def constructTable : List (Bool × Option (Nat × Option Level × Nat × Nat)) := [\n")
    lines = []
    for allow, r in cs:
        if r is None:
            info["poisoned"].append(f"construct {allow}")
            lines.append(f"  ({_lean_bool(allow)}, none)")
        else:
            lines.append(f"  ({_lean_bool(allow)}, some ({r[0]}, some .{LEVELS[r[1]]}, {r[2]}, {r[3]}))")
    out += ",\n".join(lines) + "]\n\n"
    out += ("/-- (allow_mutations, callback: none = absent) ↦ `get_statistics()` after mutate t 7, mutate u 9, rollback t,\n"
            "    add_gene t 5, rollback t, silence u, replicate {t: 8}: (total_genes, generation, mutations_count,\n"
            "    approved_mutations, SILENCED states; child's generation, mutations_count, approved_mutations) -/\n"
            "def statsTable : List ((Bool × Option Ans) × Option (List Nat)) := [\n")
    lines = []
    for (allow, ans), r in stt:
        key = f"({_lean_bool(allow)}, {_opt(ans, lambda a: '.' + a)})"
        if r is None:
            info["poisoned"].append(f"stats {allow} {ans}")
            lines.append(f"  ({key}, none)")
        else:
            lines.append(f"  ({key}, some [{', '.join(str(x) for x in r)}])")
    out += ",\n".join(lines) + "]\n\n"
    out += "end Operon.Genome.Gen\n"
    return out, info


def run(lean_dir: Path, write_if_changed, module=None) -> list[dict]:
    text, info = render(module)
    changed = write_if_changed(Path(lean_dir) / "Operon/Gen/GenomeTables.lean", text)
    return [{"id": "eval-genome", "facts_changed": bool(changed), "points": 50 + 5 + 48 + 64 + 2 + 6, "poisoned": info["poisoned"]}]


if __name__ == "__main__":
    import sys
    sys.path.insert(0, sys.argv[1] if len(sys.argv) > 1 else "/repo")
    from operon_ai.state import genome as mod
    t, i = render(mod)
    print(t)
    print(i, file=sys.stderr)
