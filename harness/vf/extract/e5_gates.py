"""E5 (gates part): constants of the membrane and of innate immunity -> lean/Operon/Gen/GatesConsts.lean.

Measured on the real class under the harness's fake clock (measure_window): the length of the sliding window of
`Membrane._check_rate_limit` (bisection on "is a second call admitted d seconds after the first"; the literal
`cutoff = now - 60` is still parsed when present and must agree).
Parsed from the source text with `ast` (facts that cannot be observed by evaluating a finite domain):
  * the cut-offs of `InnateImmunity._evaluate_inflammation` and the weight of a structural error.
Evaluated on the imported classes (finite tables / defaults — evaluate, do not parse):
  * `ThreatLevel` / `InflammationLevel` values, constructor defaults, the default validator list,
  * the built-in signature tables `Membrane.INNATE_SIGNATURES` and `InnateImmunity.DEFAULT_PATTERNS`.
Every fact is an `Option`; a shape that is not recognised yields `none`, which makes `c10_consts_extracted`
(and the theorems instantiated with the constants) fail to elaborate and the driver disagree.
"""
from __future__ import annotations

import ast
import inspect
from pathlib import Path


def _find_fn(tree, cls, fn):
    for n in tree.body:
        if isinstance(n, ast.ClassDef) and n.name == cls:
            for f in n.body:
                if isinstance(f, ast.FunctionDef) and f.name == fn:
                    return f
    return None


def _nat(node):
    if isinstance(node, ast.Constant) and isinstance(node.value, int) and not isinstance(node.value, bool) \
            and node.value >= 0:
        return node.value
    return None


def parse_window(src: str):
    """`cutoff = now - <n>` followed by a filter `t > cutoff` and `len(..) >= self.rate_limit`."""
    try:
        f = _find_fn(ast.parse(src), "Membrane", "_check_rate_limit")
        if f is None:
            return None
        cands = []
        for n in ast.walk(f):
            if isinstance(n, ast.BinOp) and isinstance(n.op, ast.Sub) and isinstance(n.left, ast.Name) \
                    and n.left.id == "now" and _nat(n.right) is not None:
                cands.append(_nat(n.right))
        return cands[0] if len(cands) == 1 else None
    except Exception:
        return None


def _cmp(node, names):
    """`<name> >= <nat>` -> (name, nat)"""
    if isinstance(node, ast.Compare) and len(node.ops) == 1 and isinstance(node.ops[0], ast.GtE) \
            and isinstance(node.left, ast.Name) and node.left.id in names and _nat(node.comparators[0]) is not None:
        return node.left.id, _nat(node.comparators[0])
    return None


def parse_inflammation(src: str):
    """The if/elif chain that assigns `new_level`; returns dict of cut-offs or None."""
    try:
        f = _find_fn(ast.parse(src), "InnateImmunity", "_evaluate_inflammation")
        if f is None:
            return None
        names = {"total_severity", "max_severity", "pattern_count"}
        err_w = None
        for n in f.body:
            if isinstance(n, ast.Assign) and len(n.targets) == 1 and isinstance(n.targets[0], ast.Name) \
                    and n.targets[0].id == "total_severity":
                v = n.value     # sum(p.severity for p in patterns) + len(errors) * 2
                if isinstance(v, ast.BinOp) and isinstance(v.op, ast.Add) and isinstance(v.right, ast.BinOp) \
                        and isinstance(v.right.op, ast.Mult) and ast.unparse(v.right.left) == "len(errors)" \
                        and ast.unparse(v.left).replace(" ", "").replace("(", "").replace(")", "") \
                        == "sump.severityforpinpatterns":
                    err_w = _nat(v.right.right)
            if isinstance(n, ast.Assign) and len(n.targets) == 1 and isinstance(n.targets[0], ast.Name) \
                    and n.targets[0].id == "pattern_count":
                if ast.unparse(n.value).replace(" ", "") != "len(patterns)+len(errors)":
                    return None
        chain = None
        for n in f.body:
            if isinstance(n, ast.If) and any(isinstance(x, ast.Assign) and ast.unparse(x.targets[0]) == "new_level"
                                             for x in n.body):
                chain = n
                break
        if chain is None or err_w is None:
            return None
        rules = []
        node = chain
        while True:
            test = node.test
            parts = test.values if isinstance(test, ast.BoolOp) and isinstance(test.op, ast.Or) else [test]
            cs = [_cmp(p, names) for p in parts]
            if any(c is None for c in cs):
                if rules and isinstance(test, ast.Call):   # the cooldown test ends the chain
                    tail = [node]
                    break
                return None
            if len(node.body) != 1 or not isinstance(node.body[0], ast.Assign):
                return None
            lvl = ast.unparse(node.body[0].value)
            rules.append((lvl, dict(cs), len(cs)))
            if len(node.orelse) == 1 and isinstance(node.orelse[0], ast.If) and \
                    isinstance(node.orelse[0].body[0], ast.Assign):
                node = node.orelse[0]
                continue
            tail = node.orelse
            break
        # tail: if self.inflammation_state.is_in_cooldown(): LOW else NONE
        if not (len(tail) == 1 and isinstance(tail[0], ast.If)
                and ast.unparse(tail[0].test) == "self.inflammation_state.is_in_cooldown()"
                and ast.unparse(tail[0].body[0].value) == "InflammationLevel.LOW"
                and ast.unparse(tail[0].orelse[0].value) == "InflammationLevel.NONE"):
            return None
        want = ["InflammationLevel.ACUTE", "InflammationLevel.HIGH", "InflammationLevel.MEDIUM", "InflammationLevel.LOW"]
        if [r[0] for r in rules] != want:
            return None
        a, h, m, l = (r[1] for r in rules)
        if set(a) != {"total_severity", "max_severity"} or set(h) != {"total_severity", "max_severity"} \
                or set(m) != {"total_severity", "pattern_count"} or set(l) != {"pattern_count"}:
            return None
        return {"acuteTotal": a["total_severity"], "acuteMax": a["max_severity"], "highTotal": h["total_severity"],
                "highMax": h["max_severity"], "medTotal": m["total_severity"], "medCount": m["pattern_count"],
                "lowCount": l["pattern_count"], "errWeight": err_w}
    except Exception:
        return None


def _opt(x):
    return "none" if x is None else f"some {x}"


def _cps(s: str) -> str:
    return "[" + ", ".join(str(ord(c)) for c in s) + "]"


def _guard(fn):
    try:
        return fn()
    except Exception:
        return None


def measure_window(M, clock):
    """The length of the rate window in whole seconds, MEASURED on the real class under the harness's fake clock (so a
    literal, a module / class constant or an attribute give the same fact): with rate_limit=1 and one call admitted at
    t0, a second call at t0+d is refused while d < W and admitted from d = W on; bisection over whole seconds, then the
    boundary is confirmed at 125 ms resolution (refused at W - 0.125 s, admitted at W)."""
    from operon_ai.core.types import Signal
    saved = clock.us

    def admitted_after(us):
        clock.us = 0
        m = M.Membrane(rate_limit=1, silent=True)
        if not m.filter(Signal(content="window probe a")).allowed:
            raise ValueError("first call refused")
        clock.us = us
        return bool(m.filter(Signal(content="window probe b")).allowed)
    try:
        if admitted_after(0) or not admitted_after(10 ** 6 * 10 ** 6):
            return None
        lo, hi = 0, 10 ** 6                     # refused after lo seconds, admitted after hi seconds
        while hi - lo > 1:
            mid = (lo + hi) // 2
            if admitted_after(mid * 10 ** 6):
                hi = mid
            else:
                lo = mid
        if admitted_after(hi * 10 ** 6 - 125_000) or not admitted_after(hi * 10 ** 6):
            return None
        return hi
    finally:
        clock.us = saved


def generate(repo: Path, membrane_mod, innate_mod, clock=None) -> str:
    msrc = (repo / "operon_ai/organelles/membrane.py").read_text()
    isrc = (repo / "operon_ai/surveillance/innate.py").read_text()
    parsed = parse_window(msrc)
    if clock is not None:
        window = _guard(lambda: measure_window(membrane_mod, clock))
        if parsed is not None and window is not None and parsed != window:
            window = None                       # the literal in the source and the measured behaviour disagree
    else:
        window = parsed
    cuts = parse_inflammation(isrc)
    M, I = membrane_mod, innate_mod

    def default(cls, name):
        return inspect.signature(cls.__init__).parameters[name].default

    def natval(x):
        x = getattr(x, "value", x)
        return x if isinstance(x, int) and not isinstance(x, bool) and x >= 0 else None

    thr = _guard(lambda: natval(default(M.Membrane, "threshold")))
    crit = _guard(lambda: natval(M.ThreatLevel.CRITICAL))
    levels = _guard(lambda: [(l.name, natval(l)) for l in M.ThreatLevel])
    rate_default_none = _guard(lambda: default(M.Membrane, "rate_limit") is None)
    sev = _guard(lambda: natval(default(I.InnateImmunity, "severity_threshold")))
    decay = _guard(lambda: natval(default(I.InnateImmunity, "inflammation_decay_minutes")))
    infl = _guard(lambda: [(l.name, natval(l)) for l in I.InflammationLevel])
    jd = _guard(lambda: (natval(default(I.JSONValidator, "max_depth")), natval(default(I.JSONValidator, "max_size"))))
    ld = _guard(lambda: (natval(default(I.LengthValidator, "min_length")), natval(default(I.LengthValidator, "max_length"))))
    cd = _guard(lambda: (bool(default(I.CharacterSetValidator, "allow_control_chars")),
                         bool(default(I.CharacterSetValidator, "allow_null"))))

    def vdesc(v):
        if type(v) is I.LengthValidator:
            return f"(0, {int(v.min_length)}, {int(v.max_length)})"
        if type(v) is I.CharacterSetValidator:
            return f"(1, {int(bool(v.allow_control_chars))}, {int(bool(v.allow_null))})"
        if type(v) is I.JSONValidator:
            return f"(2, {int(v.max_depth)}, {int(v.max_size)})"
        raise ValueError("unknown validator")
    dvals = _guard(lambda: [vdesc(v) for v in I.InnateImmunity(silent=True).validators])
    mb = _guard(lambda: [(s.pattern, natval(s.level), bool(s.is_regex)) for s in M.Membrane.INNATE_SIGNATURES])
    ib = _guard(lambda: [(p.pattern, natval(p.severity), bool(p.is_regex)) for p in I.InnateImmunity.DEFAULT_PATTERNS])

    def folding():
        """how substring signatures compare letters, EVALUATED on both `matches` methods with discriminating pairs:
        full case folding per code point (context free: capital sigma inside / at the end of a word, sharp s against
        SS) -> "casefold"; plain lower-casing -> "lower"; anything else -> unknown"""
        kinds = set()
        for mk in (lambda p: M.ThreatSignature(p, M.ThreatLevel.CRITICAL, "probe"),
                   lambda p: I.TLRPattern(p, I.PAMPCategory.JAILBREAK_PATTERN, "probe")):
            def hit(p, c):
                return bool(mk(p).matches(c))
            if not (hit("abc", "xABCx") and hit("ABC", "xabcx") and not hit("abc", "abd") and hit("", "x")):
                raise ValueError("not a case-insensitive substring test")
            full = hit("HACK\u03a3", "HACK\u03a3now") and hit("HACK\u03a3", "hack\u03c2") and hit("stra\u00dfe", "STRASSE") \
                and hit("STRASSE", "stra\u00dfe") and hit("\u0130x", "a\u0130xb")
            kinds.add("casefold" if full else "lower")
        if len(kinds) != 1:
            raise ValueError("the two gates fold differently")
        return kinds.pop()
    fold = _guard(folding)

    def pair(p):
        return "none" if p is None or None in p else f"some ({p[0]}, {p[1]})"

    def table(t):
        if t is None or any(x[1] is None for x in t):
            return "none"
        return "some [\n    " + ",\n    ".join(f"({_cps(p)}, {l}, {'true' if r else 'false'})" for p, l, r in t) + "]"

    def names(t):
        if t is None or any(v is None for _, v in t):
            return "none"
        return "some [" + ", ".join(f'("{n}", {v})' for n, v in t) + "]"

    def responses():
        """level -> (actions, escalate_to, rate factor x 10, enhanced logging), EVALUATED through the public API: one
        fresh gate per level, custom patterns of severity 1..5, no built-ins, a threshold nothing reaches"""
        rows = {}
        cls = type("InnateProbe", (I.InnateImmunity,), {"DEFAULT_PATTERNS": []})
        pats = [I.TLRPattern(f"zq{k}zq", I.PAMPCategory.JAILBREAK_PATTERN, "probe", False, k) for k in range(1, 6)]
        for text in ["plain", "zq1zq", "zq2zq", "zq3zq", "zq4zq", "zq5zq", "zq1zq zq2zq", "zq3zq zq3zq zq4zq"]:
            im = cls(patterns=list(pats), validators=[I.LengthValidator()], severity_threshold=99, silent=True)
            r = im.check(text).inflammation
            lvl = natval(r.level)
            f10 = r.rate_limit_factor * 10
            if lvl is None or f10 != int(f10):
                raise ValueError("response")
            row = (lvl, [str(a) for a in r.actions], [str(a) for a in r.escalate_to], int(f10), bool(r.enhanced_logging))
            if rows.setdefault(lvl, row) != row:
                raise ValueError("response is not a function of the level")
        return [rows[k] for k in sorted(rows)]
    resp = _guard(responses)

    def strs(xs):
        return "[" + ", ".join('"' + x.replace('"', "'") + '"' for x in xs) + "]"

    out = []
    out.append("/- GENERATED by harness/vf/extract/e5_gates.py from operon_ai/organelles/membrane.py and\n"
               "   operon_ai/surveillance/innate.py on every run of ./check C10 — do not edit.\n"
               "   `none` = the extractor did not recognise the shape of the code (fail closed). -/")
    out.append("namespace Operon.Gen.Gates\n")
    out.append(f"/-- seconds in `cutoff = now - <n>` of `Membrane._check_rate_limit` -/\ndef membraneWindowS : Option Nat := {_opt(window)}")
    out.append(f"def threatLevels : Option (List (String × Nat)) := {names(levels)}")
    out.append("/-- how `ThreatSignature.matches` / `TLRPattern.matches` compare letters for substring signatures, evaluated\n"
               "    on discriminating pairs: \"casefold\" = full case folding code point by code point (context free) -/\n"
               "def substringFolding : Option String := " + ("none" if fold is None else f'some "{fold}"'))
    out.append(f"def membraneDefaultThreshold : Option Nat := {_opt(thr)}")
    out.append(f"def membraneCritical : Option Nat := {_opt(crit)}")
    out.append(f"def membraneRateDefaultNone : Option Bool := {_opt(None if rate_default_none is None else str(rate_default_none).lower())}")
    out.append(f"def inflammationLevels : Option (List (String × Nat)) := {names(infl)}")
    out.append(f"def innateDefaultSevThreshold : Option Nat := {_opt(sev)}")
    out.append(f"def innateDefaultDecayMin : Option Nat := {_opt(decay)}")
    if cuts is None:
        out.append("def inflCuts : Option (Nat × Nat × Nat × Nat × Nat × Nat × Nat × Nat) := none")
    else:
        k = cuts
        out.append("/-- (acuteTotal, acuteMax, highTotal, highMax, medTotal, medCount, lowCount, errWeight) -/\n"
                   "def inflCuts : Option (Nat × Nat × Nat × Nat × Nat × Nat × Nat × Nat) := "
                   f"some ({k['acuteTotal']}, {k['acuteMax']}, {k['highTotal']}, {k['highMax']}, {k['medTotal']}, "
                   f"{k['medCount']}, {k['lowCount']}, {k['errWeight']})")
    out.append(f"/-- JSONValidator defaults (max_depth, max_size) -/\ndef jsonDefaults : Option (Nat × Nat) := {pair(jd)}")
    out.append(f"/-- LengthValidator defaults (min_length, max_length) -/\ndef lengthDefaults : Option (Nat × Nat) := {pair(ld)}")
    out.append("/-- CharacterSetValidator defaults (allow_control_chars, allow_null) -/\n"
               f"def charsetDefaults : Option (Bool × Bool) := "
               + ("none" if cd is None else f"some ({str(cd[0]).lower()}, {str(cd[1]).lower()})"))
    out.append("/-- default validator list of InnateImmunity: (kind 0=length 1=charset 2=json, a, b) -/\n"
               "def innateDefaultValidators : Option (List (Nat × Nat × Nat)) := "
               + ("none" if dvals is None else "some [" + ", ".join(dvals) + "]"))
    out.append("/-- Membrane.INNATE_SIGNATURES as (pattern code points, level, is_regex) -/\n"
               f"def membraneBuiltins : Option (List (List Nat × Nat × Bool)) := {table(mb)}")
    out.append("/-- InnateImmunity.DEFAULT_PATTERNS as (pattern code points, severity, is_regex) -/\n"
               f"def innateBuiltins : Option (List (List Nat × Nat × Bool)) := {table(ib)}")
    out.append("/-- inflammation level -> (actions, escalate_to, rate_limit_factor x 10, enhanced_logging), evaluated by\n"
               "    running `check` on one crafted input per level (not parsed: an if-cascade and a lookup table give\n"
               "    the same rows) -/\n"
               "def inflammationResponses : Option (List (Nat × List String × List String × Nat × Bool)) := "
               + ("none" if resp is None else "some [\n    " + ",\n    ".join(
                   f"({l}, {strs(a)}, {strs(e)}, {f}, {'true' if g else 'false'})" for l, a, e, f, g in resp) + "]"))
    out.append("\nend Operon.Gen.Gates")
    return "\n".join(out) + "\n"


# ----------------------------------------------------------------------------------------------------------------
# parse trees of the shipped regex signatures -> Operon/Gen/GatesRegex.lean
# ----------------------------------------------------------------------------------------------------------------
def _lean_str(x: str) -> str:
    return '"' + "".join(ch if ch.isalnum() or ch in " _=-" else "?" for ch in x)[:40] + '"'


def regex_tree(pattern: str, flags: int) -> str:
    """`re`'s own parse tree of `pattern` as a term of `Operon.Gates.Rx.Re`.  Anything outside the constructs the
    model gives a meaning to - look-arounds, back-references, possessive / atomic groups, inline flags, compile flags
    other than IGNORECASE (| UNICODE) - becomes `.unsupported`, on which no theorem about the shipped table holds."""
    import re
    try:
        import re._parser as P
        import re._constants as K
    except ImportError:                       # pragma: no cover
        import sre_parse as P
        import sre_constants as K
    if flags & ~(re.IGNORECASE | re.UNICODE) or not flags & re.IGNORECASE:
        return f".unsupported {_lean_str('flags=' + str(int(flags)))}"
    try:
        tree = P.parse(pattern, flags)
    except Exception as e:                    # noqa: BLE001
        return f".unsupported {_lean_str('parse ' + type(e).__name__)}"
    cats = {"CATEGORY_DIGIT": (".digit", "false"), "CATEGORY_NOT_DIGIT": (".digit", "true"),
            "CATEGORY_SPACE": (".space", "false"), "CATEGORY_NOT_SPACE": (".space", "true"),
            "CATEGORY_WORD": (".word", "false"), "CATEGORY_NOT_WORD": (".word", "true")}
    ats = {"AT_BOUNDARY": ".wordB", "AT_NON_BOUNDARY": ".notWordB", "AT_BEGINNING": ".bos",
           "AT_BEGINNING_STRING": ".bos", "AT_END": ".eos", "AT_END_STRING": ".eosStrict"}

    class Unsupported(Exception):
        pass

    def seq(items):
        parts = [node(op, av) for op, av in items]
        if not parts:
            return ".eps"
        out = parts[-1]
        for x in reversed(parts[:-1]):
            out = f".seq ({x}) ({out})"
        return out

    def setitem(op, av):
        if op is K.LITERAL:
            return f".lit {int(av)}"
        if op is K.RANGE:
            return f".range {int(av[0])} {int(av[1])}"
        if op is K.CATEGORY and str(av) in cats:
            c, n = cats[str(av)]
            return f".cat {c} {n}"
        raise Unsupported(f"set item {op} {av}")

    def node(op, av):
        if op is K.LITERAL:
            return f".lit {int(av)}"
        if op is K.NOT_LITERAL:
            return f".notLit {int(av)}"
        if op is K.ANY:
            return ".any"
        if op is K.IN:
            neg = bool(av) and av[0][0] is K.NEGATE
            items = [setitem(o, a) for o, a in (av[1:] if neg else av)]
            return f".set {'true' if neg else 'false'} [{', '.join(items)}]"
        if op is K.BRANCH:
            alts = [seq(a) for a in av[1]]
            out = alts[-1]
            for x in reversed(alts[:-1]):
                out = f".alt ({x}) ({out})"
            return out
        if op is K.SUBPATTERN:
            group, add, dele, body = av
            if add or dele:
                raise Unsupported("inline flags")
            return seq(body)
        if op in (K.MAX_REPEAT, K.MIN_REPEAT):
            lo, hi, body = av
            mx = "none" if hi == K.MAXREPEAT else f"(some {int(hi)})"
            return f".rep {int(lo)} {mx} ({seq(body)})"
        if op is K.AT and str(av) in ats:
            return f".at {ats[str(av)]}"
        raise Unsupported(str(op))
    try:
        return seq(tree)
    except Unsupported as e:
        return f".unsupported {_lean_str(str(e))}"
    except Exception as e:                    # noqa: BLE001
        return f".unsupported {_lean_str('walk ' + type(e).__name__)}"


def generate_regex(membrane_mod, innate_mod) -> str:
    """(pattern code points, parse tree) for every regex signature of `Membrane.INNATE_SIGNATURES` and of
    `InnateImmunity.DEFAULT_PATTERNS`, read from the imported classes (the compiled pattern object's own `.pattern` and
    `.flags`: what `matches` really searches with)"""
    def rows(sigs):
        out = []
        for s in sigs:
            if not getattr(s, "is_regex", False):
                continue
            c = getattr(s, "_compiled", None)
            if c is None:
                tree = '.unsupported "not compiled"'
            elif c.pattern != s.pattern:
                tree = '.unsupported "compiled pattern differs from the pattern attribute"'
            else:
                tree = regex_tree(c.pattern, int(c.flags))
            out.append(f"({_cps(s.pattern)}, {tree})")
        return "[\n    " + ",\n    ".join(out) + "]" if out else "[]"
    mrows = _guard(lambda: rows(membrane_mod.Membrane.INNATE_SIGNATURES))
    irows = _guard(lambda: rows(innate_mod.InnateImmunity.DEFAULT_PATTERNS))
    bad = '[([], .unsupported "table not readable")]'
    return ("/- GENERATED by harness/vf/extract/e5_gates.py (generate_regex) from the imported classes on every run of\n"
            "   ./check C10 — do not edit.  Parse trees (from `re`'s own parser) of the regex signatures of the two shipped\n"
            "   tables; `.unsupported` = a construct / compile flag the model gives no meaning to (fail closed). -/\n"
            "import Operon.Model.Regex\n"
            "namespace Operon.Gen.Gates\nopen Operon.Gates.Rx\n\n"
            "/-- regex signatures of Membrane.INNATE_SIGNATURES, in table order -/\n"
            f"def membraneRegexes : List (List Nat × Re) := {mrows or bad}\n\n"
            "/-- regex patterns of InnateImmunity.DEFAULT_PATTERNS, in table order -/\n"
            f"def innateRegexes : List (List Nat × Re) := {irows or bad}\n\n"
            "end Operon.Gen.Gates\n")
