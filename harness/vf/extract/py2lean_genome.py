"""py2lean (genome): translate the Python AST of the Genome methods that carry the authorisation logic into Lean
definitions over the C20 model's types, regenerated into lean/Operon/Gen/GenomeTranslated.lean on every run.

Translated: `add_gene`, `mutate`, `rollback_mutation`, `set_expression`, `silence_gene`, `activate_gene` as
    Tr.<name> (env : Env ν) (k : Nat) (g : Genome ν) <params> : MRes ν
(`g` = self, `k` = number of approval-callback calls so far, result = genome after / return value / k after, or
`raised`), and from `replicate` the gate: the settings the child is constructed with (`Tr.replicate_child_gate`) and
the loop that applies the requested mutations through the CHILD's `mutate` (`Tr.replicate_mutations`).

Supported subset — nothing more:
  * `X in self._genes` / `not in`, `self._genes[X]` (only for an X whose presence a dominating
    `if X not in self._genes: return ...` established, and before any later write to `_genes`),
    `self._genes[K] = gene` (-> `putGeneAt`), `self._expression[K] = ExpressionState(level=…, …)` (-> `putLevel`; the
    other fields are dropped and must be call-free apart from `datetime.now()`), `self._mutations.append(m)`;
  * construction of `Gene(...)` / `Mutation(...)` (positional or keyword; dataclass defaults; `description` /
    `timestamp` dropped), attribute reads of gene / mutation locals, `mutation.approved = <bool | callback call>`;
  * `mutation.approved = self.on_mutation(mutation)` under a dominating `if self.on_mutation:` (or `is not None`) ->
    the adversary `env.adv cb k gene orig new reason` with its three outcomes (truthy / falsy / raises), k + 1;
  * `if / elif / else`, `and` / `or` / `not`, `==` on names and levels, early `return <bool>`, `return self.<m>(…)`
    for a translated method, string literals only where a mutation reason is expected ("" / "rollback" /
    "replication_mutation" / "random_mutation") or as dropped free text;
  * the search idiom `for m in reversed(self._mutations): if <cond m>: return <expr m>` followed by `return <bool>`;
  * console prints, `logger.*(...)` / `logging.*(...)` calls (logger = a module-level `logging.getLogger(...)`),
    docstrings and `if …:` blocks consisting only of those are dropped — provided their arguments are pure formatting
    (no calls except len/str/repr/format/type/sorted/list);
  * module-level and class-level constants (`_TAG`, `self._ROLLBACK_REASON`, `_GENE_FIELDS`) are resolved to their
    VALUES (from the AST when literal, otherwise from the imported module handed in by the harness);
  * private helpers are resolved through the call graph and INLINED: a predicate used as `if [not] self._h(args):`
    is inlined with every `return e` of the helper continuing into the corresponding branch of the caller (early
    returns, callback call and `mutation.approved = …` inside the helper included; parameters are bound by reference);
    a pure builder `self._h(args)` / `Genome._h(args)` whose body is a single `return <expr>` is inlined as that
    expression (static methods included);
  * record update spelled as `Gene(name=g.name, …)`, as `Gene(**d)` for a dict `d` built by a literal or by
    `{n: getattr(g, n) for n in <constant tuple of field names>}` and item assignments, or as
    `dataclasses.replace(g, value=v)` — all the same structure literal;
  * extra trailing parameters with a constant default are bound to that default (the modelled call path);
  * new methods, `__repr__`, annotations and docstrings are not looked at.
`replicate`: the keyword arguments `allow_mutations` / `on_mutation` / `mutation_rate` / `genes` of the `Genome(...)`
constructor call (any other argument but `silent` leaves the subset), the loop `for a, b in mutations.items(): child.mutate(a, b, "replication_mutation")`, and a scan that
the method writes nothing but locals, `child._generation`, `child._parent_hash`, `child._expression[...]`, and calls
nothing on the child but `mutate` and on self but `get_hash` (the random pass's arithmetic is outside the subset; that
it goes through `child.mutate(…, "random_mutation")` is part of the scan).
Anything else: the definition becomes `untranslatable "<construct (line)>"` (or `none` / a poisoned loop for the two
replicate facts), which makes its agreement theorem `c20_translation_agrees_<name>` fail (fail closed).
"""
from __future__ import annotations

import ast
import copy
from pathlib import Path

CLASS = "Genome"
REL = "operon_ai/state/genome.py"
METHODS = ["add_gene", "mutate", "rollback_mutation", "set_expression", "silence_gene", "activate_gene"]
FIXED = {
    "add_gene": [("gene", "gene")],
    "mutate": [("gene_name", "nat"), ("new_value", "val"), ("reason", "reason")],
    "rollback_mutation": [("gene_name", "nat")],
    "set_expression": [("gene_name", "nat"), ("level", "level"), ("modifier", "text")],
    "silence_gene": [("gene_name", "nat"), ("reason", "text")],
    "activate_gene": [("gene_name", "nat"), ("reason", "text")],
}
LEAN_T = {"nat": "Nat", "val": "ν", "bool": "Bool", "gene": "Gene ν", "mut": "Mut ν", "level": "Level",
          "reason": "Reason", "text": "Unit", "gtype": "GType"}
REASONS = {"": "Reason.user", "rollback": "Reason.rollback", "replication_mutation": "Reason.replication",
           "random_mutation": "Reason.random", "add_gene": "Reason.readd"}
LEVELS = {"SILENCED": "Level.silenced", "LOW": "Level.low", "NORMAL": "Level.normal", "HIGH": "Level.high",
          "OVEREXPRESSED": "Level.over"}
GTYPES = {"STRUCTURAL": "GType.structural", "REGULATORY": "GType.regulatory", "HOUSEKEEPING": "GType.housekeeping",
          "CONDITIONAL": "GType.conditional", "DORMANT": "GType.dormant"}
GENE_FIELDS = [("name", "name", "nat"), ("value", "value", "val"), ("gene_type", "gtype", "gtype"),
               ("description", None, "text"), ("required", "required", "bool"),
               ("default_expression", "defExpr", "level")]
GENE_DEFAULT = {"gene_type": "GType.structural", "description": "()", "required": "false",
                "default_expression": "Level.normal"}
MUT_FIELDS = [("gene_name", "gene", "nat"), ("original_value", "orig", "val"), ("new_value", "new", "val"),
              ("timestamp", None, "text"), ("reason", "reason", "reason"), ("approved", "approved", "bool")]
MUT_DEFAULT = {"timestamp": "()", "reason": "Reason.user", "approved": "false"}


class Unsupported(Exception):
    pass


def bad(node, what):
    raise Unsupported(f"{what} (line {getattr(node, 'lineno', '?')})")


def is_self_attr(n, attr=None):
    return (isinstance(n, ast.Attribute) and isinstance(n.value, ast.Name) and n.value.id == "self"
            and (attr is None or n.attr == attr))


def is_print(st):
    return (isinstance(st, ast.Expr) and isinstance(st.value, ast.Call) and isinstance(st.value.func, ast.Name)
            and st.value.func.id == "print" and pure_args(st.value)) or is_log(st)


PURE_FUNCS = {"len", "str", "repr", "format", "type", "sorted", "list", "int", "bool"}
LOGGERS: set = set()          # names bound at module level to logging.getLogger(...); filled per source


def pure_args(call):
    for a in list(call.args) + [k.value for k in call.keywords]:
        for sub in ast.walk(a):
            if isinstance(sub, ast.Call) and not (isinstance(sub.func, ast.Name) and sub.func.id in PURE_FUNCS):
                return False
    return True


def is_log(st):
    if not (isinstance(st, ast.Expr) and isinstance(st.value, ast.Call) and isinstance(st.value.func, ast.Attribute)):
        return False
    root = st.value.func.value
    return isinstance(root, ast.Name) and (root.id in LOGGERS or root.id == "logging") and pure_args(st.value)


def is_doc(st):
    return isinstance(st, ast.Expr) and isinstance(st.value, ast.Constant) and isinstance(st.value.value, str)


def droppable(stmts):
    return all(is_print(s) or is_doc(s) or isinstance(s, ast.Pass)
               or (isinstance(s, ast.If) and droppable(s.body) and droppable(s.orelse)) for s in stmts)


def returns(stmts):
    if not stmts:
        return False
    last = stmts[-1]
    if isinstance(last, ast.Return):
        return True
    if isinstance(last, ast.If):
        return returns(last.body) and returns(last.orelse)
    return False


def paren(c):
    return c if (" " not in c or c.startswith("(") and c.endswith(")")) else f"({c})"


def param_type(method, name, ann):
    src = ast.unparse(ann).replace(" ", "") if ann is not None else None
    if src == "Gene":
        return "gene"
    if src == "Any":
        return "val"
    if src == "ExpressionLevel":
        return "level"
    if src == "str":
        if name == "gene_name":
            return "nat"
        if method == "mutate" and name == "reason":
            return "reason"
        return "text"
    return None


def literal(node):
    """python value of a literal constant / tuple of literal constants, else raises ValueError"""
    if isinstance(node, ast.Constant) and isinstance(node.value, (str, bool, int)) or \
            (isinstance(node, ast.Constant) and node.value is None):
        return node.value
    if isinstance(node, ast.Tuple):
        return tuple(literal(e) for e in node.elts)
    raise ValueError


class _Resume(ast.stmt):
    """synthetic statement: the end of a helper that was called as a statement — continue in the caller's scope"""
    _fields = ()

    def __init__(self, caller_env, depth):
        super().__init__()
        self.caller_env, self.depth = caller_env, depth


class Translator:
    def __init__(self, src: str, module=None):
        tree = ast.parse(src)
        cls = [n for n in tree.body if isinstance(n, ast.ClassDef) and n.name == CLASS]
        if len(cls) != 1:
            raise Unsupported("class Genome not found exactly once")
        self.fns = {n.name: n for n in cls[0].body if isinstance(n, ast.FunctionDef)}
        self.calls: dict[str, set] = {}
        self.cur = None
        self.depth = 0
        # constants: literal ones from the AST, computed ones from the imported module (same source)
        self.mconst, self.cconst = {}, {}
        LOGGERS.clear()
        for scope, body, obj in ((self.mconst, tree.body, module), (self.cconst, cls[0].body,
                                                                     getattr(module, CLASS, None))):
            for n in body:
                if isinstance(n, ast.Assign) and len(n.targets) == 1 and isinstance(n.targets[0], ast.Name):
                    name = n.targets[0].id
                    if scope is self.mconst and isinstance(n.value, ast.Call) \
                            and ast.unparse(n.value.func) in ("logging.getLogger", "getLogger"):
                        LOGGERS.add(name)
                        continue
                    try:
                        scope[name] = literal(n.value)
                    except ValueError:
                        v = getattr(obj, name, None) if obj is not None else None
                        if isinstance(v, (str, bool)) or (isinstance(v, tuple) and all(isinstance(x, str) for x in v)):
                            scope[name] = v

    def const_of(self, n):
        """(found, value) for a name / self.X / Genome.X that denotes a constant"""
        if isinstance(n, ast.Name) and n.id in self.mconst:
            return True, self.mconst[n.id]
        if isinstance(n, ast.Attribute) and isinstance(n.value, ast.Name) and n.value.id in ("self", CLASS, "cls") \
                and n.attr in self.cconst:
            return True, self.cconst[n.attr]
        return False, None

    def var(self, name):
        return f"v_{name}" if self.depth == 0 else f"h{self.depth}_{name}"

    def helper(self, call):
        """the FunctionDef of a private helper called as self.h(...) / Genome.h(...), with its parameter names"""
        f = call.func
        if not (isinstance(f, ast.Attribute) and isinstance(f.value, ast.Name) and f.value.id in ("self", CLASS)):
            return None
        fn = self.fns.get(f.attr)
        if fn is None or f.attr in METHODS:
            return None
        decos = [ast.unparse(d) for d in fn.decorator_list]
        a = fn.args
        if a.vararg or a.kwarg or a.kwonlyargs or a.posonlyargs or any(d != "staticmethod" for d in decos):
            bad(call, f"helper {f.attr}: unsupported signature")
        params = [x.arg for x in (a.args if "staticmethod" in decos else a.args[1:])]
        if call.keywords or len(call.args) != len(params):
            bad(call, f"helper {f.attr}: arguments")
        if self.depth >= 4:
            bad(call, f"helper nesting too deep at {f.attr}")
        return fn, params

    # ------------------------------------------------------------------------------------------------ signatures
    def sig(self, m):
        fn = self.fns.get(m)
        if fn is None:
            raise Unsupported(f"method {m} not found")
        a = fn.args
        if a.vararg or a.kwarg or a.kwonlyargs or a.posonlyargs or fn.decorator_list:
            bad(fn, f"signature of {m}")
        ps = []
        want = FIXED[m]
        self.extra = {}
        ndef = len(a.defaults)
        args = a.args[1:]
        for i, arg in enumerate(args):
            if i >= len(want):
                # a new trailing parameter: the modelled call path leaves it at its default
                di = i - (len(args) - ndef)
                if di < 0:
                    bad(fn, f"new parameter {arg.arg} of {m} without a default")
                try:
                    literal(a.defaults[di])
                except ValueError:
                    bad(fn, f"default of the new parameter {arg.arg} of {m} is not a constant")
                self.extra[arg.arg] = a.defaults[di]
                continue
            t = param_type(m, arg.arg, arg.annotation)
            if t is None:
                bad(fn, f"parameter {arg.arg} of {m}: unsupported annotation")
            ps.append((arg.arg, t))
        if [t for _, t in ps] != [t for _, t in want]:
            bad(fn, f"signature of {m} differs from the modelled one")
        return ps

    # ------------------------------------------------------------------------------------------------ expressions
    def lit(self, n, want):
        """string literal where `want` is expected"""
        if want == "reason":
            if n.value not in REASONS:
                bad(n, f"string {n.value!r} where a mutation reason is expected")
            return REASONS[n.value], "reason"
        if want == "text":
            return "()", "text"
        bad(n, "string literal")

    def gene_fields_of(self, code):
        return {py: (("()" if lean is None else f"{code}.{lean}"), ft) for py, lean, ft in GENE_FIELDS}

    def build(self, n, ctor, given_codes):
        """structure literal from {python field: (code, type)}"""
        table, dflt = (GENE_FIELDS, GENE_DEFAULT) if ctor == "gene" else (MUT_FIELDS, MUT_DEFAULT)
        names = [py for py, _, _ in table]
        for k_ in given_codes:
            if k_ not in names:
                bad(n, f"unknown field {k_}")
        vals = []
        for py, lean, ft in table:
            if py in given_codes:
                c, t = given_codes[py]
                if t != ft:
                    bad(n, f"field {py}: a {t} where a {ft} is expected")
            elif py in dflt:
                c = dflt[py]
            else:
                bad(n, f"field {py} missing")
            if lean is not None:
                vals.append(paren(c))
        return "⟨" + ", ".join(vals) + "⟩", ctor

    def ex(self, n, env, want=None):
        found, cv = self.const_of(n)
        if found and not (isinstance(n, ast.Name) and n.id in env["locals"]):
            if isinstance(cv, (str, bool)):
                return self.ex(ast.copy_location(ast.Constant(cv), n), env, want)
            bad(n, f"constant {ast.unparse(n)} of type {type(cv).__name__} used as a value")
        if isinstance(n, ast.Name) and n.id in env["locals"] and env["locals"][n.id][1] == "const":
            return self.ex(env["locals"][n.id][0], env, want)
        if isinstance(n, ast.Name) and n.id in env["locals"] and env["locals"][n.id][1] == "genedict":
            bad(n, f"dict {n.id} used as a value")
        if isinstance(n, ast.Call):
            fsrc = ast.unparse(n.func)
            # Gene(**d)
            if fsrc == "Gene" and not n.args and len(n.keywords) == 1 and n.keywords[0].arg is None \
                    and isinstance(n.keywords[0].value, ast.Name) \
                    and env["locals"].get(n.keywords[0].value.id, (None, None))[1] == "genedict":
                return self.build(n, "gene", dict(env["locals"][n.keywords[0].value.id][0]))
            # dataclasses.replace(g, field=…)
            if fsrc in ("replace", "dataclasses.replace") and len(n.args) == 1:
                c0, t0 = self.ex(n.args[0], env)
                if t0 != "gene":
                    bad(n, f"replace on a {t0}")
                given = self.gene_fields_of(paren(c0))
                for kw in n.keywords:
                    if kw.arg is None or kw.arg not in given:
                        bad(n, f"replace: field {kw.arg}")
                    given[kw.arg] = self.ex(kw.value, env, want=given[kw.arg][1])
                return self.build(n, "gene", given)
            # pure builder helper: body is a single `return <expr>`
            h = self.helper(n)
            if h is not None:
                fn, params = h
                stmts = [x for x in fn.body if not is_doc(x)]
                if len(stmts) != 1 or not isinstance(stmts[0], ast.Return) or stmts[0].value is None:
                    bad(n, f"helper {fn.name} used as a value is not a single return")
                env2 = {"locals": {}, "present": {}, "cb": None, "retk": []}
                for pn, a in zip(params, n.args):
                    env2["locals"][pn] = self.ex(a, env)
                self.depth += 1
                try:
                    return self.ex(stmts[0].value, env2, want)
                finally:
                    self.depth -= 1
        if isinstance(n, ast.Constant):
            if isinstance(n.value, bool):
                return ("true" if n.value else "false"), "bool"
            if isinstance(n.value, str):
                return self.lit(n, want)
            bad(n, f"constant {n.value!r}")
        if isinstance(n, ast.Name):
            if n.id in env["locals"]:
                return env["locals"][n.id]
            bad(n, f"name {n.id}")
        if isinstance(n, ast.Subscript) and is_self_attr(n.value, "_genes"):
            key = ast.unparse(n.slice)
            if key not in env["present"]:
                bad(n, f"self._genes[{key}] without a dominating presence test")
            return env["present"][key], "gene"
        if isinstance(n, ast.Attribute) and isinstance(n.value, ast.Subscript) and is_self_attr(n.value.value, "_genes"):
            c, _ = self.ex(n.value, env)
            for py, lean, ft in GENE_FIELDS:
                if py == n.attr:
                    return ("()" if lean is None else f"{c}.{lean}"), ft
            bad(n, f"attribute {ast.unparse(n)}")
        if isinstance(n, ast.Attribute):
            if is_self_attr(n, "allow_mutations"):
                return "g.allow", "bool"
            if isinstance(n.value, ast.Name) and n.value.id == "ExpressionLevel" and n.attr in LEVELS:
                return LEVELS[n.attr], "level"
            if isinstance(n.value, ast.Name) and n.value.id == "GeneType" and n.attr in GTYPES:
                return GTYPES[n.attr], "gtype"
            if isinstance(n.value, ast.Name) and n.value.id in env["locals"]:
                c, t = env["locals"][n.value.id]
                table = GENE_FIELDS if t == "gene" else MUT_FIELDS if t == "mut" else None
                if table:
                    for py, lean, ft in table:
                        if py == n.attr:
                            return ("()" if lean is None else f"{c}.{lean}"), ft
            bad(n, f"attribute {ast.unparse(n)}")
        if isinstance(n, ast.UnaryOp) and isinstance(n.op, ast.Not):
            c, t = self.ex(n.operand, env)
            if t != "bool":
                bad(n, f"not on a {t}")
            return f"!{paren(c)}", "bool"
        if isinstance(n, ast.BoolOp):
            parts = []
            for v in n.values:
                c, t = self.ex(v, env)
                if t != "bool":
                    bad(n, f"and/or on a {t}")
                parts.append(paren(c))
            return "(" + (" && " if isinstance(n.op, ast.And) else " || ").join(parts) + ")", "bool"
        if isinstance(n, ast.Compare) and len(n.ops) == 1:
            op, l, r = n.ops[0], n.left, n.comparators[0]
            if isinstance(op, (ast.In, ast.NotIn)) and is_self_attr(r, "_genes"):
                c, t = self.ex(l, env)
                if t != "nat":
                    bad(n, f"membership of a {t} in _genes")
                core = f"(findGene g.genes {paren(c)}).isSome"
                return (core if isinstance(op, ast.In) else f"!{core}"), "bool"
            if isinstance(op, (ast.Eq, ast.NotEq)):
                (cl, tl), (cr, tr) = self.ex(l, env), self.ex(r, env)
                if tl != tr or tl not in ("nat", "level", "gtype", "bool", "reason"):
                    bad(n, f"== on {tl}/{tr}")
                core = f"({paren(cl)} == {paren(cr)})"
                return (core if isinstance(op, ast.Eq) else f"!{core}"), "bool"
            bad(n, f"comparison {ast.unparse(n)}")
        if isinstance(n, ast.Call) and isinstance(n.func, ast.Name) and n.func.id in ("Gene", "Mutation"):
            table, ctor = (GENE_FIELDS, "gene") if n.func.id == "Gene" else (MUT_FIELDS, "mut")
            given = {}
            if len(n.args) > len(table):
                bad(n, "too many positional arguments")
            for (py, _, _), a in zip(table, n.args):
                given[py] = a
            spread = {}
            for kw in n.keywords:
                if kw.arg is None and ctor == "gene":
                    # Gene(..., **fields): a field dict by name, as a literal, or as a comprehension over a constant tuple
                    if isinstance(kw.value, ast.Name) and env["locals"].get(kw.value.id, (None, None))[1] == "genedict":
                        more = dict(env["locals"][kw.value.id][0])
                    elif isinstance(kw.value, (ast.Dict, ast.DictComp)):
                        more = self.field_dict(kw.value, env, n)
                    else:
                        bad(n, f"** of {ast.unparse(kw.value)[:40]} in {n.func.id}(...)")
                    for k_ in more:
                        if k_ in spread or k_ in given:
                            bad(n, f"field {k_} given twice to {n.func.id}")
                    spread.update(more)
                    continue
                if kw.arg is None or kw.arg in given or kw.arg in spread or kw.arg not in [py for py, _, _ in table]:
                    bad(n, f"keyword {kw.arg} of {n.func.id}")
                given[kw.arg] = kw.value
            ftype = {py: ft for py, _, ft in table}
            codes = {py: self.ex(a, env, want=ftype[py]) for py, a in given.items()}
            codes.update(spread)
            return self.build(n, ctor, codes)
        bad(n, f"expression {type(n).__name__}: {ast.unparse(n)[:60]}")

    def field_dict(self, v, env, st):
        """{Gene field: (code, type)} for a dict literal with constant keys or `{n: getattr(g, n) for n in FIELDS}`"""
        d = {}
        if isinstance(v, ast.Dict):
            for k_, e_ in zip(v.keys, v.values):
                if k_ is None:
                    # {**other, ...}: later entries override earlier ones, as in Python
                    d.update(self.all_fields_dict(e_, env, st))
                    continue
                ok_, kv = (True, k_.value) if isinstance(k_, ast.Constant) else self.const_of(k_)
                if not ok_ or not isinstance(kv, str):
                    bad(st, "dict key is not a constant string")
                ft = {py: f_ for py, _, f_ in GENE_FIELDS}.get(kv)
                if ft is None:
                    bad(st, f"dict key {kv!r} is not a Gene field")
                d[kv] = self.ex(e_, env, want=ft)
        else:
            g0 = v.generators
            if len(g0) != 1 or g0[0].ifs or g0[0].is_async or not isinstance(g0[0].target, ast.Name):
                bad(st, "dict comprehension shape")
            cvn = g0[0].target.id
            ok_, names = self.const_of(g0[0].iter)
            if not ok_:
                try:
                    names = literal(g0[0].iter)
                except ValueError:
                    bad(st, f"dict comprehension over {ast.unparse(g0[0].iter)}")
            if not (isinstance(names, tuple) and all(isinstance(x, str) for x in names)):
                bad(st, "dict comprehension over a non-constant")
            val = v.value
            if not (isinstance(v.key, ast.Name) and v.key.id == cvn and isinstance(val, ast.Call)
                    and ast.unparse(val.func) == "getattr" and len(val.args) == 2
                    and isinstance(val.args[1], ast.Name) and val.args[1].id == cvn):
                bad(st, "dict comprehension is not {n: getattr(g, n) for n in FIELDS}")
            c0, t0 = self.ex(val.args[0], env)
            if t0 != "gene":
                bad(st, f"getattr on a {t0}")
            allf = self.gene_fields_of(paren(c0))
            for nm_ in names:
                if nm_ not in allf:
                    bad(st, f"{nm_!r} is not a Gene field")
                d[nm_] = allf[nm_]
        return d

    def all_fields_dict(self, e_, env, st):
        """the operand of a `**` inside a dict display: a field dict (local / literal / comprehension) or ALL fields of a
        gene (`vars(g)`, `g.__dict__`, `asdict(g)`, `dataclasses.asdict(g)`)"""
        if isinstance(e_, ast.Name) and env["locals"].get(e_.id, (None, None))[1] == "genedict":
            return dict(env["locals"][e_.id][0])
        if isinstance(e_, (ast.Dict, ast.DictComp)):
            return self.field_dict(e_, env, st)
        gene_expr = None
        if isinstance(e_, ast.Call) and ast.unparse(e_.func) in ("vars", "asdict", "dataclasses.asdict") \
                and len(e_.args) == 1 and not e_.keywords:
            gene_expr = e_.args[0]
        elif isinstance(e_, ast.Attribute) and e_.attr == "__dict__":
            gene_expr = e_.value
        if gene_expr is not None:
            c0, t0 = self.ex(gene_expr, env)
            if t0 != "gene":
                bad(st, f"all fields of a {t0}")
            return self.gene_fields_of(paren(c0))
        bad(st, f"dict unpacking of {ast.unparse(e_)[:40]}")

    def cb_test(self, test):
        """`self.on_mutation` / `self.on_mutation is not None` -> True; `not …` / `is None` -> False; else None"""
        if is_self_attr(test, "on_mutation"):
            return True
        if isinstance(test, ast.Compare) and len(test.ops) == 1 and is_self_attr(test.left, "on_mutation") \
                and isinstance(test.comparators[0], ast.Constant) and test.comparators[0].value is None:
            if isinstance(test.ops[0], ast.IsNot):
                return True
            if isinstance(test.ops[0], ast.Is):
                return False
        if isinstance(test, ast.UnaryOp) and isinstance(test.op, ast.Not):
            inner = self.cb_test(test.operand)
            return None if inner is None else not inner
        return None

    def expr_state_level(self, n, env):
        if not (isinstance(n, ast.Call) and isinstance(n.func, ast.Name) and n.func.id == "ExpressionState"):
            bad(n, "value stored in _expression is not an ExpressionState(...)")
        level = LEVELS["NORMAL"]
        names = ["level", "modified_at", "modifier"]
        given = dict(zip(names, n.args))
        for kw in n.keywords:
            if kw.arg not in names or kw.arg in given:
                bad(n, f"keyword {kw.arg} of ExpressionState")
            given[kw.arg] = kw.value
        for key, v in given.items():
            if key == "level":
                c, t = self.ex(v, env)
                if t != "level":
                    bad(n, f"ExpressionState.level: a {t}")
                level = c
            else:       # dropped fields: no calls except datetime.now()
                for sub in ast.walk(v):
                    if isinstance(sub, ast.Call) and ast.unparse(sub) != "datetime.now()":
                        bad(sub, "call inside a dropped ExpressionState field")
        return level

    # ------------------------------------------------------------------------------------------------ statements
    def ret(self, env, b):
        return f"MRes.done g {b} k"

    def body(self, stmts, env, ind):
        pad = " " * ind
        if not stmts:
            bad(self.fns[self.cur], "method may end without a return")
        st, rest = stmts[0], stmts[1:]
        if isinstance(st, _Resume):
            # back in the caller: its locals, the callback binding of the current path; lookups bound before the call
            # are dropped (the helper may have written the gene table)
            env2 = copy.deepcopy(st.caller_env)
            env2["present"] = {}
            env2["cb"] = env.get("cb")
            self.depth = st.depth
            return self.body(rest, env2, ind)
        if is_print(st) or is_doc(st) or isinstance(st, ast.Pass):
            return self.body(rest, env, ind)
        # `self._helper(args)` as a STATEMENT: a private helper without a result (no `return <value>`, no early return) is
        # inlined, its parameters bound to the caller's values, the caller continues after its last statement
        if isinstance(st, ast.Expr) and isinstance(st.value, ast.Call) and not is_print(st) \
                and self.helper(st.value) is not None:
            fn, params = self.helper(st.value)
            hb = [x for x in fn.body if not is_doc(x)]
            if hb and isinstance(hb[-1], ast.Return) and (hb[-1].value is None or (
                    isinstance(hb[-1].value, ast.Constant) and hb[-1].value.value is None)):
                hb = hb[:-1]
            if any(isinstance(x, ast.Return) for s_ in hb for x in ast.walk(s_)):
                bad(st, f"helper {fn.name} called as a statement returns early / returns a value")
            env2 = {"locals": {}, "present": dict(env["present"]), "cb": env.get("cb"), "retk": []}
            for pn, a in zip(params, st.value.args):
                if isinstance(a, ast.Name) and a.id in env["locals"]:
                    env2["locals"][pn] = env["locals"][a.id]          # by reference (same Lean variable)
                else:
                    env2["locals"][pn] = self.ex(a, env)
            saved = self.depth
            self.depth += 1
            try:
                return self.body(hb + [_Resume(env, saved)] + rest, env2, ind)
            finally:
                self.depth = saved
        if isinstance(st, ast.If):
            if droppable(st.body) and droppable(st.orelse):
                for sub in ast.walk(st.test):
                    if isinstance(sub, ast.Call):
                        bad(sub, "call in the test of a dropped if")
                return self.body(rest, env, ind)
            # presence guard
            t = st.test
            if (isinstance(t, ast.Compare) and len(t.ops) == 1 and isinstance(t.ops[0], ast.NotIn)
                    and is_self_attr(t.comparators[0], "_genes") and returns(st.body) and not st.orelse):
                c, ty = self.ex(t.left, env)
                if ty != "nat":
                    bad(t, f"membership of a {ty}")
                var = "in_genes_" + "".join(ch if ch.isalnum() else "_" for ch in ast.unparse(t.left))
                env2 = copy.deepcopy(env)
                env2["present"][ast.unparse(t.left)] = var
                return (f"{pad}match findGene g.genes {paren(c)} with\n"
                        f"{pad}| none =>\n{self.body(st.body, copy.deepcopy(env), ind + 2)}\n"
                        f"{pad}| some {var} =>\n{self.body(rest, env2, ind + 2)}")
            then_b = st.body + ([] if returns(st.body) else rest)
            else_b = st.orelse + ([] if (st.orelse and returns(st.orelse)) else rest)
            # `if X in self._genes:` / `if X in self._genes and REST:` -> the lookup is bound in the then-branch
            # (`self._genes[X]` may be read there); the else-branch is taken when the gene is missing or REST fails
            def is_member(x):
                return (isinstance(x, ast.Compare) and len(x.ops) == 1 and isinstance(x.ops[0], ast.In)
                        and is_self_attr(x.comparators[0], "_genes"))
            mem, more = None, None
            if is_member(t):
                mem, more = t, None
            elif isinstance(t, ast.BoolOp) and isinstance(t.op, ast.And) and any(is_member(v_) for v_ in t.values) \
                    and not any(isinstance(x, ast.Call) for x in ast.walk(t)):
                # conjuncts are call-free (no side effects), so their order does not matter
                mem = next(v_ for v_ in t.values if is_member(v_))
                others = [v_ for v_ in t.values if v_ is not mem]
                more = others[0] if len(others) == 1 else ast.BoolOp(op=ast.And(), values=others)
            if mem is not None and any(isinstance(x, ast.Subscript) and is_self_attr(x.value, "_genes")
                                       and ast.unparse(x.slice) == ast.unparse(mem.left)
                                       for s_ in st.body for x in ast.walk(s_)):
                c, ty = self.ex(mem.left, env)
                if ty != "nat":
                    bad(t, f"membership of a {ty}")
                var = "in_genes_" + "".join(ch if ch.isalnum() else "_" for ch in ast.unparse(mem.left))
                env2 = copy.deepcopy(env)
                env2["present"][ast.unparse(mem.left)] = var
                if more is None:
                    inner_code = self.body(then_b, env2, ind + 2)
                else:
                    synth = ast.copy_location(ast.If(test=more, body=then_b, orelse=else_b), st)
                    inner_code = self.body([synth], env2, ind + 2)
                return (f"{pad}match findGene g.genes {paren(c)} with\n"
                        f"{pad}| none =>\n{self.body(else_b, copy.deepcopy(env), ind + 2)}\n"
                        f"{pad}| some {var} =>\n{inner_code}")
            # `if [not] self._helper(args):` -> inline the helper, its returns continue into the two branches
            neg, core = False, t
            while isinstance(core, ast.UnaryOp) and isinstance(core.op, ast.Not):
                neg, core = not neg, core.operand
            if isinstance(core, ast.Call) and self.helper(core) is not None:
                fn, params = self.helper(core)
                env2 = {"locals": {}, "present": dict(env["present"]), "cb": env.get("cb"),
                        "retk": env.get("retk", []) + [((else_b, then_b) if neg else (then_b, else_b), copy.deepcopy(env))]}
                for pn, a in zip(params, core.args):
                    if isinstance(a, ast.Name) and a.id in env["locals"]:
                        env2["locals"][pn] = env["locals"][a.id]          # by reference (same Lean variable)
                    else:
                        env2["locals"][pn] = self.ex(a, env)
                self.depth += 1
                try:
                    return self.body(list(fn.body), env2, ind)
                finally:
                    self.depth -= 1
            # `if A and B:` / `if A or B:` (also under `not`) where a conjunct tests self.on_mutation: nested ifs
            def mentions_cb(x):
                return any(is_self_attr(y, "on_mutation") for y in ast.walk(x))
            if isinstance(core, ast.BoolOp) and mentions_cb(core) and self.cb_test(t) is None:
                tb, eb = (else_b, then_b) if neg else (then_b, else_b)
                first, more = core.values[0], core.values[1:]
                tail = more[0] if len(more) == 1 else ast.BoolOp(op=core.op, values=more)
                if isinstance(core.op, ast.And):
                    inner = ast.If(test=tail, body=tb, orelse=eb)
                    synth = ast.If(test=first, body=[inner], orelse=eb)
                else:
                    inner = ast.If(test=tail, body=tb, orelse=eb)
                    synth = ast.If(test=first, body=tb, orelse=[inner])
                for x in (inner, synth):
                    ast.copy_location(x, st)
                return self.body([synth], env, ind)
            cbt = self.cb_test(t)
            if cbt is not None:
                some_b, none_b = (then_b, else_b) if cbt else (else_b, then_b)
                env_some = copy.deepcopy(env)
                env_some["cb"] = "cb"
                return (f"{pad}match g.cb with\n"
                        f"{pad}| some cb =>\n{self.body(some_b, env_some, ind + 2)}\n"
                        f"{pad}| none =>\n{self.body(none_b, copy.deepcopy(env), ind + 2)}")
            c, ty = self.ex(t, env)
            if ty != "bool":
                bad(t, f"if on a {ty}")
            return (f"{pad}if {paren(c)} then\n{self.body(then_b, copy.deepcopy(env), ind + 2)}\n"
                    f"{pad}else\n{self.body(else_b, copy.deepcopy(env), ind + 2)}")
        if isinstance(st, ast.Return) and env.get("retk"):
            # return from an inlined predicate: continue in the caller
            (t_b, f_b), caller = env["retk"][-1]
            if st.value is None:
                bad(st, "return without a value in a predicate")
            cont = copy.deepcopy(caller)
            cont["present"] = {k_: v_ for k_, v_ in caller["present"].items() if env["present"].get(k_) == v_}
            cont["cb"] = env.get("cb")
            saved = self.depth
            self.depth = len(cont.get("retk", []))
            try:
                if isinstance(st.value, ast.Constant) and isinstance(st.value.value, bool):
                    return self.body(t_b if st.value.value else f_b, cont, ind)
                c, ty = self.ex(st.value, env)
                if ty != "bool":
                    bad(st, f"predicate returns a {ty}")
                return (f"{pad}if {paren(c)} then\n{self.body(t_b, copy.deepcopy(cont), ind + 2)}\n"
                        f"{pad}else\n{self.body(f_b, copy.deepcopy(cont), ind + 2)}")
            finally:
                self.depth = saved
        if isinstance(st, ast.Return):
            v = st.value
            if v is None:
                bad(st, "return without a value")
            if isinstance(v, ast.Call) and is_self_attr(v.func) and v.func.attr in METHODS and not v.keywords:
                m = v.func.attr
                want = FIXED[m]
                if len(v.args) > len(want):
                    bad(st, f"arguments of self.{m}")
                args = []
                for (pn, pt), a in zip(want, v.args):
                    c, t = self.ex(a, env, want=pt)
                    if t != pt:
                        bad(st, f"argument of type {t} for the {pt} parameter {pn} of {m}")
                    args.append(paren(c))
                for pn, pt in want[len(v.args):]:          # Python defaults: "" for the str parameters
                    if pt == "reason":
                        args.append(REASONS[""])
                    elif pt == "text":
                        args.append("()")
                    else:
                        bad(st, f"missing argument {pn} of {m}")
                self.calls.setdefault(self.cur, set()).add(m)
                return f"{pad}Tr.{m} env k g " + " ".join(args)
            c, t = self.ex(v, env)
            if t != "bool":
                bad(st, f"return of a {t}")
            return f"{pad}{self.ret(env, paren(c))}"
        if isinstance(st, ast.Assign) and len(st.targets) == 1:
            tg, v = st.targets[0], st.value
            if isinstance(tg, ast.Name) and isinstance(v, (ast.DictComp, ast.Dict)):
                # a dict of Gene fields, kept symbolically (consumed by Gene(**d))
                if any(t_ == "genedict" for _, t_ in env["locals"].values()):
                    bad(st, "second field dict")
                d = self.field_dict(v, env, st)
                env = copy.deepcopy(env)
                env["locals"][tg.id] = (d, "genedict")
                return self.body(rest, env, ind)
            if isinstance(tg, ast.Subscript) and isinstance(tg.value, ast.Name) \
                    and env["locals"].get(tg.value.id, (None, None))[1] == "genedict":
                ok_, kv = (True, tg.slice.value) if isinstance(tg.slice, ast.Constant) else self.const_of(tg.slice)
                ft = {py: f_ for py, _, f_ in GENE_FIELDS}.get(kv) if ok_ else None
                if ft is None:
                    bad(st, f"item assignment {ast.unparse(tg)}")
                env = copy.deepcopy(env)
                env["locals"][tg.value.id][0][kv] = self.ex(v, env, want=ft)
                return self.body(rest, env, ind)
            if isinstance(tg, ast.Name):
                if any(t_ == "genedict" for _, t_ in env["locals"].values()) and tg.id in env["locals"]:
                    bad(st, f"{tg.id} reassigned while a field dict captured values")
                if isinstance(v, ast.Subscript) and is_self_attr(v.value, "_genes"):
                    key = ast.unparse(v.slice)
                    if key not in env["present"]:
                        bad(st, f"self._genes[{key}] without a dominating presence test")
                    code, ty = env["present"][key], "gene"
                else:
                    code, ty = self.ex(v, env)
                env = copy.deepcopy(env)
                var = self.var(tg.id)
                env["locals"][tg.id] = (var, ty)
                return f"{pad}let {var} : {LEAN_T[ty]} := {code}\n{self.body(rest, env, ind)}"
            if isinstance(tg, ast.Attribute) and isinstance(tg.value, ast.Name) and tg.attr == "approved" \
                    and env["locals"].get(tg.value.id, (None, None))[1] == "mut":
                mv = env["locals"][tg.value.id][0]
                if isinstance(v, ast.Call) and is_self_attr(v.func, "on_mutation"):
                    if env.get("cb") is None:
                        # no dominating test on this path: split here; calling `None` is an error, the arm is poisoned and
                        # the agreement proof only goes through if that arm is unreachable (e.g. guarded by a local flag)
                        env_some = copy.deepcopy(env)
                        env_some["cb"] = "cb"
                        return (f"{pad}match g.cb with\n"
                                f"{pad}| some cb =>\n{self.body(stmts, env_some, ind + 2)}\n"
                                f"{pad}| none =>\n{pad}  untranslatable \"approval callback called while on_mutation is None "
                                f"(line {st.lineno})\"")
                    if len(v.args) != 1 or v.keywords or not isinstance(v.args[0], ast.Name) \
                            or env["locals"].get(v.args[0].id, (None, None))[1] != "mut":
                        bad(st, "approval callback must be called with the mutation record")
                    av = env["locals"][v.args[0].id][0]
                    out = (f"{pad}match env.adv cb k {av}.gene {av}.orig {av}.new {av}.reason with\n"
                           f"{pad}| Ans.raise => MRes.raised (k + 1)\n")
                    for ans, flag in (("approve", "true"), ("refuse", "false")):
                        out += (f"{pad}| Ans.{ans} =>\n{pad}  let k := k + 1\n"
                                f"{pad}  let {mv} : Mut ν := {{ {mv} with approved := {flag} }}\n"
                                f"{self.body(rest, copy.deepcopy(env), ind + 2)}\n")
                    return out.rstrip("\n")
                c, t = self.ex(v, env)
                if t != "bool":
                    bad(st, f"approved := a {t}")
                return f"{pad}let {mv} : Mut ν := {{ {mv} with approved := {c} }}\n{self.body(rest, env, ind)}"
            if isinstance(tg, ast.Subscript) and is_self_attr(tg.value, "_genes"):
                kc, kt = self.ex(tg.slice, env)
                vc, vt = self.ex(v, env)
                if kt != "nat" or vt != "gene":
                    bad(st, f"_genes[{kt}] = {vt}")
                env = copy.deepcopy(env)
                env["present"] = {}          # lookups bound before this write are stale
                return (f"{pad}let g : Genome ν := {{ g with genes := putGeneAt g.genes {paren(kc)} {paren(vc)} }}\n"
                        f"{self.body(rest, env, ind)}")
            if isinstance(tg, ast.Subscript) and is_self_attr(tg.value, "_expression"):
                kc, kt = self.ex(tg.slice, env)
                if kt != "nat":
                    bad(st, f"_expression[{kt}]")
                lv = self.expr_state_level(v, env)
                return (f"{pad}let g : Genome ν := {{ g with expr := putLevel g.expr {paren(kc)} {paren(lv)} }}\n"
                        f"{self.body(rest, env, ind)}")
            bad(st, f"assignment to {ast.unparse(tg)}")
        if isinstance(st, ast.Expr) and isinstance(st.value, ast.Call):
            f = st.value.func
            if isinstance(f, ast.Attribute) and f.attr == "append" and is_self_attr(f.value, "_mutations") \
                    and len(st.value.args) == 1 and not st.value.keywords:
                c, t = self.ex(st.value.args[0], env)
                if t != "mut":
                    bad(st, f"_mutations.append of a {t}")
                return f"{pad}let g : Genome ν := {{ g with log := g.log ++ [{c}] }}\n{self.body(rest, env, ind)}"
            bad(st, f"call {ast.unparse(f)}(...)")
        if isinstance(st, ast.For):
            # for m in reversed(self._mutations): if cond: return e      (then the rest)
            it = st.iter
            rev = isinstance(it, ast.Call) and isinstance(it.func, ast.Name) and it.func.id == "reversed" \
                and len(it.args) == 1 and is_self_attr(it.args[0], "_mutations")
            fwd = is_self_attr(it, "_mutations")
            if not (rev or fwd) or st.orelse or not isinstance(st.target, ast.Name):
                bad(st, f"loop over {ast.unparse(it)}")
            inner = [s for s in st.body if not (is_print(s) or is_doc(s))]
            if len(inner) != 1 or not isinstance(inner[0], ast.If) or inner[0].orelse \
                    or len(inner[0].body) != 1 or not isinstance(inner[0].body[0], ast.Return):
                bad(st, "loop body is not `if <cond>: return <expr>`")
            var = self.var(st.target.id)
            env2 = copy.deepcopy(env)
            env2["locals"][st.target.id] = (var, "mut")
            c, t = self.ex(inner[0].test, env2)
            if t != "bool":
                bad(st, f"loop condition of type {t}")
            lst = "(g.log.reverse)" if rev else "g.log"
            return (f"{pad}match {lst}.find? (fun {var} => {c}) with\n"
                    f"{pad}| some {var} =>\n{self.body(inner[0].body, env2, ind + 2)}\n"
                    f"{pad}| none =>\n{self.body(rest, copy.deepcopy(env), ind + 2)}")
        bad(st, f"statement {type(st).__name__}")

    def method(self, m):
        self.cur = m
        ps = self.sig(m)
        env = {"locals": {n: (("()" if t == "text" else f"p_{n}"), t) for n, t in ps}, "present": {}, "cb": None,
               "retk": []}
        for name, dflt in self.extra.items():
            env["locals"][name] = (dflt, "const")
        self.depth = 0
        return self.body(self.fns[m].body, env, 4)

    def reason_of(self, node):
        if isinstance(node, ast.Constant):
            return node.value
        ok_, v = self.const_of(node)
        return v if ok_ else None

    # ------------------------------------------------------------------------------------------------ replicate
    def replicate(self):
        """-> (gate code | None, loop ok: bool, why)"""
        fn = self.fns.get("replicate")
        if fn is None:
            raise Unsupported("replicate not found")
        ctor, child = None, None
        for n in ast.walk(fn):
            if isinstance(n, ast.Assign) and isinstance(n.value, ast.Call) \
                    and ast.unparse(n.value.func) in ("Genome", "type(self)", "self.__class__"):
                if ctor is not None or len(n.targets) != 1 or not isinstance(n.targets[0], ast.Name):
                    bad(n, "more than one Genome(...) construction in replicate")
                ctor, child = n.value, n.targets[0].id
        if ctor is None:
            bad(fn, "no `child = Genome(...)` in replicate")
        if ctor.args:
            bad(ctor, "positional arguments of Genome(...)")
        kw = {k.arg: k.value for k in ctor.keywords}
        for key in kw:
            if key not in ("genes", "allow_mutations", "mutation_rate", "on_mutation", "silent"):
                bad(ctor, f"child constructed with an unknown argument {key}=")
        gate = []
        for key, lean in (("allow_mutations", "g.allow"), ("on_mutation", "g.cb"), ("mutation_rate", "g.rate")):
            v = kw.get(key)
            if v is None:       # constructor default: False / None / 0.0
                gate.append({"allow_mutations": "false", "on_mutation": "none", "mutation_rate": "false"}[key])
            elif is_self_attr(v, key):
                gate.append(lean)
            elif isinstance(v, ast.Constant) and key == "allow_mutations" and isinstance(v.value, bool):
                gate.append("true" if v.value else "false")
            elif isinstance(v, ast.Constant) and key == "on_mutation" and v.value is None:
                gate.append("none")
            else:
                bad(v, f"child constructed with {key}={ast.unparse(v)}")
        # genes handed to the constructor: exactly the parent's
        gv = kw.get("genes")
        ok_src = {"list(self._genes.values())", "self._genes.values()", "tuple(self._genes.values())"}
        if gv is None:
            bad(ctor, "child constructed without genes")
        src = ast.unparse(gv)
        if src not in ok_src:
            if isinstance(gv, ast.Name):
                defs = [n for n in ast.walk(fn) if isinstance(n, ast.Assign) and len(n.targets) == 1
                        and isinstance(n.targets[0], ast.Name) and n.targets[0].id == gv.id]
                if len(defs) != 1 or ast.unparse(defs[0].value) not in ok_src:
                    bad(gv, f"child genes are not list(self._genes.values())")
            else:
                bad(gv, f"child genes = {src}")
        # scan: writes and calls
        for n in ast.walk(fn):
            targets = []
            if isinstance(n, ast.Assign):
                targets = n.targets
            elif isinstance(n, (ast.AugAssign, ast.AnnAssign)):
                targets = [n.target]
            elif isinstance(n, ast.Delete):
                targets = n.targets
            for tg in targets:
                for t1 in (tg.elts if isinstance(tg, ast.Tuple) else [tg]):
                    if isinstance(t1, ast.Name):
                        continue
                    if isinstance(t1, ast.Attribute) and isinstance(t1.value, ast.Name) and t1.value.id == child \
                            and t1.attr in ("_generation", "_parent_hash"):
                        continue
                    if isinstance(t1, ast.Subscript) and isinstance(t1.value, ast.Attribute) \
                            and isinstance(t1.value.value, ast.Name) and t1.value.value.id == child \
                            and t1.value.attr == "_expression":
                        continue
                    bad(n, f"replicate writes {ast.unparse(t1)}")
            if isinstance(n, ast.Call) and isinstance(n.func, ast.Attribute):
                recv = n.func.value
                if isinstance(recv, ast.Name) and recv.id == child:
                    if n.func.attr != "mutate":
                        bad(n, f"replicate calls child.{n.func.attr}")
                    if len(n.args) != 3 or n.keywords or self.reason_of(n.args[2]) not in (
                            "replication_mutation", "random_mutation"):
                        bad(n, "child.mutate call shape")
                if isinstance(recv, ast.Name) and recv.id == "self" and n.func.attr != "get_hash":
                    bad(n, f"replicate calls self.{n.func.attr}")
                if isinstance(recv, ast.Attribute) and isinstance(recv.value, ast.Name) \
                        and recv.value.id in ("self", child) \
                        and (recv.attr, n.func.attr) not in (("_genes", "values"), ("_expression", "items")):
                    bad(n, f"replicate calls {ast.unparse(n.func)}")
        # the requested-mutations loop
        mparam = fn.args.args[1].arg if len(fn.args.args) > 1 else None
        loops = [n for n in ast.walk(fn) if isinstance(n, ast.For) and isinstance(n.iter, ast.Call)
                 and isinstance(n.iter.func, ast.Attribute) and n.iter.func.attr == "items"
                 and isinstance(n.iter.func.value, ast.Name) and n.iter.func.value.id == mparam]
        if len(loops) != 1:
            bad(fn, "requested-mutations loop not found exactly once")
        lp = loops[0]
        if not (isinstance(lp.target, ast.Tuple) and len(lp.target.elts) == 2
                and all(isinstance(e, ast.Name) for e in lp.target.elts)) or lp.orelse:
            bad(lp, "loop target")
        a, b = (e.id for e in lp.target.elts)
        inner = [s for s in lp.body if not (is_print(s) or is_doc(s))]
        if len(inner) != 1 or not (isinstance(inner[0], ast.Expr) and isinstance(inner[0].value, ast.Call)):
            bad(lp, "requested-mutations loop body is not a single call")
        call = inner[0].value
        if ast.unparse(call.func) != f"{child}.mutate" or len(call.args) != 3 \
                or [ast.unparse(x) for x in call.args[:2]] != [a, b] \
                or self.reason_of(call.args[2]) != "replication_mutation":
            bad(call, f"requested mutation applied by {ast.unparse(call)[:70]}")
        # every mutate call on the child in the method is either this one or the random pass's
        return "some ⟨" + ", ".join(gate) + "⟩", a, b


HEAD = ("import Operon.Model.Genome\n"
        "/- GENERATED by harness/vf/extract/py2lean_genome.py from operon_ai/state/genome.py on every run; do not edit.\n"
        "   Each definition is the translation of the Python method of the same name (see the translator for the\n"
        "   supported subset).  `untranslatable \"...\"` marks a method that left the subset: its agreement theorem\n"
        "   c20_translation_agrees_<method> then fails. -/\n"
        "namespace Operon.Genome\n"
        "set_option linter.unusedVariables false\n"
        "variable {ν : Type}\n\n")


def render(src: str, module=None):
    info = {"unsupported": {}, "methods": []}
    try:
        tr = Translator(src, module)
        glob = None
    except (Unsupported, SyntaxError) as e:
        tr, glob = None, str(e)
    bodies = {}
    for m in METHODS:
        if tr is None:
            bodies[m] = None
            info["unsupported"][m] = glob
            continue
        try:
            bodies[m] = tr.method(m)
        except Unsupported as e:
            bodies[m] = None
            info["unsupported"][m] = str(e)
        except RecursionError:
            bodies[m] = None
            info["unsupported"][m] = "recursion"
    # order: callees first; recursion or a call to an untranslatable method poisons the caller
    order, state = [], {}

    def visit(m):
        if state.get(m) == 2:
            return
        if state.get(m) == 1:
            bodies[m] = None
            info["unsupported"][m] = "recursion among methods"
            return
        state[m] = 1
        for c in sorted((tr.calls if tr else {}).get(m, ())):
            visit(c)
        state[m] = 2
        order.append(m)
    for m in METHODS:
        visit(m)
    changed = True
    while changed and tr is not None:
        changed = False
        for m in order:
            if bodies[m] is not None and any(bodies[c] is None for c in tr.calls.get(m, ())):
                bodies[m] = None
                info["unsupported"][m] = "calls an untranslatable method"
                changed = True
    out = HEAD
    for m in order:
        params = "".join(f" (p_{n} : {LEAN_T[t]})" for n, t in FIXED[m])
        out += f"/-- translation of `Genome.{m}` -/\n"
        out += f"def Tr.{m} (env : Env ν) (k : Nat) (g : Genome ν){params} : MRes ν :=\n"
        if bodies[m] is None:
            why = info["unsupported"].get(m, "unsupported").replace('"', "'").replace("\\", "/")
            out += f'    untranslatable "{why}"\n\n'
        else:
            out += bodies[m] + "\n\n"
        info["methods"].append(m)
    # replicate
    gate, loop = None, None
    if tr is not None:
        try:
            gate, a, b = tr.replicate()
            loop = (a, b)
            if bodies["mutate"] is None:
                raise Unsupported("the child's mutate is untranslatable")
        except Unsupported as e:
            info["unsupported"]["replicate"] = str(e)
            gate, loop = None, None
    else:
        info["unsupported"]["replicate"] = glob
    why = info["unsupported"].get("replicate", "").replace("-/", "- /")
    out += ("/-- the gate settings `replicate` constructs the child with (`none`: outside the subset"
            + (f" — {why}" if gate is None else "") + ") -/\n")
    out += f"def Tr.replicate_child_gate (g : Genome ν) : Option Gate :=\n    {gate or 'none'}\n\n"
    out += ("/-- the loop of `replicate` that applies the requested mutations, through the child's `mutate`"
            + (f" (POISONED: {why})" if loop is None else "") + " -/\n")
    out += "def Tr.replicate_mutations (env : Env ν) (d : Nat) : Nat → Genome ν → List (Nat × ν) → RRes ν\n"
    if loop is None:
        out += "  | _, _, _ => RRes.raised 0 0\n\n"
    else:
        a, b = loop
        out += ("  | k, child, [] => RRes.ok child k d\n"
                f"  | k, child, (v_{a}, v_{b}) :: rest =>\n"
                f"    match Tr.mutate env k child v_{a} v_{b} Reason.replication with\n"
                "    | MRes.done child _ k => Tr.replicate_mutations env d k child rest\n"
                "    | MRes.raised k => RRes.raised k d\n\n")
    info["methods"] += ["replicate_child_gate", "replicate_mutations"]
    out += "end Operon.Genome\n"
    return out, info


def run(repo: Path, lean_dir: Path, write_if_changed, module=None) -> list[dict]:
    try:
        src = (Path(repo) / REL).read_text()
    except OSError:
        src = ""
    text, info = render(src, module)
    changed = write_if_changed(Path(lean_dir) / "Operon/Gen/GenomeTranslated.lean", text)
    return [{"id": "py2lean-genome", "facts_changed": bool(changed), "methods": info["methods"],
             "unsupported": info["unsupported"]}]


if __name__ == "__main__":
    import sys
    root = Path(sys.argv[1] if len(sys.argv) > 1 else "/repo")
    t, i = render((root / REL).read_text())
    print(t)
    print(i, file=sys.stderr)
