"""E5 (metabolism part): the constants of ATP_Store's metabolic-state classifier -> lean/Operon/Gen/MetabolismConsts.lean.

What is a *shape* is read from the AST of `_update_state`; what is a *value* is obtained by EVALUATING the
expression in the namespace of the imported module (names resolve to their values: `_DEBT_RATIO_WEIGHT = 1 / 2`,
a class attribute, a literal and `0.25 * 2` are all the same fact 1/2):

  chain       the classification chain of _update_state in source order: per `if/elif`
              (comparison operator, VALUE of the threshold expression as an exact fraction, MetabolicState member)
  elseState   the member assigned in the final `else`
  debtWeight  the VALUE of K in `ratio -= (<debt> / <capacity>) * K` (or K * (...), or `ratio = ratio - …`)

  updGuards   (g1, g2): is the division `total_current / total_capacity` only executed when the capacity is known to be
              non-zero, and is the division of the debt term only executed when it is known to be positive/non-zero?  Read
              off the `if` tests that enclose each true division by the capacity variable (body of `if cap > 0` /
              `cap != 0` / `cap` / a conjunction containing one of these; else-branch of `if cap == 0` / `not cap` /
              `cap <= 0`).  A division whose guard is not recognised counts as unguarded (fail closed).
  consoleFailuresEscape   EVALUATED on the real class: loud stores (silent=False) run a script that reaches every message
              of ATP_Store on an ASCII console, a closed console and a UTF-8 console with a lone surrogate in the
              operation label; true iff any call raised.

  floatRangeFailuresEscape   EVALUATED on the real class: stores whose budget / reserve / debt limit lie beyond the range
              of a C double (Python ints are unbounded) run every ledger operation, with quotients debt/capacity and
              current/capacity beyond 2**1024 and debts no float can hold; true iff any call raised.
A true division may be written `a / b` or as a call `f(a, b)` of a plain module-level function that is `a / b` on a probe
grid and raises ZeroDivisionError for b = 0 (recognised by EVALUATION: a quotient helper that saturates beyond the float
range is such a function).

(floats are read through their shortest repr: 0.1 = 1/10.)  The module is the one the harness imported from the
tree under test (`operon_ai.state.metabolism`, checked to live under the repository root).

Fail closed: a fact whose shape is not recognised / whose value cannot be evaluated to a non-negative number is
emitted as `none` / `[]` / "?", which makes `c04_classifier_constants_table` fail and the driver's classifier
unable to agree.
"""
from __future__ import annotations

import ast
import importlib
import os
from fractions import Fraction
from pathlib import Path

OUT_REL = "Operon/Gen/MetabolismConsts.lean"
OPS = {ast.LtE: "le", ast.Lt: "lt", ast.GtE: "ge", ast.Gt: "gt"}


class Unrecognised(Exception):
    pass


def load_module(repo: Path):
    """the metabolism module of the tree under test (already importable: the harness put the root first on sys.path)"""
    try:
        m = importlib.import_module("operon_ai.state.metabolism")
    except Exception as e:  # noqa
        raise Unrecognised(f"cannot import operon_ai.state.metabolism: {e!r}")
    f = os.path.realpath(getattr(m, "__file__", "") or "")
    if not f.startswith(os.path.realpath(str(repo)) + os.sep):
        raise Unrecognised(f"operon_ai.state.metabolism imported from {f}, not from {repo}")
    return m


def _safe(node) -> bool:
    """only names, attributes, numeric literals and arithmetic: nothing with side effects is ever evaluated"""
    for n in ast.walk(node):
        if not isinstance(n, (ast.Name, ast.Attribute, ast.Constant, ast.BinOp, ast.UnaryOp, ast.Load, ast.operator,
                              ast.unaryop, ast.Expression)):
            return False
    return True


def evaluate(node, module, cls) -> Fraction:
    """value of a constant expression of the source: `self.X` / `cls.X` / module-level names / literals / arithmetic"""
    if not _safe(node):
        raise Unrecognised(f"not a constant expression: {ast.unparse(node)[:60]}")
    try:
        code = compile(ast.Expression(body=node), "<const>", "eval")
        v = eval(code, dict(vars(module)), {"self": cls, "cls": cls})  # class attributes stand in for instance lookups
    except Exception as e:  # noqa
        raise Unrecognised(f"cannot evaluate {ast.unparse(node)[:60]}: {e!r}")
    if isinstance(v, bool) or not isinstance(v, (int, float)):
        raise Unrecognised(f"{ast.unparse(node)[:60]} is not a number")
    f = Fraction(repr(v)) if isinstance(v, float) else Fraction(v)
    if f < 0:
        raise Unrecognised("negative constant")
    return f


def _fn(tree, name):
    for n in tree.body:
        if isinstance(n, ast.ClassDef) and n.name == "ATP_Store":
            for m in n.body:
                if isinstance(m, ast.FunctionDef) and m.name == name:
                    return m
    raise Unrecognised(f"ATP_Store.{name} not found")


_DIV_PROBES = [(0, 1), (1, 3), (7, 2), (10, 10), (3, 1000), (2 ** 60 + 1, 3), (10 ** 30, 7), (5, 10 ** 40)]


def _is_division_call(n, module) -> bool:
    """`f(a, b)` with f a plain function of the module under test that computes a / b: equal to true division on a probe
    grid and ZeroDivisionError for a zero denominator (it may only differ where `a / b` itself leaves the float range)"""
    if not (isinstance(n, ast.Call) and len(n.args) == 2 and not n.keywords):
        return False
    import types
    if isinstance(n.func, ast.Name):
        f = getattr(module, n.func.id, None)
        if not isinstance(f, types.FunctionType) or getattr(f, "__module__", None) != module.__name__:
            return False
    elif isinstance(n.func, ast.Attribute) and isinstance(n.func.value, ast.Name) and n.func.value.id in ("self", "cls", "ATP_Store"):
        # the same helper kept as a (static) method of the class: looked up on a throw-away instance
        try:
            f = getattr(module.ATP_Store(budget=1, silent=True), n.func.attr, None)
        except Exception:  # noqa
            return False
        if not callable(f) or getattr(f, "__module__", None) != module.__name__:
            return False
    else:
        return False
    try:
        if any(type(f(a, b)) is not float or f(a, b) != a / b for a, b in _DIV_PROBES):
            return False
    except Exception:  # noqa
        return False
    try:
        f(1, 0)
    except ZeroDivisionError:
        return True
    except Exception:  # noqa
        return False
    return False


def _debt_weight(fn, module, cls) -> Fraction:
    found = []
    # what an `except OverflowError:` handler does (saturation beyond the float range) is not the debt term
    in_handler = {id(x) for t in ast.walk(fn) if isinstance(t, ast.Try) for h in t.handlers
                  if isinstance(h.type, ast.Name) and h.type.id == "OverflowError" for st in h.body for x in ast.walk(st)}
    for n in ast.walk(fn):
        val = None
        if id(n) in in_handler:
            continue
        if isinstance(n, ast.AugAssign) and isinstance(n.op, ast.Sub) and isinstance(n.target, ast.Name) \
                and n.target.id == "ratio":
            val = n.value
        elif isinstance(n, ast.Assign) and len(n.targets) == 1 and isinstance(n.targets[0], ast.Name) \
                and n.targets[0].id == "ratio" and isinstance(n.value, ast.BinOp) and isinstance(n.value.op, ast.Sub) \
                and isinstance(n.value.left, ast.Name) and n.value.left.id == "ratio":
            val = n.value.right
        if val is None:
            continue
        if isinstance(val, ast.BinOp) and isinstance(val.op, ast.Mult):
            for q, k in ((val.left, val.right), (val.right, val.left)):
                if (isinstance(q, ast.BinOp) and isinstance(q.op, ast.Div)) or _is_division_call(q, module):
                    found.append(evaluate(k, module, cls))
                    break
            else:
                raise Unrecognised("debt term is not (a / b) * K")
        elif (isinstance(val, ast.BinOp) and isinstance(val.op, ast.Div)) or _is_division_call(val, module):
            found.append(Fraction(1))
        else:
            raise Unrecognised("debt term is not (a / b) * K")
    if len(found) != 1:
        raise Unrecognised(f"{len(found)} debt-term statements")
    return found[0]


def _state_assigned(body, module) -> str:
    """the single effective statement `self._state = <MetabolicState member>` of a branch -> 'x'"""
    body = [st for st in body if not (isinstance(st, ast.Expr) and isinstance(st.value, (ast.Constant, ast.Call)))]
    if len(body) == 1 and isinstance(body[0], ast.Assign) and len(body[0].targets) == 1:
        t, v = body[0].targets[0], body[0].value
        if isinstance(t, ast.Attribute) and t.attr == "_state" and _safe(v):
            try:
                val = eval(compile(ast.Expression(body=v), "<state>", "eval"), dict(vars(module)), {})
            except Exception as e:  # noqa
                raise Unrecognised(f"cannot evaluate {ast.unparse(v)}: {e!r}")
            if isinstance(val, module.MetabolicState):
                return str(val.value)
    raise Unrecognised("branch is not a single `self._state = <MetabolicState member>`")


def _chain(fn, module, cls):
    heads = [n for n in fn.body if isinstance(n, ast.If) and isinstance(n.test, ast.Compare)
             and isinstance(n.test.left, ast.Name) and n.test.left.id == "ratio"]
    if len(heads) != 1:
        raise Unrecognised(f"{len(heads)} classification chains")
    out = []
    node = heads[0]
    while True:
        t = node.test
        if not (isinstance(t, ast.Compare) and len(t.ops) == 1 and isinstance(t.left, ast.Name) and t.left.id == "ratio"
                and type(t.ops[0]) in OPS):
            raise Unrecognised("chain test is not `ratio <op> <constant>`")
        out.append((OPS[type(t.ops[0])], evaluate(t.comparators[0], module, cls), _state_assigned(node.body, module)))
        if len(node.orelse) == 1 and isinstance(node.orelse[0], ast.If):
            node = node.orelse[0]
            continue
        return out, _state_assigned(node.orelse, module)


def _nonzero_test(test, den: str, positive: bool) -> bool:
    """does `test` being true (positive=True) / false (positive=False) imply `den != 0`?"""
    if positive:
        if isinstance(test, ast.Name):
            return test.id == den
        if isinstance(test, ast.BoolOp) and isinstance(test.op, ast.And):
            return any(_nonzero_test(v, den, True) for v in test.values)
        if isinstance(test, ast.UnaryOp) and isinstance(test.op, ast.Not):
            return _nonzero_test(test.operand, den, False)
        if isinstance(test, ast.Compare) and len(test.ops) == 1:
            l, op, r = test.left, test.ops[0], test.comparators[0]
            zero = lambda n: isinstance(n, ast.Constant) and not isinstance(n.value, bool) and n.value == 0
            name = lambda n: isinstance(n, ast.Name) and n.id == den
            if name(l) and zero(r):
                return isinstance(op, (ast.Gt, ast.NotEq))
            if zero(l) and name(r):
                return isinstance(op, (ast.Lt, ast.NotEq))
        return False
    if isinstance(test, ast.BoolOp) and isinstance(test.op, ast.Or):
        return any(_nonzero_test(v, den, False) for v in test.values)
    if isinstance(test, ast.UnaryOp) and isinstance(test.op, ast.Not):
        return _nonzero_test(test.operand, den, True)
    if isinstance(test, ast.Compare) and len(test.ops) == 1:
        l, op, r = test.left, test.ops[0], test.comparators[0]
        zero = lambda n: isinstance(n, ast.Constant) and not isinstance(n.value, bool) and n.value == 0
        name = lambda n: isinstance(n, ast.Name) and n.id == den
        if name(l) and zero(r):
            return isinstance(op, (ast.Eq, ast.LtE))
        if zero(l) and name(r):
            return isinstance(op, (ast.Eq, ast.GtE))
    return False


def _upd_guards(fn, module=None):
    """(g1, g2) for the two true divisions of _update_state: the one inside the debt-term statement (g2) and the other (g1)"""
    found = []        # (division node, guarded, inside a `ratio -= …`/`ratio = ratio - …` statement)

    def assigned_between(stmts, den):
        return any(isinstance(n, (ast.Assign, ast.AugAssign, ast.AnnAssign)) and any(
            isinstance(t, ast.Name) and t.id == den for t in (n.targets if isinstance(n, ast.Assign) else [n.target]))
            for st in stmts for n in ast.walk(st))

    def visit(stmts, guards):
        for st in stmts:
            if isinstance(st, ast.If):
                scan_expr(st.test, guards, False)
                visit(st.body, guards + [(st.test, True)])
                visit(st.orelse, guards + [(st.test, False)])
            elif isinstance(st, ast.Try) and not st.finalbody and not st.orelse and st.handlers and all(
                    isinstance(h.type, ast.Name) and h.type.id == "OverflowError" for h in st.handlers):
                # `try: <divisions> except OverflowError: <saturate>`: the float range handled in place; the zero-denominator
                # guards are looked for as everywhere else (ZeroDivisionError is not caught)
                visit(st.body, guards)
                for h in st.handlers:
                    visit(h.body, guards)
            elif isinstance(st, (ast.For, ast.While, ast.Try, ast.With, ast.FunctionDef, ast.Match)):
                raise Unrecognised(f"{type(st).__name__} in _update_state")
            else:
                debt_stmt = (isinstance(st, ast.AugAssign) and isinstance(st.op, ast.Sub)) or \
                    (isinstance(st, ast.Assign) and isinstance(st.value, ast.BinOp) and isinstance(st.value.op, ast.Sub))
                scan_expr(st, guards, debt_stmt)

    def scan_expr(node, guards, debt_stmt):
        for n in ast.walk(node):
            if isinstance(n, ast.IfExp):
                raise Unrecognised("conditional expression in _update_state")
            right = None
            if isinstance(n, ast.BinOp) and isinstance(n.op, (ast.Div, ast.FloorDiv, ast.Mod)):
                right = n.right
            elif module is not None and _is_division_call(n, module):
                right = n.args[1]
            if right is not None:
                if isinstance(right, ast.Constant) and isinstance(right.value, (int, float)) and right.value != 0:
                    continue
                if not isinstance(right, ast.Name):
                    raise Unrecognised(f"division by {ast.unparse(right)[:40]}")
                den = right.id
                ok = any(_nonzero_test(t, den, pos) for (t, pos) in guards)
                found.append((den, ok, debt_stmt))
    visit(fn.body, [])
    dens = {d for d, _, _ in found}
    if len(dens) != 1:
        raise Unrecognised(f"divisions by {sorted(dens)}")
    den = dens.pop()
    if assigned_between([st for st in fn.body if isinstance(st, ast.If)], den):
        raise Unrecognised("capacity variable re-assigned under a condition")
    base = [ok for _, ok, debt in found if not debt]
    debt = [ok for _, ok, debt in found if debt]
    if len(base) != 1 or len(debt) != 1:
        raise Unrecognised(f"{len(base)} ratio divisions, {len(debt)} debt-term divisions")
    return base[0], debt[0]


def _console_failures_escape(module) -> bool:
    """run every message-producing path of a loud store on consoles that cannot show the messages"""
    import io
    import sys
    E = module.EnergyType

    def script(label):
        a = module.ATP_Store(budget=10, gtp_budget=2, nadh_reserve=3, max_debt=20, silent=False)
        b = module.ATP_Store(budget=10, silent=False)
        yield lambda: a.consume(12, label)                         # NADH top-up message
        yield lambda: a.consume(5, label, allow_debt=True)        # debt message, state change message
        yield lambda: a.consume(1, label)                          # STARVING gate message
        yield lambda: a.consume(500, label, priority=9)           # refusal message
        yield lambda: a.apply_debt_interest()
        yield lambda: a.regenerate(30)                             # debt paid message, state change
        yield lambda: a.enter_dormancy()
        yield lambda: a.consume(1, label)                          # DORMANT gate message
        yield lambda: a.exit_dormancy()
        yield lambda: a.regenerate(3, E.NADH)
        yield lambda: a.consume(1, label)
        yield lambda: a.convert_nadh_to_atp(1)
        yield lambda: a.transfer_to(b, 0)
        yield lambda: b.transfer_to(a, 1)
        yield lambda: a.reset()
    consoles = [("ascii", "op"), ("closed", "op"), ("utf-8", "\ud800")]
    real = sys.stdout
    try:
        for enc, label in consoles:
            st = io.TextIOWrapper(io.BytesIO(), encoding="ascii" if enc == "ascii" else "utf-8", errors="strict")
            if enc == "closed":
                st.close()
            sys.stdout = st
            for call in script(label):
                try:
                    call()
                except Exception:  # noqa
                    return True
    finally:
        sys.stdout = real
    return False


def _float_range_failures_escape(module) -> bool:
    """run every ledger operation on stores whose quantities lie beyond the range of a C double"""
    E = module.EnergyType
    H = 10 ** 310
    calls = []

    def script():
        a = module.ATP_Store(budget=1, gtp_budget=0, nadh_reserve=0, max_debt=H, debt_interest=0.5, silent=True)
        yield lambda: a.consume(H // 10, "x", allow_debt=True, priority=10)     # debt / capacity beyond 2**1024
        yield lambda: a.regenerate(5)
        yield lambda: a.enter_dormancy()
        yield lambda: a.exit_dormancy()
        yield lambda: a.apply_debt_interest()                                    # a debt no float can hold
        yield lambda: a.consume(1, "x", E.GTP, True, 10)
        yield lambda: a.reset()
        b = module.ATP_Store(budget=1, nadh_reserve=H, silent=True)
        yield lambda: b.consume(10 * H, "x", priority=10)                        # refused; the top-up stays: atp >> max_atp
        yield lambda: b.consume(1, "x", priority=10)                             # current / capacity beyond 2**1024
        yield lambda: b.convert_nadh_to_atp(3)
        c = module.ATP_Store(budget=H, gtp_budget=H, nadh_reserve=H, max_debt=H, debt_interest=0.1, silent=True)
        yield lambda: c.consume(H + H // 2, "x", allow_debt=True, priority=10)
        yield lambda: c.consume(H // 3, "x", E.NADH, True, 10)
        yield lambda: c.apply_debt_interest()
        yield lambda: c.transfer_to(a, 7)
        yield lambda: c.transfer_to(b, H // 7, E.GTP)
        yield lambda: c.regenerate(H)
        yield lambda: c.reset()
    for call in script():
        try:
            call()
        except Exception:  # noqa
            return True
    return False


PROBE_VALUES = (0, 1, 7)


def _constructor_probe(module):
    """EVALUATED on the real class: what the public getters report right after `ATP_Store(budget, gtp_budget, nadh_reserve,
    max_debt=...)` for every combination of PROBE_VALUES: ((budget, gtp, nadh, max_debt), (atp, gtp, nadh, max_atp, max_gtp,
    max_nadh, debt, max_debt, state, total_consumed, total_regenerated, operations_count, failed_operations, transactions))"""
    import itertools
    E = module.EnergyType
    rows = []
    for b, g, n, md in itertools.product(PROBE_VALUES, repeat=4):
        s = module.ATP_Store(budget=b, gtp_budget=g, nadh_reserve=n, max_debt=md, silent=True)
        st = s.get_statistics()
        vals = [s.get_balance(E.ATP), s.get_balance(E.GTP), s.get_balance(E.NADH), st["max_atp"], st["max_gtp"], st["max_nadh"],
                s.get_debt(), s.max_debt, st["total_consumed"], st["total_regenerated"], st["operations_count"],
                st["failed_operations"], len(s.get_transactions(10 ** 6))]
        if not all(type(v) is int and v >= 0 for v in vals):
            raise Unrecognised(f"constructor probe: non-natural value in {vals}")
        state = s.get_state().value
        if state not in ("normal", "conserving", "starving", "feasting", "dormant"):
            raise Unrecognised(f"constructor probe: state {state!r}")
        rows.append(((b, g, n, md), tuple(vals[:8]) + (state,) + tuple(vals[8:])))
    return rows


def extract_facts(repo: Path) -> dict:
    names = ["debtWeight", "chain", "updGuards", "consoleFailuresEscape", "floatRangeFailuresEscape", "constructorProbe"]
    try:
        module = load_module(repo)
        cls = module.ATP_Store
        tree = ast.parse(Path(module.__file__).read_text())
        fn = _fn(tree, "_update_state")
    except Exception as e:  # noqa
        return {n: Unrecognised(f"{e}") for n in names}
    facts = {}

    def guard(name, thunk):
        try:
            facts[name] = thunk()
        except Unrecognised as e:
            facts[name] = e
        except Exception as e:  # noqa
            facts[name] = Unrecognised(repr(e))
    guard("debtWeight", lambda: _debt_weight(fn, module, cls))
    guard("chain", lambda: _chain(fn, module, cls))
    guard("updGuards", lambda: _upd_guards(fn, module))
    guard("consoleFailuresEscape", lambda: _console_failures_escape(module))
    guard("floatRangeFailuresEscape", lambda: _float_range_failures_escape(module))
    guard("constructorProbe", lambda: _constructor_probe(module))
    return facts


def render(facts: dict) -> str:
    lines = ["/- GENERATED by harness/vf/extract/e5_metabolism.py from operon_ai/state/metabolism.py — do not edit. -/",
             "namespace Operon.Gen.Metabolism", ""]
    w = facts["debtWeight"]
    lines.append("/-- the value of K in `ratio -= (self._debt / total_capacity) * K`, as (numerator, denominator) -/")
    lines.append("def debtWeight : Option (Nat × Nat) := "
                 + (f"none  -- UNRECOGNISED: {str(w)[:100]}" if isinstance(w, Unrecognised)
                    else f"some ({w.numerator}, {w.denominator})"))
    ch = facts["chain"]
    lines.append("/-- the classification chain of `_update_state`: (comparison of `ratio` with, value of the threshold, state) -/")
    if isinstance(ch, Unrecognised):
        lines.append(f"def chain : List (String × (Nat × Nat) × String) := []  -- UNRECOGNISED: {str(ch)[:100]}")
        lines.append('def elseState : String := "?"')
    else:
        items = ", ".join(f'("{op}", ({v.numerator}, {v.denominator}), "{st}")' for (op, v, st) in ch[0])
        lines.append(f"def chain : List (String × (Nat × Nat) × String) := [{items}]")
        lines.append(f'def elseState : String := "{ch[1]}"')
    g = facts.get("updGuards", Unrecognised("not extracted"))
    lines.append("/-- `_update_state`: (the ratio division runs only with a non-zero capacity, the debt-term division runs only with a "
                 "non-zero capacity) -/")
    lines.append("def updGuards : Option (Bool × Bool) := "
                 + (f"none  -- UNRECOGNISED: {str(g)[:100]}" if isinstance(g, Unrecognised)
                    else f"some ({str(bool(g[0])).lower()}, {str(bool(g[1])).lower()})"))
    c = facts.get("consoleFailuresEscape", Unrecognised("not evaluated"))
    lines.append("/-- evaluated on the real class: does a console that cannot show a message (ASCII / closed stdout, lone surrogate in "
                 "the label) make any operation of a loud store raise? -/")
    lines.append("def consoleFailuresEscape : Bool := "
                 + (f"true  -- UNRECOGNISED: {str(c)[:100]}" if isinstance(c, Unrecognised) else str(bool(c)).lower()))
    c = facts.get("floatRangeFailuresEscape", Unrecognised("not evaluated"))
    lines.append("/-- evaluated on the real class: does a quantity beyond the range of a C double (budget / reserve / debt limit of "
                 "10^310: Python ints are unbounded) make any ledger operation raise? -/")
    lines.append("def floatRangeFailuresEscape : Bool := "
                 + (f"true  -- UNRECOGNISED: {str(c)[:100]}" if isinstance(c, Unrecognised) else str(bool(c)).lower()))
    cp = facts.get("constructorProbe", Unrecognised("not evaluated"))
    lines.append("/-- evaluated on the real class: ((budget, gtp_budget, nadh_reserve, max_debt), what the public getters report right "
                 "after construction: (atp, gtp, nadh, max_atp, max_gtp, max_nadh, debt, max_debt), state, (total_consumed, "
                 "total_regenerated, operations_count, failed_operations, number of transactions)) for every combination of "
                 f"{PROBE_VALUES} -/")
    if isinstance(cp, Unrecognised):
        lines.append("def constructorProbe : Option (List ((Nat × Nat × Nat × Nat) × (Nat × Nat × Nat × Nat × Nat × Nat × Nat × Nat) × "
                     f"String × (Nat × Nat × Nat × Nat × Nat))) := none  -- UNRECOGNISED: {str(cp)[:100]}")
    else:
        def row(r):
            (cfg, v) = r
            return (f"(({cfg[0]}, {cfg[1]}, {cfg[2]}, {cfg[3]}), ({', '.join(str(x) for x in v[:8])}), \"{v[8]}\", "
                    f"({', '.join(str(x) for x in v[9:])}))")
        lines.append("def constructorProbe : Option (List ((Nat × Nat × Nat × Nat) × (Nat × Nat × Nat × Nat × Nat × Nat × Nat × Nat) × "
                     "String × (Nat × Nat × Nat × Nat × Nat))) := some [\n  " + ",\n  ".join(row(r) for r in cp) + "]")
    lines += ["", "end Operon.Gen.Metabolism", ""]
    return "\n".join(lines)


def run(repo: Path, lean: Path, write_if_changed) -> dict:
    facts = extract_facts(Path(repo))
    changed = write_if_changed(Path(lean) / OUT_REL, render(facts))
    bad = [k for k, v in facts.items() if isinstance(v, Unrecognised)]
    return {"id": "E5-metabolism", "facts_changed": bool(changed), "unrecognised": bad,
            "facts": {k: (str(v) if k != "constructorProbe" or isinstance(v, Unrecognised) else f"{len(v)} rows") for k, v in facts.items()}}
