"""E5 (metabolism part): the constants of ATP_Store's metabolic-state classifier -> lean/Operon/Gen/MetabolismConsts.lean.

Pure `ast` analysis of operon_ai/state/metabolism.py (nothing is imported).  Facts:

  starving / conserving / feasting   class attributes STARVING_THRESHOLD, CONSERVING_THRESHOLD, FEASTING_THRESHOLD
                                     (exact rationals: a float literal is read through its shortest repr, 0.1 = 1/10)
  debtWeight                         the constant K of `ratio -= (self._debt / total_capacity) * K` in _update_state
  chain                              the classification chain of _update_state in source order:
                                     (comparison operator, threshold attribute, MetabolicState member) per `if/elif`,
  elseState                          the member assigned in the final `else`

Fail closed: a fact whose shape is not recognised is emitted as `none` / `[]` / "?", which makes
`c04_classifier_constants_as_modelled` fail (and the driver fall back to a classifier that cannot agree).
"""
from __future__ import annotations

import ast
from fractions import Fraction
from pathlib import Path

OUT_REL = "Operon/Gen/MetabolismConsts.lean"
ATTRS = {"starving": "STARVING_THRESHOLD", "conserving": "CONSERVING_THRESHOLD", "feasting": "FEASTING_THRESHOLD"}
OPS = {ast.LtE: "le", ast.Lt: "lt", ast.GtE: "ge", ast.Gt: "gt", ast.Eq: "eq", ast.NotEq: "ne"}


class Unrecognised(Exception):
    pass


def _num(node) -> Fraction:
    if isinstance(node, ast.Constant) and isinstance(node.value, (int, float)) and not isinstance(node.value, bool):
        f = Fraction(repr(node.value))
        if f < 0:
            raise Unrecognised("negative constant")
        return f
    raise Unrecognised(f"not a non-negative numeric literal: {ast.dump(node)[:60]}")


def _class(tree):
    for n in tree.body:
        if isinstance(n, ast.ClassDef) and n.name == "ATP_Store":
            return n
    raise Unrecognised("class ATP_Store not found")


def _class_attr(cls, name) -> Fraction:
    vals = []
    for n in cls.body:
        if isinstance(n, ast.Assign) and any(isinstance(t, ast.Name) and t.id == name for t in n.targets):
            vals.append(_num(n.value))
        if isinstance(n, ast.AnnAssign) and isinstance(n.target, ast.Name) and n.target.id == name and n.value is not None:
            vals.append(_num(n.value))
    if len(vals) != 1:
        raise Unrecognised(f"{name}: {len(vals)} class-level assignments")
    return vals[0]


def _fn(cls, name):
    for n in cls.body:
        if isinstance(n, ast.FunctionDef) and n.name == name:
            return n
    raise Unrecognised(f"ATP_Store.{name} not found")


def _debt_weight(fn) -> Fraction:
    """`ratio -= (<x> / <y>) * K` or `ratio -= K * (<x> / <y>)` or `ratio = ratio - …` — exactly one such statement"""
    found = []
    for n in ast.walk(fn):
        val = None
        if isinstance(n, ast.AugAssign) and isinstance(n.op, ast.Sub) and isinstance(n.target, ast.Name) \
                and n.target.id == "ratio":
            val = n.value
        elif isinstance(n, ast.Assign) and len(n.targets) == 1 and isinstance(n.targets[0], ast.Name) \
                and n.targets[0].id == "ratio" and isinstance(n.value, ast.BinOp) and isinstance(n.value.op, ast.Sub) \
                and isinstance(n.value.left, ast.Name) and n.value.left.id == "ratio":
            val = n.value.right
        if val is None:
            continue
        if isinstance(val, ast.BinOp) and isinstance(val.op, ast.Mult):
            for q, k in ((val.left, val.right), (val.right, val.left)):
                if isinstance(q, ast.BinOp) and isinstance(q.op, ast.Div):
                    found.append(_num(k))
                    break
            else:
                raise Unrecognised("debt term is not (a / b) * K")
        elif isinstance(val, ast.BinOp) and isinstance(val.op, ast.Div):
            found.append(Fraction(1))
        else:
            raise Unrecognised("debt term is not (a / b) * K")
    if len(found) != 1:
        raise Unrecognised(f"{len(found)} debt-term statements")
    return found[0]


def _state_assigned(body) -> str:
    """the single statement `self._state = MetabolicState.X` of a branch -> 'x'"""
    if len(body) == 1 and isinstance(body[0], ast.Assign) and len(body[0].targets) == 1:
        t, v = body[0].targets[0], body[0].value
        if isinstance(t, ast.Attribute) and t.attr == "_state" and isinstance(v, ast.Attribute) \
                and isinstance(v.value, ast.Name) and v.value.id == "MetabolicState":
            return v.attr.lower()
    raise Unrecognised("branch is not a single `self._state = MetabolicState.X`")


def _chain(fn):
    """the if/elif/else chain comparing `ratio` with self.<THRESHOLD> -> ([(op, attr, state)], else_state)"""
    heads = [n for n in fn.body if isinstance(n, ast.If) and isinstance(n.test, ast.Compare)
             and isinstance(n.test.left, ast.Name) and n.test.left.id == "ratio"]
    if len(heads) != 1:
        raise Unrecognised(f"{len(heads)} classification chains")
    out = []
    node = heads[0]
    while True:
        t = node.test
        if not (isinstance(t, ast.Compare) and len(t.ops) == 1 and isinstance(t.left, ast.Name) and t.left.id == "ratio"
                and type(t.ops[0]) in OPS and isinstance(t.comparators[0], ast.Attribute)
                and isinstance(t.comparators[0].value, ast.Name) and t.comparators[0].value.id == "self"):
            raise Unrecognised("chain test is not `ratio <op> self.<ATTR>`")
        out.append((OPS[type(t.ops[0])], t.comparators[0].attr, _state_assigned(node.body)))
        if len(node.orelse) == 1 and isinstance(node.orelse[0], ast.If):
            node = node.orelse[0]
            continue
        return out, _state_assigned(node.orelse)


def extract_facts(repo: Path) -> dict:
    names = list(ATTRS) + ["debtWeight", "chain"]
    try:
        tree = ast.parse((repo / "operon_ai" / "state" / "metabolism.py").read_text())
        cls = _class(tree)
    except Exception as e:  # noqa
        return {n: Unrecognised(f"cannot read metabolism.py: {e!r}") for n in names}
    facts = {}

    def guard(name, thunk):
        try:
            facts[name] = thunk()
        except Unrecognised as e:
            facts[name] = e
        except Exception as e:  # noqa
            facts[name] = Unrecognised(repr(e))
    for k, attr in ATTRS.items():
        guard(k, lambda attr=attr: _class_attr(cls, attr))
    guard("debtWeight", lambda: _debt_weight(_fn(cls, "_update_state")))
    guard("chain", lambda: _chain(_fn(cls, "_update_state")))
    return facts


def render(facts: dict) -> str:
    def rat(v):
        if isinstance(v, Unrecognised):
            return f"none  -- UNRECOGNISED: {str(v)[:100]}"
        return f"some ({v.numerator}, {v.denominator})"
    lines = ["/- GENERATED by harness/vf/extract/e5_metabolism.py from operon_ai/state/metabolism.py — do not edit. -/",
             "namespace Operon.Gen.Metabolism", ""]
    for k in ATTRS:
        lines.append(f"/-- ATP_Store.{ATTRS[k]} as an exact fraction (numerator, denominator) -/")
        lines.append(f"def {k} : Option (Nat × Nat) := {rat(facts[k])}")
    lines.append("/-- the constant K of `ratio -= (self._debt / total_capacity) * K` -/")
    lines.append(f"def debtWeight : Option (Nat × Nat) := {rat(facts['debtWeight'])}")
    ch = facts["chain"]
    lines.append("/-- the classification chain of `_update_state`: (comparison of `ratio` with, threshold attribute, state) -/")
    if isinstance(ch, Unrecognised):
        lines.append(f"def chain : List (String × String × String) := []  -- UNRECOGNISED: {str(ch)[:100]}")
        lines.append('def elseState : String := "?"')
    else:
        items = ", ".join(f'("{op}", "{attr}", "{st}")' for (op, attr, st) in ch[0])
        lines.append(f"def chain : List (String × String × String) := [{items}]")
        lines.append(f'def elseState : String := "{ch[1]}"')
    lines += ["", "end Operon.Gen.Metabolism", ""]
    return "\n".join(lines)


def run(repo: Path, lean: Path, write_if_changed) -> dict:
    facts = extract_facts(repo)
    changed = write_if_changed(lean / OUT_REL, render(facts))
    bad = [k for k, v in facts.items() if isinstance(v, Unrecognised)]
    return {"id": "E5-metabolism", "facts_changed": bool(changed), "unrecognised": bad,
            "facts": {k: (str(v) if not isinstance(v, tuple) else repr(v)) for k, v in facts.items()}}
