"""py2lean (circuit breaker): translate the Python AST of the breaker methods of CoherentFeedForwardLoop
(operon_ai/topology/loops.py, as it is NOW) into Lean definitions over the model's `Breaker` state, regenerated into
lean/Operon/Gen/BreakerTranslated.lean on every run of the C08 check.

Translated (each proved equal to the hand-written model function by `c08_translation_agrees_<name>`):
  _check_circuit            -> Tr.check_circuit  cfg now b : Breaker × Bool     (state after, request let in?)
  _record_success           -> Tr.record_success cfg now b : Breaker
  _record_failure           -> Tr.record_failure cfg now b : Breaker
  reset_circuit_breaker     -> Tr.reset_circuit_breaker cfg now b : Breaker
  get_circuit_breaker_stats -> Tr.stats b : CState × Nat × Nat × Option Nat × Option Nat × Nat
                               (the fields of CircuitBreakerStats in the order the dataclass declares them)
  run(): the entry block `if self.enable_circuit_breaker: if not self._check_circuit(): … return`
                            -> Tr.run_entry cfg now b : Breaker × Bool          (state after, request let in?)
         the breaker-update block `if result.success and not result.blocked: … elif …: … else: …`
                            -> Tr.run_update cfg now b success blocked z y : Breaker
         plus three structural facts about run(): the entry block precedes the cache lookup and the agents
         (`Tr.run_entry_first`), the `except` handler of the agent calls starts with `self._record_failure()`
         (`Tr.run_exception_records_failure`), and no other statement of run() calls a breaker method or writes a
         breaker field (`Tr.run_other_breaker_sites`, a count).

Supported subset — nothing more:
  * assignments / `+=` to `self.<breaker field>`; `with self._lock:` is transparent; `pass`; docstrings;
  * `if/elif/else` over: comparisons (== != < <= > >=) on ints / enum members / verdict literals, `is None` /
    `is not None`, `x in (a, b)` / `x not in (a, b)`, truthiness of an optional timestamp or of a bool, and / or / not;
  * `datetime.now()` -> the model clock `now`; timestamp - timestamp -> microseconds (Int); comparison of such a
    difference (or its `.total_seconds()`) with `self.recovery_timeout` (or its `.total_seconds()`) -> integer
    comparison in microseconds; the value of an optional timestamp may only be used to the right of an `and` whose
    left operand tests that same attribute for truthiness / `is not None`;
  * early `return` (of a bool expression, or of nothing);
  * `self._record_success()` / `self._record_failure()` / `self._check_circuit()` -> the translated method;
  * dropped: console `print`, `self._record_result(...)` (audit log; checked not to touch the breaker), local
    `result = LoopResult(...)` — each only when its arguments are call-free —, and any `if` all of whose branches consist of dropped statements and whose test is
    call-free (`if not self.silent: print(...)`).
Anything else: the definition becomes `untranslatable "<construct (line)>"` (a default value), which makes the
agreement theorem fail (fail closed).  Harmless rewrites inside the subset (reordered independent assignments,
`elif` vs nested `if`, `!=` vs `not ==`, `.total_seconds()` on both sides, a membership test spelled as two
comparisons, …) leave the theorems provable by the same proofs.
"""
from __future__ import annotations

import ast
from pathlib import Path

CLASS = "CoherentFeedForwardLoop"
REL = "operon_ai/topology/loops.py"
OUT = "Operon/Gen/BreakerTranslated.lean"

FIELDS = {"_circuit_state": ("cstate", "cstate"), "_failure_count": ("failures", "nat"),
          "_success_count": ("successes", "nat"), "_last_failure": ("lastFailure", "otime"),
          "_last_success": ("lastSuccess", "otime"), "_trips_count": ("trips", "nat"),
          "_total_errors": ("totalErrors", "nat")}
CFG = {"failure_threshold": ("cfg.threshold", "int"), "recovery_timeout": ("cfg.timeout", "dur"),
       "enable_circuit_breaker": ("cfg.breakerOn", "bool")}
STATES = {"CLOSED": "CState.closed", "OPEN": "CState.opened", "HALF_OPEN": "CState.halfOpen"}
VERDICTS = {"EXECUTE": "Cls.execute", "PERMIT": "Cls.permit", "BLOCK": "Cls.block", "FAILURE": "Cls.failure"}
STATS_FIELDS = {"state": "cstate", "failure_count": "nat", "success_count": "nat", "last_failure": "otime",
                "last_success": "otime", "trips_count": "nat"}
BREAKER_METHODS = {"_check_circuit", "_record_success", "_record_failure", "reset_circuit_breaker"}
LEAN_NAME = {"_check_circuit": "check_circuit", "_record_success": "record_success",
             "_record_failure": "record_failure", "reset_circuit_breaker": "reset_circuit_breaker"}


class Unsupported(Exception):
    pass


def bad(node, what):
    raise Unsupported(f"{what} (line {getattr(node, 'lineno', '?')})")


def is_self(node, attr=None):
    return (isinstance(node, ast.Attribute) and isinstance(node.value, ast.Name) and node.value.id == "self"
            and (attr is None or node.attr == attr))


def self_call(node, name=None):
    return (isinstance(node, ast.Call) and is_self(node.func) and (name is None or node.func.attr == name)
            and not node.args and not node.keywords)


def has_call(node):
    return any(isinstance(n, ast.Call) for n in ast.walk(node))


class Tr:
    def __init__(self, src):
        tree = ast.parse(src)
        cls = [n for n in tree.body if isinstance(n, ast.ClassDef) and n.name == CLASS]
        if len(cls) != 1:
            raise Unsupported(f"class {CLASS} not found exactly once")
        self.fns = {n.name: n for n in cls[0].body if isinstance(n, ast.FunctionDef)}
        st = [n for n in tree.body if isinstance(n, ast.ClassDef) and n.name == "CircuitBreakerStats"]
        self.stats_order = ([a.target.id for a in st[0].body if isinstance(a, ast.AnnAssign) and isinstance(a.target, ast.Name)]
                            if len(st) == 1 else None)
        self.mode = "unit"
        self.check_record_result()

    def check_record_result(self):
        fn = self.fns.get("_record_result")
        if fn is None:
            return
        for n in ast.walk(fn):
            if is_self(n) and n.attr in FIELDS and isinstance(n.ctx, (ast.Store, ast.Del)):
                raise Unsupported(f"_record_result writes self.{n.attr}")
            if isinstance(n, ast.Call) and is_self(n.func) and n.func.attr in BREAKER_METHODS:
                raise Unsupported(f"_record_result calls self.{n.func.attr}")

    # ------------------------------------------------------------------------------------------ values
    def val(self, n, env):
        """value expression -> (lean code, type)"""
        if isinstance(n, ast.Constant):
            if isinstance(n.value, bool):
                return ("true" if n.value else "false"), "bool"
            if isinstance(n.value, int) and n.value >= 0:
                return f"({n.value} : Nat)", "nat"
            if isinstance(n.value, str) and n.value in VERDICTS and env.get("run"):
                return VERDICTS[n.value], "cls"
            bad(n, f"constant {n.value!r}")
        if is_self(n):
            if n.attr in FIELDS:
                lean, t = FIELDS[n.attr]
                if t == "otime" and lean in env["bound"]:
                    return env["bound"][lean], "time"
                return f"b.{lean}", t
            if n.attr in CFG:
                return CFG[n.attr]
            bad(n, f"self.{n.attr}")
        if (isinstance(n, ast.Attribute) and isinstance(n.value, ast.Name) and n.value.id == "CircuitState"
                and n.attr in STATES):
            return STATES[n.attr], "cstate"
        if (isinstance(n, ast.Call) and isinstance(n.func, ast.Attribute) and n.func.attr == "now"
                and isinstance(n.func.value, ast.Name) and n.func.value.id == "datetime" and not n.args and not n.keywords):
            return "now", "time"
        if (isinstance(n, ast.Call) and isinstance(n.func, ast.Attribute) and n.func.attr == "total_seconds"
                and not n.args and not n.keywords):
            c, t = self.val(n.func.value, env)
            if t != "dur":
                bad(n, f"total_seconds() of a {t}")
            return c, "secs"
        if isinstance(n, ast.BinOp) and isinstance(n.op, ast.Sub):
            (a, ta), (b, tb) = self.val(n.left, env), self.val(n.right, env)
            if ta == "time" and tb == "time":
                return f"(({a} : Int) - ({b} : Int))", "dur"
            if ta == "otime" or tb == "otime":
                bad(n, "arithmetic on an optional timestamp that is not guarded by a truthiness test")
            bad(n, f"{ta} - {tb}")
        if isinstance(n, ast.BinOp) and isinstance(n.op, ast.Add):
            (a, ta), (b, tb) = self.val(n.left, env), self.val(n.right, env)
            if ta == tb == "nat":
                return f"({a} + {b})", "nat"
            bad(n, f"{ta} + {tb}")
        if env.get("run") and isinstance(n, ast.Attribute) and isinstance(n.value, ast.Name):
            key = (n.value.id, n.attr)
            m = {("result", "success"): ("success", "bool"), ("result", "blocked"): ("blocked", "bool"),
                 ("z_out", "action_type"): ("z", "cls"), ("y_out", "action_type"): ("y", "cls")}
            if key in m:
                return m[key]
        if isinstance(n, ast.Name) and n.id in env["locals"]:
            return env["locals"][n.id]
        bad(n, f"expression {ast.unparse(n)[:60]}")

    def num2(self, a, b, node):
        (ca, ta), (cb, tb) = a, b
        if ta == tb and ta in ("nat", "int", "dur", "secs", "time"):
            return ca, cb
        if {ta, tb} == {"nat", "int"}:
            f = lambda c, t: c if t == "int" else f"(({c} : Nat) : Int)"
            return f(ca, ta), f(cb, tb)
        bad(node, f"comparison of {ta} with {tb}")

    # ------------------------------------------------------------------------------------------ conditions
    def truthy_opt(self, n, env):
        """if `n` tests an optional timestamp attribute for presence, its lean field"""
        if is_self(n) and n.attr in FIELDS and FIELDS[n.attr][1] == "otime" and FIELDS[n.attr][0] not in env["bound"]:
            return FIELDS[n.attr][0]
        if (isinstance(n, ast.Compare) and len(n.ops) == 1 and isinstance(n.ops[0], ast.IsNot)
                and isinstance(n.comparators[0], ast.Constant) and n.comparators[0].value is None):
            return self.truthy_opt(n.left, env)
        return None

    def cond(self, n, env):
        """boolean expression -> lean code of type Bool"""
        if isinstance(n, ast.BoolOp):
            vals = list(n.values)
            if isinstance(n.op, ast.And):
                f = self.truthy_opt(vals[0], env)
                if f is not None and len(vals) >= 2:
                    env2 = dict(env, bound=dict(env["bound"], **{f: f"t_{f}"}))
                    rest = vals[1] if len(vals) == 2 else ast.BoolOp(op=ast.And(), values=vals[1:])
                    return f"(match b.{f} with | some t_{f} => {self.cond(rest, env2)} | none => false)"
                return "(" + " && ".join(self.cond(v, env) for v in vals) + ")"
            return "(" + " || ".join(self.cond(v, env) for v in vals) + ")"
        if isinstance(n, ast.UnaryOp) and isinstance(n.op, ast.Not):
            return f"(!{self.cond(n.operand, env)})"
        if isinstance(n, ast.Compare):
            if len(n.ops) != 1:
                bad(n, "chained comparison")
            op, l, r = n.ops[0], n.left, n.comparators[0]
            if isinstance(op, (ast.Is, ast.IsNot)):
                if not (isinstance(r, ast.Constant) and r.value is None):
                    bad(n, "`is` with something other than None")
                c, t = self.val(l, dict(env, bound={}))
                if t != "otime":
                    bad(n, f"`is None` on a {t}")
                return f"{c}.isNone" if isinstance(op, ast.Is) else f"{c}.isSome"
            if isinstance(op, (ast.In, ast.NotIn)):
                if not isinstance(r, (ast.Tuple, ast.List, ast.Set)) or not r.elts:
                    bad(n, "membership in something other than a literal tuple")
                (cl, tl) = self.val(l, env)
                parts = []
                for e in r.elts:
                    ce, te = self.val(e, env)
                    if te != tl or tl not in ("cls", "cstate", "nat"):
                        bad(n, f"membership of a {tl} among {te}")
                    parts.append(f"decide ({cl} = {ce})")
                inner = "(" + " || ".join(parts) + ")"
                return inner if isinstance(op, ast.In) else f"(!{inner})"
            a, b = self.val(l, env), self.val(r, env)
            if isinstance(op, (ast.Eq, ast.NotEq)):
                if a[1] == b[1] and a[1] in ("cstate", "cls", "bool"):
                    ca, cb = a[0], b[0]
                else:
                    ca, cb = self.num2(a, b, n)
                return f"decide ({ca} = {cb})" if isinstance(op, ast.Eq) else f"(!decide ({ca} = {cb}))"
            ca, cb = self.num2(a, b, n)
            sym = {ast.Lt: "<", ast.LtE: "≤", ast.Gt: ">", ast.GtE: "≥"}.get(type(op))
            if sym is None:
                bad(n, f"comparison {type(op).__name__}")
            return f"decide ({ca} {sym} {cb})"
        if self_call(n):
            bad(n, f"call self.{n.func.attr}() inside a condition")
        c, t = self.val(n, dict(env, bound={}))
        if t == "bool":
            return c
        if t == "otime":
            return f"{c}.isSome"
        bad(n, f"truthiness of a {t}")

    # ------------------------------------------------------------------------------------------ statements
    def dropped(self, st):
        if isinstance(st, ast.Pass):
            return True
        if isinstance(st, ast.Expr) and isinstance(st.value, ast.Constant) and isinstance(st.value.value, str):
            return True
        if isinstance(st, ast.Expr) and isinstance(st.value, ast.Call):
            f = st.value.func
            pure_args = not any(has_call(a) for a in st.value.args) and not any(has_call(k.value) for k in st.value.keywords)
            if isinstance(f, ast.Name) and f.id == "print" and pure_args:
                return True
            if is_self(f, "_record_result") and pure_args:
                return True
        if (isinstance(st, ast.Assign) and len(st.targets) == 1 and isinstance(st.targets[0], ast.Name)
                and isinstance(st.value, ast.Call) and isinstance(st.value.func, ast.Name) and st.value.func.id == "LoopResult"
                and not any(has_call(a) for a in st.value.args) and not any(has_call(k.value) for k in st.value.keywords)):
            return True
        if isinstance(st, ast.If) and not has_call(st.test):
            return all(self.dropped(x) for x in st.body) and all(self.dropped(x) for x in st.orelse)
        return False

    def finish(self, node=None):
        if self.mode in ("unit", "update"):
            return "b"
        if self.mode == "entry":
            return "(b, true)"
        bad(node or ast.Pass(), "control reaches the end of a method that must return a value")

    def body(self, stmts, env, ind):
        pad = "  " * ind
        if not stmts:
            return pad + self.finish()
        st, rest = stmts[0], stmts[1:]
        if self.dropped(st):
            return self.body(rest, env, ind)
        if isinstance(st, ast.With):
            if len(st.items) != 1 or not is_self(st.items[0].context_expr, "_lock") or st.items[0].optional_vars:
                bad(st, "with-statement other than `with self._lock:`")
            return self.body(list(st.body) + rest, env, ind)
        if isinstance(st, ast.Return):
            if self.mode == "entry":
                return pad + "(b, false)"
            if self.mode in ("unit", "update"):
                if st.value is not None and not (isinstance(st.value, ast.Constant) and st.value.value is None):
                    bad(st, "return of a value from a method modelled as returning None")
                return pad + "b"
            if self.mode == "bool":
                if st.value is None:
                    bad(st, "bare return in a method that returns a bool")
                return pad + f"(b, {self.cond(st.value, env)})"
            if self.mode == "stats":
                return pad + self.stats(st)
        if isinstance(st, ast.If):
            t = st.test
            neg = isinstance(t, ast.UnaryOp) and isinstance(t.op, ast.Not)
            inner = t.operand if neg else t
            if self_call(inner, "_check_circuit"):
                c = "(!r.2)" if neg else "r.2"
                head = f"{pad}let r := Tr.check_circuit cfg now b\n{pad}let b : Breaker := r.1\n"
            else:
                c = self.cond(t, env)
                head = ""
            return (f"{head}{pad}if {c} then\n{self.body(list(st.body) + rest, env, ind + 1)}\n"
                    f"{pad}else\n{self.body(list(st.orelse) + rest, env, ind + 1)}")
        if isinstance(st, (ast.Assign, ast.AugAssign)):
            tgt = st.targets[0] if isinstance(st, ast.Assign) and len(st.targets) == 1 else getattr(st, "target", None)
            if tgt is None or not is_self(tgt) or tgt.attr not in FIELDS:
                bad(st, f"assignment to {ast.unparse(tgt) if tgt is not None else '?'}")
            lean, ft = FIELDS[tgt.attr]
            if isinstance(st, ast.AugAssign):
                if not isinstance(st.op, ast.Add) or ft != "nat":
                    bad(st, "augmented assignment other than `+=` on a counter")
                c, t = self.val(st.value, env)
                if t != "nat":
                    bad(st, f"`+=` of a {t}")
                rhs = f"b.{lean} + {c}"
            else:
                c, t = self.val(st.value, dict(env, bound={}))
                if ft == "otime":
                    rhs = {"time": f"some {c}", "otime": c}.get(t)
                    if isinstance(st.value, ast.Constant) and st.value.value is None:
                        rhs = "none"
                    if rhs is None:
                        bad(st, f"assignment of a {t} to an optional timestamp")
                elif t == ft:
                    rhs = c
                else:
                    bad(st, f"assignment of a {t} to a {ft} field")
            return f"{pad}let b : Breaker := {{ b with {lean} := {rhs} }}\n{self.body(rest, env, ind)}"
        if isinstance(st, ast.Expr) and self_call(st.value) and st.value.func.attr in ("_record_success", "_record_failure"):
            return (f"{pad}let b : Breaker := Tr.{LEAN_NAME[st.value.func.attr]} cfg now b\n"
                    f"{self.body(rest, env, ind)}")
        bad(st, f"statement {ast.unparse(st).splitlines()[0][:60]}")

    def stats(self, st):
        v = st.value
        if not (isinstance(v, ast.Call) and isinstance(v.func, ast.Name) and v.func.id == "CircuitBreakerStats"):
            bad(st, "get_circuit_breaker_stats does not return CircuitBreakerStats(...)")
        if self.stats_order is None or self.stats_order != list(STATS_FIELDS):
            bad(st, f"fields of CircuitBreakerStats are {self.stats_order}")
        given = {}
        for i, a in enumerate(v.args):
            given[self.stats_order[i]] = a
        for k in v.keywords:
            if k.arg is None or k.arg in given:
                bad(st, "keyword arguments of CircuitBreakerStats")
            given[k.arg] = k.value
        if set(given) != set(STATS_FIELDS):
            bad(st, f"CircuitBreakerStats built from {sorted(given)}")
        env = {"bound": {}, "locals": {}}
        parts = []
        for name in self.stats_order:
            c, t = self.val(given[name], env)
            if t != STATS_FIELDS[name]:
                bad(st, f"{name} given a {t}")
            parts.append(c)
        return "(" + ", ".join(parts) + ")"

    # ------------------------------------------------------------------------------------------ methods
    def method(self, name, mode):
        fn = self.fns.get(name)
        if fn is None:
            raise Unsupported(f"method {name} not found")
        a = fn.args
        if len(a.args) != 1 or a.vararg or a.kwarg or a.kwonlyargs or a.posonlyargs or fn.decorator_list:
            bad(fn, f"signature of {name}")
        self.mode = mode
        return self.body(list(fn.body), {"bound": {}, "locals": {}}, 1)

    # ------------------------------------------------------------------------------------------ run()
    def touches_breaker(self, node):
        n = 0
        for x in ast.walk(node):
            if isinstance(x, ast.Call) and is_self(x.func) and x.func.attr in BREAKER_METHODS:
                n += 1
            if is_self(x) and x.attr in FIELDS and isinstance(x.ctx, (ast.Store, ast.Del)):
                n += 1
        return n

    def run_parts(self):
        fn = self.fns.get("run")
        if fn is None:
            raise Unsupported("run not found")
        body = list(fn.body)
        entry = [i for i, s in enumerate(body) if isinstance(s, ast.If) and is_self(s.test, "enable_circuit_breaker")]
        update = [i for i, s in enumerate(body) if isinstance(s, ast.If) and any(
            isinstance(x, ast.Call) and is_self(x.func) and x.func.attr in ("_record_success", "_record_failure")
            for x in ast.walk(s)) and i not in entry]
        tries = [i for i, s in enumerate(body) if isinstance(s, ast.Try)]
        res = {}
        # entry block
        try:
            if len(entry) != 1:
                raise Unsupported(f"{len(entry)} statements `if self.enable_circuit_breaker:` in run()")
            e = body[entry[0]]
            if e.orelse:
                bad(e, "else-branch on the breaker entry block")
            self.mode = "entry"
            res["entry"] = self.body([e], {"bound": {}, "locals": {}, "run": True}, 1)
        except Unsupported as ex:
            res["entry"] = ex
        # update block
        try:
            if len(update) != 1:
                raise Unsupported(f"{len(update)} breaker-update statements at the top level of run()")
            self.mode = "update"
            res["update"] = self.body([body[update[0]]], {"bound": {}, "locals": {}, "run": True}, 1)
        except Unsupported as ex:
            res["update"] = ex
        # structure
        first = False
        if len(entry) == 1:
            before = body[:entry[0]]
            first = all(isinstance(s, (ast.Import, ast.ImportFrom)) or self.dropped(s)
                        or (isinstance(s, ast.Assign) and not self.touches_breaker(s) and "self" not in ast.unparse(s.value)
                            and all(isinstance(t, ast.Name) for t in s.targets))
                        or (isinstance(s, ast.AugAssign) and is_self(s.target, "_total_requests"))
                        for s in before)
        res["entry_first"] = first
        handler_ok = False
        others = 0
        for i, s in enumerate(body):
            if i in entry or i in update:
                continue
            if isinstance(s, ast.Try) and len(tries) == 1:
                hs = s.handlers
                if (len(hs) == 1 and hs[0].body and isinstance(hs[0].body[0], ast.Expr)
                        and self_call(hs[0].body[0].value, "_record_failure")):
                    handler_ok = True
                    others += sum(self.touches_breaker(x) for x in hs[0].body[1:])
                else:
                    others += sum(self.touches_breaker(h) for h in hs)
                others += sum(self.touches_breaker(x) for x in s.body + s.orelse + s.finalbody)
            else:
                others += self.touches_breaker(s)
        res["handler"] = handler_ok
        res["others"] = others
        return res


def esc(e):
    return str(e).replace('"', "'").replace("\\", "/")


def render(src: str):
    info = {"unsupported": {}}
    out = ("import Operon.Model.Cffl\n"
           "/- GENERATED by harness/vf/extract/py2lean_breaker.py from operon_ai/topology/loops.py on every run; do not edit.\n"
           "   Each definition is the translation of the Python method / block of the same name (see the translator for\n"
           "   the supported subset).  `untranslatable \"...\"` marks one that left the subset: its agreement theorem\n"
           "   c08_translation_agrees_<name> then fails. -/\n"
           "namespace Operon.Cffl\nset_option linter.unusedVariables false\n\n")
    try:
        tr = Tr(src)
        glob = None
    except (Unsupported, SyntaxError) as e:
        tr, glob = None, e

    def emit(name, sig, what, fn):
        nonlocal out
        out += f"/-- translation of `{what}` -/\ndef Tr.{name} {sig} :=\n"
        try:
            if tr is None:
                raise Unsupported(str(glob))
            code = fn()
            if isinstance(code, Exception):
                raise code
            out += code + "\n\n"
        except Unsupported as e:
            info["unsupported"][name] = str(e)
            out += f'  untranslatable "{esc(e)}"\n\n'

    P = "(cfg : Cfg) (now : Nat) (b : Breaker)"
    # callees first
    emit("record_success", f"{P} : Breaker", "_record_success", lambda: tr.method("_record_success", "unit"))
    emit("record_failure", f"{P} : Breaker", "_record_failure", lambda: tr.method("_record_failure", "unit"))
    emit("check_circuit", f"{P} : Breaker × Bool", "_check_circuit", lambda: tr.method("_check_circuit", "bool"))
    emit("reset_circuit_breaker", f"{P} : Breaker", "reset_circuit_breaker",
         lambda: tr.method("reset_circuit_breaker", "unit"))
    emit("stats", "(b : Breaker) : CState × Nat × Nat × Option Nat × Option Nat × Nat", "get_circuit_breaker_stats",
         lambda: tr.method("get_circuit_breaker_stats", "stats"))
    parts = None
    if tr is not None:
        try:
            parts = tr.run_parts()
        except Unsupported as e:
            parts = {"entry": e, "update": e, "entry_first": False, "handler": False, "others": 999}
    else:
        parts = {"entry": Unsupported(str(glob)), "update": Unsupported(str(glob)), "entry_first": False,
                 "handler": False, "others": 999}
    emit("run_entry", f"{P} : Breaker × Bool", "run(): `if self.enable_circuit_breaker: …` (state after, let in?)",
         lambda: parts["entry"])
    emit("run_update", f"{P} (success blocked : Bool) (z y : Cls) : Breaker",
         "run(): the breaker-update block after the gate", lambda: parts["update"])
    b = lambda x: "true" if x else "false"
    out += ("/-- the entry block precedes everything in run() except imports, the start-time local and the request counter -/\n"
            f"def Tr.run_entry_first : Bool := {b(parts['entry_first'])}\n\n"
            "/-- the `except` handler of the two agent calls starts with `self._record_failure()` -/\n"
            f"def Tr.run_exception_records_failure : Bool := {b(parts['handler'])}\n\n"
            "/-- breaker-method calls / breaker-field writes in run() outside the entry block, the handler's first statement\n"
            "    and the update block -/\n"
            f"def Tr.run_other_breaker_sites : Nat := {parts['others']}\n\n")
    out += "end Operon.Cffl\n"
    info["structure"] = {k: parts[k] for k in ("entry_first", "handler", "others")}
    return out, info


def run(repo: Path, lean_dir: Path, write_if_changed) -> list[dict]:
    try:
        src = (Path(repo) / REL).read_text()
    except OSError:
        src = ""
    text, info = render(src)
    changed = write_if_changed(Path(lean_dir) / OUT, text)
    return [{"id": "py2lean-breaker", "file": OUT, "facts_changed": bool(changed), "unsupported": info["unsupported"],
             "structure": info.get("structure")}]


if __name__ == "__main__":
    import sys
    root = Path(sys.argv[1] if len(sys.argv) > 1 else "/repo")
    t, i = render((root / REL).read_text())
    print(t)
    print(i, file=sys.stderr)
