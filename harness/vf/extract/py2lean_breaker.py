"""py2lean (circuit breaker): translate the Python AST of the breaker code of CoherentFeedForwardLoop
(operon_ai/topology/loops.py, as it is NOW) into Lean definitions over the model's `Breaker` state, regenerated into
lean/Operon/Gen/BreakerTranslated.lean on every run of the C08 check.

What is translated is found by CALL GRAPH from the public entry points, never by private method names:
  run(): the entry block (the first top-level `if` whose test reads `self.enable_circuit_breaker`)
                            -> Tr.run_entry cfg now b : Breaker × Bool          (state after, request let in?)
         the method that block asks                      -> Tr.check_circuit  cfg now b : Breaker × Bool
         the first statement of the `except` handler of the agent calls (a call of a breaker-writing method)
                                                         -> Tr.record_failure cfg now b : Breaker
         the breaker-update block (the top-level `if` after the gate that calls breaker-writing methods)
                            -> Tr.run_update cfg now b success blocked z y : Breaker
         the other breaker-writing method that block calls -> Tr.record_success cfg now b : Breaker
  reset_circuit_breaker()   -> Tr.reset_circuit_breaker cfg now b : Breaker   (extra parameters take their defaults)
  get_circuit_breaker_stats -> Tr.stats b  (the fields of CircuitBreakerStats in the order the dataclass declares them)
  plus structural facts: the entry block precedes the cache lookup and the agents (`Tr.run_entry_first`); the handler
  starts with the failure-recording call (`Tr.run_exception_records_failure`); no other statement of run() calls a
  breaker-writing method or writes a breaker field (`Tr.run_other_breaker_sites`); no method outside the call graph of
  the entry points writes a breaker field (`Tr.other_breaker_writers`); the `on_block` / `on_permit` callbacks are reached
  only from top-level statements of run() that come AFTER the breaker-update block - not from the entry block, not from
  the `try` around the agent calls or its handler, not from the update block itself (`Tr.run_callbacks_after_update`):
  a callback that raises cannot keep an outcome from being counted.
Each is proved equal to the hand-written model by `c08_translation_agrees_<name>`.

Supported subset — nothing more:
  * assignments / `+=` to `self.<breaker field>`; `with self._lock:` is transparent; `pass`; docstrings; annotations;
  * `if/elif/else` (nested or as guard clauses with early `return`) over: comparisons (== != < <= > >=) on ints / enum
    members / verdict literals, `is None` / `is not None`, `x in (…)` / `not in`, truthiness of an optional timestamp or
    of a bool, and / or / not; `CONST_DICT.get(enum_value, default)` / `CONST_DICT[enum_value]`;
  * class / module constants (`self._X`, `Class._X`, `_X`) are resolved to their VALUES through the imported module
    (bool, int, enum member, verdict string, tuple of those, dict from enum members to bools) — fall-back: literal
    class-level assignments read from the AST;
  * `datetime.now()` -> the model clock `now`; timestamp - timestamp -> microseconds (Int); comparison of such a
    difference (or its `.total_seconds()`) with `self.recovery_timeout` (or its `.total_seconds()`) -> integer
    comparison in microseconds; the VALUE of an optional timestamp may only be used where a truthiness / `is not None`
    test of the same attribute dominates (to the right of `and`, in the guarded branch, or after a guard clause);
  * calls `self.m(...)` of private methods of the class, as statements or inside conditions, wherever they are defined
    and whatever they are called: inlined (depth <= 6); parameters bound to the translated arguments or to their
    defaults; an argument that cannot be translated (a message string, …) is opaque and may only reach no-ops;
  * the update block of run() may be an `if` or ONE call statement of a helper (`self._update_circuit(result, z_out,
    y_out)`): the helper is inlined with its parameters bound to the request's `result` / `z_out` / `y_out` objects;
  * a local bound to a call-free value / condition (`vetoed = z_out.action_type == "BLOCK" or …`) becomes a Lean `let` at
    that point;
  * no-ops: console `print`, `logger.*` / `logging.*` calls, `self._record_result(...)` (audit log; checked not to
    touch the breaker), a local bound to `LoopResult(...)`, a fresh local bound to a call-free / pure-formatting
    expression (a message looked up in a table; using it in a condition later is `unknown name`: fail closed) — each
    only when its arguments are free of calls other than pure formatting (`.format`, `str`, `repr`, `type`, `len`, `.get`, `.total_seconds`, …) — and any `if` all of
    whose branches are no-ops and whose test is free of other calls.
Anything else: the definition becomes `untranslatable "<construct (line)>"` (a default value), which makes its
agreement theorem fail (fail closed).
"""
from __future__ import annotations

import ast
import enum
from pathlib import Path

CLASS = "CoherentFeedForwardLoop"
REL = "operon_ai/topology/loops.py"
OUT = "Operon/Gen/BreakerTranslated.lean"

FIELDS = {"_circuit_state": ("cstate", "cstate"), "_failure_count": ("failures", "nat"),
          "_success_count": ("successes", "nat"), "_last_failure": ("lastFailure", "otime"),
          "_last_success": ("lastSuccess", "otime"), "_trips_count": ("trips", "nat"),
          "_total_errors": ("totalErrors", "nat")}
CFG = {"failure_threshold": ("cfg.threshold", "int"), "recovery_timeout": ("cfg.timeout", "dur"),
       "enable_circuit_breaker": ("cfg.breakerOn", "bool")}
STATES = {"CLOSED": "CState.closed", "OPEN": "CState.opened", "HALF_OPEN": "CState.halfOpen"}
VERDICTS = {"EXECUTE": "Cls.execute", "PERMIT": "Cls.permit", "BLOCK": "Cls.block", "FAILURE": "Cls.failure"}
STATS_FIELDS = {"state": "cstate", "failure_count": "nat", "success_count": "nat", "last_failure": "otime",
                "last_success": "otime", "trips_count": "nat"}
PURE_FUNCS = {"str", "repr", "type", "len", "int", "float", "round", "bool", "format"}
PURE_ATTRS = {"format", "get", "total_seconds", "isoformat", "join", "strip", "upper", "lower", "title"}
ENTRY_POINTS = ["run", "reset_circuit_breaker", "get_circuit_breaker_stats"]
MAX_DEPTH = 6


class Unsupported(Exception):
    pass


def bad(node, what):
    raise Unsupported(f"{what} (line {getattr(node, 'lineno', '?')})")


def is_self(node, attr=None):
    return (isinstance(node, ast.Attribute) and isinstance(node.value, ast.Name) and node.value.id == "self"
            and (attr is None or node.attr == attr))


def self_call(node):
    return isinstance(node, ast.Call) and is_self(node.func)


def self_calls_in(node):
    return [n for n in ast.walk(node) if self_call(n)]


class Opaque:
    """an argument the translator cannot represent (message strings …): legal only inside no-ops"""


RUN_OBJECTS = {("result", "success"): ("success", "bool"), ("result", "blocked"): ("blocked", "bool"),
               ("z_out", "action_type"): ("z", "cls"), ("y_out", "action_type"): ("y", "cls")}


class Tr:
    def __init__(self, src, cls_obj=None):
        tree = ast.parse(src)
        cls = [n for n in tree.body if isinstance(n, ast.ClassDef) and n.name == CLASS]
        if len(cls) != 1:
            raise Unsupported(f"class {CLASS} not found exactly once")
        self.fns = {n.name: n for n in cls[0].body if isinstance(n, ast.FunctionDef)}
        self.module_fns = {n.name: n for n in tree.body if isinstance(n, (ast.FunctionDef, ast.AsyncFunctionDef))}
        st = [n for n in tree.body if isinstance(n, ast.ClassDef) and n.name == "CircuitBreakerStats"]
        self.stats_order = ([a.target.id for a in st[0].body if isinstance(a, ast.AnnAssign) and isinstance(a.target, ast.Name)]
                            if len(st) == 1 else None)
        # constants: values through the imported class when available, else literal class / module level assignments
        self.consts = {}
        for body in (tree.body, cls[0].body):
            for n in body:
                if isinstance(n, ast.Assign) and len(n.targets) == 1 and isinstance(n.targets[0], ast.Name):
                    try:
                        self.consts[n.targets[0].id] = ast.literal_eval(n.value)
                    except Exception:
                        pass
        if cls_obj is not None:
            import sys
            mod = sys.modules.get(cls_obj.__module__)
            for k, v in list(vars(mod).items() if mod else []) + list(vars(cls_obj).items()):
                if not k.startswith("__") and not callable(v) and not isinstance(v, (property, staticmethod, classmethod)):
                    self.consts[k] = v
        self.mode = "unit"
        self.depth = 0
        self.roles = {}           # python method name -> Tr.<role>
        # which methods write breaker fields (directly or through calls)
        direct = {m for m, fn in self.fns.items() if any(
            is_self(x) and x.attr in FIELDS and isinstance(x.ctx, (ast.Store, ast.Del)) for x in ast.walk(fn))}
        calls = {m: {c.func.attr for c in self_calls_in(fn)} for m, fn in self.fns.items()}
        self.writers = set(direct)
        changed = True
        while changed:
            changed = False
            for m in self.fns:
                if m not in self.writers and calls[m] & self.writers:
                    self.writers.add(m)
                    changed = True
        self.calls = calls
        self.direct_writers = direct
        if "_record_result" in self.writers:
            raise Unsupported("_record_result touches the breaker")

    # ------------------------------------------------------------------------------------------ constants
    def const(self, name, node):
        if name not in self.consts:
            bad(node, f"unknown name {name}")
        return self.consts[name]

    def const_name(self, n):
        """`self._X` / `Class._X` / `_X` naming a constant (not a breaker field / config attribute)"""
        if isinstance(n, ast.Attribute) and isinstance(n.value, ast.Name) and n.value.id in ("self", CLASS, "cls"):
            if n.attr not in FIELDS and n.attr not in CFG and n.attr in self.consts:
                return n.attr
        if isinstance(n, ast.Name) and n.id in self.consts:
            return n.id
        return None

    def pyval(self, v, node, env):
        """python constant value -> (lean code, type)"""
        if isinstance(v, bool):
            return ("true" if v else "false"), "bool"
        if isinstance(v, int) and v >= 0:
            return f"({v} : Nat)", "nat"
        if isinstance(v, enum.Enum) and type(v).__name__ == "CircuitState" and v.name in STATES:
            return STATES[v.name], "cstate"
        if isinstance(v, str) and v in VERDICTS and (env.get("run") or env.get("objs")):
            return VERDICTS[v], "cls"
        if isinstance(v, (tuple, list, set, frozenset)):
            return [self.pyval(e, node, env) for e in (sorted(v, key=repr) if isinstance(v, (set, frozenset)) else v)], "tuple"
        if isinstance(v, dict):
            return v, "dict"
        bad(node, f"constant value {v!r:.40}")

    # ------------------------------------------------------------------------------------------ values
    def val(self, n, env):
        """value expression -> (lean code, type)"""
        if isinstance(n, ast.Constant):
            if n.value is None:
                return "none", "none"
            return self.pyval(n.value, n, env)
        if isinstance(n, ast.Name) and n.id in env["locals"]:
            v = env["locals"][n.id]
            if v is Opaque:
                bad(n, f"use of the opaque argument {n.id}")
            if v[1] == "obj":
                bad(n, f"use of the request object {n.id} as a value")
            return v
        if is_self(n) and n.attr in FIELDS:
            lean, t = FIELDS[n.attr]
            if t == "otime" and lean in env["bound"]:
                return env["bound"][lean], "time"
            return f"b.{lean}", t
        if is_self(n) and n.attr in CFG:
            return CFG[n.attr]
        cn = self.const_name(n)
        if cn is not None:
            return self.pyval(self.const(cn, n), n, env)
        if isinstance(n, (ast.Tuple, ast.List, ast.Set)):
            return [self.val(e, env) for e in n.elts], "tuple"
        if (isinstance(n, ast.Attribute) and isinstance(n.value, ast.Name) and n.value.id == "CircuitState"
                and n.attr in STATES):
            return STATES[n.attr], "cstate"
        if (isinstance(n, ast.Call) and isinstance(n.func, ast.Attribute) and n.func.attr == "now"
                and isinstance(n.func.value, ast.Name) and n.func.value.id == "datetime" and not n.args and not n.keywords):
            return "now", "time"
        if (isinstance(n, ast.Call) and isinstance(n.func, ast.Attribute) and n.func.attr == "total_seconds"
                and not n.args and not n.keywords):
            c, t = self.val(n.func.value, env)
            if t != "dur":
                bad(n, f"total_seconds() of a {t}")
            return c, "secs"
        # CONST_DICT.get(key, default)  /  CONST_DICT[key]
        if (isinstance(n, ast.Call) and isinstance(n.func, ast.Attribute) and n.func.attr == "get"
                and self.const_name(n.func.value) and len(n.args) in (1, 2) and not n.keywords):
            return self.lookup(n, self.const(self.const_name(n.func.value), n), n.args[0],
                               n.args[1] if len(n.args) == 2 else ast.Constant(value=None), env)
        if isinstance(n, ast.Subscript) and self.const_name(n.value):
            return self.lookup(n, self.const(self.const_name(n.value), n), n.slice, None, env)
        if isinstance(n, ast.BinOp) and isinstance(n.op, ast.Sub):
            (a, ta), (b, tb) = self.val(n.left, env), self.val(n.right, env)
            if ta == "time" and tb == "time":
                return f"(({a} : Int) - ({b} : Int))", "dur"
            if ta == "otime" or tb == "otime":
                bad(n, "arithmetic on an optional timestamp that is not guarded by a truthiness test")
            bad(n, f"{ta} - {tb}")
        if isinstance(n, ast.BinOp) and isinstance(n.op, ast.Add):
            (a, ta), (b, tb) = self.val(n.left, env), self.val(n.right, env)
            if ta == tb == "nat":
                return f"({a} + {b})", "nat"
            bad(n, f"{ta} + {tb}")
        if isinstance(n, ast.Attribute) and isinstance(n.value, ast.Name):
            base = n.value.id
            loc = env["locals"].get(base)
            if loc is not None and loc is not Opaque and loc[1] == "obj":      # a parameter bound to a request object
                base = loc[0]
            elif loc is not None or not env.get("run"):
                base = None
            if (base, n.attr) in RUN_OBJECTS:
                return RUN_OBJECTS[(base, n.attr)]
        bad(n, f"expression {ast.unparse(n)[:60]}")

    def lookup(self, node, d, key, default, env):
        if not isinstance(d, dict) or not d:
            bad(node, "lookup in something that is not a constant dict")
        kc, kt = self.val(key, env)
        items = [(self.pyval(k, node, env), self.pyval(v, node, env)) for k, v in d.items()]
        vt = {t for (_, (_, t)) in items}
        if any(t != kt for ((_, t), _) in items) or len(vt) != 1 or kt != "cstate":
            bad(node, "dict lookup with keys / values of unsupported types")
        vt = vt.pop()
        if default is None or (isinstance(default, ast.Constant) and default.value is None):
            if {c for ((c, _), _) in items} != set(STATES.values()):
                bad(node, "dict lookup without default on an incomplete dict")
            dc = items[-1][1][0]
        else:
            dc, dt = self.val(default, env)
            if dt != vt:
                bad(node, "dict lookup default of another type")
        code = dc
        for ((k, _), (v, _)) in reversed(items):
            code = f"(if decide ({kc} = {k}) then {v} else {code})"
        return code, vt

    def num2(self, a, b, node):
        (ca, ta), (cb, tb) = a, b
        if ta == tb and ta in ("nat", "int", "dur", "secs", "time"):
            return ca, cb
        if {ta, tb} == {"nat", "int"}:
            f = lambda c, t: c if t == "int" else f"(({c} : Nat) : Int)"
            return f(ca, ta), f(cb, tb)
        bad(node, f"comparison of {ta} with {tb}")

    # ------------------------------------------------------------------------------------------ conditions
    def opt_test(self, n, env):
        """(lean field, positive?) if `n` tests an optional timestamp attribute for presence / absence"""
        if is_self(n) and n.attr in FIELDS and FIELDS[n.attr][1] == "otime" and FIELDS[n.attr][0] not in env["bound"]:
            return FIELDS[n.attr][0], True
        if isinstance(n, ast.UnaryOp) and isinstance(n.op, ast.Not):
            r = self.opt_test(n.operand, env)
            return (r[0], not r[1]) if r else None
        if (isinstance(n, ast.Compare) and len(n.ops) == 1 and isinstance(n.ops[0], (ast.Is, ast.IsNot))
                and isinstance(n.comparators[0], ast.Constant) and n.comparators[0].value is None):
            r = self.opt_test(n.left, env)
            if r and r[1]:
                return r[0], isinstance(n.ops[0], ast.IsNot)
        return None

    def cond(self, n, env):
        """call-free boolean expression -> lean code of type Bool"""
        if isinstance(n, ast.BoolOp):
            vals = list(n.values)
            if isinstance(n.op, ast.And):
                r = self.opt_test(vals[0], env)
                if r is not None and r[1] and len(vals) >= 2:
                    f = r[0]
                    env2 = dict(env, bound=dict(env["bound"], **{f: f"t_{f}"}))
                    rest = vals[1] if len(vals) == 2 else ast.BoolOp(op=ast.And(), values=vals[1:])
                    return f"(match b.{f} with | some t_{f} => {self.cond(rest, env2)} | none => false)"
                return "(" + " && ".join(self.cond(v, env) for v in vals) + ")"
            return "(" + " || ".join(self.cond(v, env) for v in vals) + ")"
        if isinstance(n, ast.UnaryOp) and isinstance(n.op, ast.Not):
            return f"(!{self.cond(n.operand, env)})"
        if isinstance(n, ast.Compare):
            if len(n.ops) != 1:
                bad(n, "chained comparison")
            op, l, r = n.ops[0], n.left, n.comparators[0]
            if isinstance(op, (ast.Is, ast.IsNot)):
                if isinstance(r, ast.Constant) and r.value is None:
                    c, t = self.val(l, dict(env, bound={}))
                    if t != "otime":
                        bad(n, f"`is None` on a {t}")
                    return f"{c}.isNone" if isinstance(op, ast.Is) else f"{c}.isSome"
                a, b = self.val(l, env), self.val(r, env)
                if a[1] == b[1] == "cstate":       # identity of enum members is equality
                    return f"decide ({a[0]} = {b[0]})" if isinstance(op, ast.Is) else f"(!decide ({a[0]} = {b[0]}))"
                bad(n, "`is` on something other than None / enum members")
            if isinstance(op, (ast.In, ast.NotIn)):
                (cl, tl) = self.val(l, env)
                elts, tt = self.val(r, env)
                if tt != "tuple" or not elts:
                    bad(n, "membership in something other than a tuple of constants")
                parts = []
                for (ce, te) in elts:
                    if te != tl or tl not in ("cls", "cstate", "nat"):
                        bad(n, f"membership of a {tl} among {te}")
                    parts.append(f"decide ({cl} = {ce})")
                inner = "(" + " || ".join(parts) + ")"
                return inner if isinstance(op, ast.In) else f"(!{inner})"
            a, b = self.val(l, env), self.val(r, env)
            if isinstance(op, (ast.Eq, ast.NotEq)):
                if a[1] == b[1] and a[1] in ("cstate", "cls", "bool"):
                    ca, cb = a[0], b[0]
                else:
                    ca, cb = self.num2(a, b, n)
                return f"decide ({ca} = {cb})" if isinstance(op, ast.Eq) else f"(!decide ({ca} = {cb}))"
            ca, cb = self.num2(a, b, n)
            sym = {ast.Lt: "<", ast.LtE: "≤", ast.Gt: ">", ast.GtE: "≥"}.get(type(op))
            if sym is None:
                bad(n, f"comparison {type(op).__name__}")
            return f"decide ({ca} {sym} {cb})"
        c, t = self.val(n, dict(env, bound={}))
        if t == "bool":
            return c
        if t == "otime":
            return f"{c}.isSome"
        bad(n, f"truthiness of a {t}")

    def branch(self, test, env, ind, then_k, else_k):
        """`if test: then_k else: else_k` where the test may call private methods (short-circuit order kept) and may
        guard the value of an optional timestamp for the branch it dominates"""
        pad = "  " * ind
        if isinstance(test, ast.UnaryOp) and isinstance(test.op, ast.Not) and (self_calls_in(test) or self.opt_test(test.operand, env)):
            return self.branch(test.operand, env, ind, else_k, then_k)
        if isinstance(test, ast.BoolOp) and self_calls_in(test):
            first = test.values[0]
            rest = test.values[1] if len(test.values) == 2 else ast.BoolOp(op=test.op, values=test.values[1:])
            if isinstance(test.op, ast.And):
                return self.branch(first, env, ind, lambda e, i: self.branch(rest, e, i, then_k, else_k), else_k)
            return self.branch(first, env, ind, then_k, lambda e, i: self.branch(rest, e, i, then_k, else_k))
        if self_call(test):
            head = self.call_code(test, env, ind, "bool")
            return (f"{head}{pad}let b : Breaker := r.1\n{pad}if r.2 then\n{then_k(env, ind + 1)}\n"
                    f"{pad}else\n{else_k(env, ind + 1)}")
        if self_calls_in(test):
            bad(test, "call of a method inside a comparison")
        r = self.opt_test(test, env)
        if r is not None:
            f, pos = r
            env2 = dict(env, bound=dict(env["bound"], **{f: f"t_{f}"}))
            some_k, none_k = (then_k, else_k) if pos else (else_k, then_k)
            return (f"{pad}match b.{f} with\n{pad}| some t_{f} =>\n{some_k(env2, ind + 1)}\n"
                    f"{pad}| none =>\n{none_k(env, ind + 1)}")
        return f"{pad}if {self.cond(test, env)} then\n{then_k(env, ind + 1)}\n{pad}else\n{else_k(env, ind + 1)}"

    # ------------------------------------------------------------------------------------------ calls of private methods
    def bind(self, call, fn, env):
        a = fn.args
        if a.vararg or a.kwarg or a.posonlyargs or fn.decorator_list:
            bad(fn, f"signature of {fn.name}")
        names = [x.arg for x in a.args[1:]] + [x.arg for x in a.kwonlyargs]
        defaults = dict(zip([x.arg for x in a.args[1:]][len(a.args) - 1 - len(a.defaults):], a.defaults))
        defaults.update({x.arg: d for x, d in zip(a.kwonlyargs, a.kw_defaults) if d is not None})
        given = {}
        if call is not None:
            for i, x in enumerate(call.args):
                if i >= len(a.args) - 1 or isinstance(x, ast.Starred):
                    bad(call, "arguments")
                given[a.args[1 + i].arg] = x
            for k in call.keywords:
                if k.arg is None or k.arg in given or k.arg not in names:
                    bad(call, "keyword arguments")
                given[k.arg] = k.value
        locs = {}
        for nm in names:
            src = given.get(nm, defaults.get(nm))
            if src is None:
                bad(call or fn, f"no value for parameter {nm}")
            if nm in given and isinstance(src, ast.Name):
                obj = None
                loc = env["locals"].get(src.id)
                if loc is not None and loc is not Opaque and loc[1] == "obj":
                    obj = loc[0]
                elif loc is None and env.get("run") and src.id in {k[0] for k in RUN_OBJECTS}:
                    obj = src.id
                if obj is not None:
                    locs[nm] = (obj, "obj")
                    continue
            try:
                locs[nm] = self.val(src, env if nm in given else {"bound": {}, "locals": {}})
            except Unsupported:
                if self_calls_in(src) or not self.pure(src):
                    raise
                locs[nm] = Opaque
        return locs

    def call_code(self, call, env, ind, mode):
        """`let b := …` (statement, mode unit) or `let r := …` (condition, mode bool) for a call self.m(args)"""
        pad = "  " * ind
        name = call.func.attr
        fn = self.fns.get(name)
        if fn is None:
            bad(call, f"call of self.{name} (not a method of the class)")
        if name in self.roles and not call.args and not call.keywords:
            tgt = "b : Breaker" if mode == "unit" else "r : Breaker × Bool"
            return f"{pad}let {tgt} := Tr.{self.roles[name]} cfg now b\n"
        if self.depth >= MAX_DEPTH:
            bad(call, "call depth")
        locs = self.bind(call, fn, env)
        saved = self.mode
        self.mode, self.depth = mode, self.depth + 1
        try:
            objs = any(v is not Opaque and v[1] == "obj" for v in locs.values())
            inner = self.body(list(fn.body), {"bound": {}, "locals": locs, "run": False, "objs": objs}, ind + 1)
        finally:
            self.mode, self.depth = saved, self.depth - 1
        tgt = "b : Breaker" if mode == "unit" else "r : Breaker × Bool"
        return f"{pad}let {tgt} := (\n{inner})\n"

    # ------------------------------------------------------------------------------------------ statements
    def pure(self, e):
        """free of calls other than pure formatting"""
        for n in ast.walk(e):
            if isinstance(n, ast.Call):
                f = n.func
                if isinstance(f, ast.Name) and f.id in PURE_FUNCS:
                    continue
                if isinstance(f, ast.Attribute) and f.attr in PURE_ATTRS and not is_self(f):
                    continue
                return False
        return True

    def noop(self, st, env=None):
        if isinstance(st, ast.Pass):
            return True
        if (isinstance(st, (ast.Assign, ast.AnnAssign)) and env is not None
                and (len(st.targets) == 1 if isinstance(st, ast.Assign) else st.value is not None)):
            tgt = st.targets[0] if isinstance(st, ast.Assign) else st.target
            # a FRESH local (no parameter, no earlier binding) bound to a call-free / pure-formatting expression that
            # reads no request object: it can only feed messages; a later use in a condition is an unknown name
            if (isinstance(tgt, ast.Name) and tgt.id not in env["locals"] and tgt.id not in {k[0] for k in RUN_OBJECTS}
                    and not self_calls_in(st.value) and self.pure(st.value)
                    and not any(isinstance(x, (ast.Lambda, ast.ListComp, ast.SetComp, ast.DictComp, ast.GeneratorExp,
                                               ast.Await, ast.Yield, ast.NamedExpr)) for x in ast.walk(st.value))
                    and not (isinstance(st.value, ast.Call) and isinstance(st.value.func, ast.Name)
                             and st.value.func.id == "LoopResult")):
                return True
        if isinstance(st, ast.Expr) and isinstance(st.value, ast.Constant) and isinstance(st.value.value, str):
            return True
        if isinstance(st, ast.Expr) and isinstance(st.value, ast.Call):
            f = st.value.func
            pure_args = all(self.pure(a) for a in st.value.args) and all(self.pure(k.value) for k in st.value.keywords)
            if isinstance(f, ast.Name) and f.id == "print" and pure_args:
                return True
            if is_self(f, "_record_result") and pure_args:
                return True
            if (isinstance(f, ast.Attribute) and isinstance(f.value, ast.Name) and f.value.id in ("logger", "logging", "log", "_logger", "LOGGER")
                    and pure_args):
                return True
        if (isinstance(st, ast.Assign) and len(st.targets) == 1 and isinstance(st.targets[0], ast.Name)
                and isinstance(st.value, ast.Call) and isinstance(st.value.func, ast.Name) and st.value.func.id == "LoopResult"
                and all(self.pure(a) for a in st.value.args) and all(self.pure(k.value) for k in st.value.keywords)):
            return True
        if isinstance(st, ast.If) and self.pure(st.test):
            return all(self.noop(x, env) for x in st.body) and all(self.noop(x, env) for x in st.orelse)
        return False

    @staticmethod
    def loop_result(st):
        return (isinstance(st, ast.Assign) and isinstance(st.value, ast.Call) and isinstance(st.value.func, ast.Name)
                and st.value.func.id == "LoopResult")

    def unused_later(self, st, rest):
        """the local a dropped assignment binds is used afterwards only inside dropped statements (messages)"""
        tgt = st.targets[0] if isinstance(st, ast.Assign) else st.target
        if not isinstance(tgt, ast.Name):
            return True

        def uses(node):
            return any(isinstance(x, ast.Name) and x.id == tgt.id for x in ast.walk(node))

        def ok(stmts):
            for s in stmts:
                if not uses(s):
                    continue
                if isinstance(s, ast.If) and not uses(s.test):
                    if not (ok(s.body) and ok(s.orelse)):
                        return False
                    continue
                if isinstance(s, ast.With):
                    if not ok(s.body):
                        return False
                    continue
                if not (isinstance(s, ast.Expr) and isinstance(s.value, ast.Call) and self.noop(s, {"locals": {}, "bound": {}})):
                    return False
            return True
        return ok(rest)

    def finish(self, node=None):
        if self.mode in ("unit", "update"):
            return "b"
        if self.mode == "entry":
            return "(b, true)"
        bad(node or ast.Pass(), "control reaches the end of a method that must return a value")

    def body(self, stmts, env, ind):
        pad = "  " * ind
        if not stmts:
            return pad + self.finish()
        st, rest = stmts[0], stmts[1:]
        if self.noop(st, env) and not (isinstance(st, (ast.Assign, ast.AnnAssign)) and not self.loop_result(st)
                                       and not self.unused_later(st, rest)):
            return self.body(rest, env, ind)
        if isinstance(st, ast.With):
            if len(st.items) != 1 or not is_self(st.items[0].context_expr, "_lock") or st.items[0].optional_vars:
                bad(st, "with-statement other than `with self._lock:`")
            return self.body(list(st.body) + rest, env, ind)
        if isinstance(st, ast.Return):
            if self.mode == "entry":
                return pad + "(b, false)"
            if self.mode in ("unit", "update"):
                if st.value is not None and not (isinstance(st.value, ast.Constant) and st.value.value is None):
                    bad(st, "return of a value from a method modelled as returning None")
                return pad + "b"
            if self.mode == "bool":
                if st.value is None:
                    bad(st, "bare return in a method that returns a bool")
                if self_calls_in(st.value):
                    return self.branch(st.value, env, ind, lambda e, i: "  " * i + "(b, true)", lambda e, i: "  " * i + "(b, false)")
                return pad + f"(b, {self.cond(st.value, env)})"
            if self.mode == "stats":
                return pad + self.stats(st, env)
        if isinstance(st, ast.If):
            return self.branch(st.test, env, ind, lambda e, i: self.body(list(st.body) + rest, e, i),
                               lambda e, i: self.body(list(st.orelse) + rest, e, i))
        if (isinstance(st, ast.Assign) and len(st.targets) == 1 and isinstance(st.targets[0], ast.Name)
                and st.targets[0].id not in {k[0] for k in RUN_OBJECTS} and not self_calls_in(st.value)):
            # a local bound to a call-free value / condition over the breaker state, the configuration and the request's
            # flags and verdicts: a Lean `let` at this very point (fields assigned later do not change it)
            name = st.targets[0].id
            try:
                code, t = self.val(st.value, env)
            except Unsupported:
                code, t = self.cond(st.value, env), "bool"
            lean_t = {"bool": "Bool", "nat": "Nat", "int": "Int", "cstate": "CState", "cls": "Cls", "time": "Nat", "dur": "Int"}.get(t)
            if lean_t is None or isinstance(code, list):
                bad(st, f"local {name} bound to a {t}")
            var = f"l_{name}"
            env2 = dict(env, locals=dict(env["locals"], **{name: (var, t)}))
            return f"{pad}let {var} : {lean_t} := {code}\n{self.body(rest, env2, ind)}"
        if isinstance(st, (ast.Assign, ast.AugAssign)):
            tgt = st.targets[0] if isinstance(st, ast.Assign) and len(st.targets) == 1 else getattr(st, "target", None)
            if tgt is None or not is_self(tgt) or tgt.attr not in FIELDS:
                bad(st, f"assignment to {ast.unparse(tgt) if tgt is not None else '?'}")
            lean, ft = FIELDS[tgt.attr]
            if isinstance(st, ast.AugAssign):
                if not isinstance(st.op, ast.Add) or ft != "nat":
                    bad(st, "augmented assignment other than `+=` on a counter")
                c, t = self.val(st.value, env)
                if t != "nat":
                    bad(st, f"`+=` of a {t}")
                rhs = f"b.{lean} + {c}"
            else:
                c, t = self.val(st.value, dict(env, bound={}))
                if ft == "otime":
                    rhs = {"time": f"some {c}", "otime": c, "none": "none"}.get(t)
                    if rhs is None:
                        bad(st, f"assignment of a {t} to an optional timestamp")
                elif t == ft:
                    rhs = c
                else:
                    bad(st, f"assignment of a {t} to a {ft} field")
            env2 = env
            if ft == "otime" and lean in env["bound"]:
                env2 = dict(env, bound={k: v for k, v in env["bound"].items() if k != lean})
            return f"{pad}let b : Breaker := {{ b with {lean} := {rhs} }}\n{self.body(rest, env2, ind)}"
        if isinstance(st, ast.Expr) and self_call(st.value):
            # the value of an optional seen before the call may be stale afterwards
            return self.call_code(st.value, env, ind, "unit") + self.body(rest, dict(env, bound={}), ind)
        bad(st, f"statement {ast.unparse(st).splitlines()[0][:60]}")

    def stats(self, st, env):
        v = st.value
        if not (isinstance(v, ast.Call) and isinstance(v.func, ast.Name) and v.func.id == "CircuitBreakerStats"):
            bad(st, "get_circuit_breaker_stats does not return CircuitBreakerStats(...)")
        if self.stats_order is None or self.stats_order != list(STATS_FIELDS):
            bad(st, f"fields of CircuitBreakerStats are {self.stats_order}")
        given = {}
        for i, a in enumerate(v.args):
            given[self.stats_order[i]] = a
        for k in v.keywords:
            if k.arg is None or k.arg in given:
                bad(st, "keyword arguments of CircuitBreakerStats")
            given[k.arg] = k.value
        if set(given) != set(STATS_FIELDS):
            bad(st, f"CircuitBreakerStats built from {sorted(given)}")
        parts = []
        for name in self.stats_order:
            c, t = self.val(given[name], dict(env, bound={}))
            if t != STATS_FIELDS[name]:
                bad(st, f"{name} given a {t}")
            parts.append(c)
        return "(" + ", ".join(parts) + ")"

    # ------------------------------------------------------------------------------------------ methods
    def method(self, name, mode):
        fn = self.fns.get(name)
        if fn is None:
            raise Unsupported(f"method {name} not found")
        locs = self.bind(None, fn, {"bound": {}, "locals": {}})
        self.mode, self.depth = mode, 0
        return self.body(list(fn.body), {"bound": {}, "locals": locs}, 1)

    # ------------------------------------------------------------------------------------------ run()
    def touches_breaker(self, node):
        n = 0
        for x in ast.walk(node):
            if self_call(x) and x.func.attr in self.writers:
                n += 1
            if is_self(x) and x.attr in FIELDS and isinstance(x.ctx, (ast.Store, ast.Del)):
                n += 1
        return n

    def bookkeeping_only(self, s):
        """a statement that can stand before the breaker entry block without weakening "the breaker is asked before the
        cache and the agents": an assignment to a local or to a NON-breaker attribute of self whose right-hand side calls
        nothing but pure builtins and reads no breaker field, no method, no agent and not the cache (request counters,
        statistics such as the longest prompt seen)"""
        if not isinstance(s, (ast.Assign, ast.AugAssign, ast.AnnAssign)) or self.touches_breaker(s):
            return False
        targets = s.targets if isinstance(s, ast.Assign) else [s.target]
        for t in targets:
            if not (isinstance(t, ast.Name) or (is_self(t) and t.attr not in FIELDS and t.attr not in CFG)):
                return False
        hidden = set(FIELDS) | set(CFG) | set(self.fns) | {"executor", "assessor", "_cache", "_lock", "budget"}
        for x in ast.walk(s):
            if isinstance(x, ast.Call):
                if not (isinstance(x.func, ast.Name) and x.func.id in (PURE_FUNCS | {"max", "min", "abs", "getattr"})):
                    return False
                if x.func.id == "getattr" and not (len(x.args) in (2, 3) and isinstance(x.args[1], ast.Constant)
                                                   and isinstance(x.args[1].value, str) and x.args[1].value not in hidden):
                    return False
            if is_self(x) and x.attr in hidden:
                return False
            if isinstance(x, (ast.Lambda, ast.ListComp, ast.SetComp, ast.DictComp, ast.GeneratorExp, ast.Await, ast.Yield,
                              ast.NamedExpr)):
                return False
        return True

    HOOK_ATTRS = ("on_block", "on_permit")

    def hook_methods(self):
        """methods through which a callback attribute can be reached: they read self.on_block / self.on_permit, or use
        getattr(self, <anything that is not a constant naming another attribute>), or call such a method"""
        def direct(fn):
            for x in ast.walk(fn):
                if is_self(x) and x.attr in self.HOOK_ATTRS:
                    return True
                if (isinstance(x, ast.Call) and isinstance(x.func, ast.Name) and x.func.id in ("getattr", "vars")
                        and x.args and isinstance(x.args[0], ast.Name) and x.args[0].id == "self"):
                    a = x.args[1] if len(x.args) > 1 else None
                    if not (isinstance(a, ast.Constant) and isinstance(a.value, str) and a.value not in self.HOOK_ATTRS):
                        return True
                if isinstance(x, ast.Attribute) and x.attr == "__dict__":
                    return True
            return False
        hk = {m for m, fn in self.fns.items() if m != "__init__" and direct(fn)}
        changed = True
        while changed:
            changed = False
            for m in self.fns:
                if m not in hk and m != "__init__" and self.calls[m] & hk:
                    hk.add(m)
                    changed = True
        return hk

    def touches_hooks(self, node, hk):
        for x in ast.walk(node):
            if is_self(x) and x.attr in self.HOOK_ATTRS:
                return True
            if self_call(x) and x.func.attr in hk:
                return True
            if (isinstance(x, ast.Call) and isinstance(x.func, ast.Name) and x.func.id in ("getattr", "vars")
                    and x.args and isinstance(x.args[0], ast.Name) and x.args[0].id == "self"):
                a = x.args[1] if len(x.args) > 1 else None
                if not (isinstance(a, ast.Constant) and isinstance(a.value, str) and a.value not in self.HOOK_ATTRS):
                    return True
        return False

    def analyse_run(self):
        """locate the blocks of run() and resolve the roles of the private methods by call graph"""
        fn = self.fns.get("run")
        if fn is None:
            raise Unsupported("run not found")
        body = list(fn.body)
        reads_flag = lambda t: any(is_self(x, "enable_circuit_breaker") for x in ast.walk(t))
        entry = [i for i, s in enumerate(body) if isinstance(s, ast.If) and reads_flag(s.test)]
        update = [i for i, s in enumerate(body) if i not in entry and self.touches_breaker(s)
                  and (isinstance(s, ast.If) or (isinstance(s, ast.Expr) and self_call(s.value)))]
        tries = [i for i, s in enumerate(body) if isinstance(s, ast.Try)]
        info = {"body": body, "entry": entry, "update": update, "tries": tries}
        # record_failure: first statement of the handler
        rf = None
        if len(tries) == 1:
            hs = body[tries[0]].handlers
            if (len(hs) == 1 and hs[0].body and isinstance(hs[0].body[0], ast.Expr) and self_call(hs[0].body[0].value)
                    and not hs[0].body[0].value.args and not hs[0].body[0].value.keywords
                    and hs[0].body[0].value.func.attr in self.writers):
                rf = hs[0].body[0].value.func.attr
        info["rf"] = rf
        # record_success: the other writer called in the update block
        rs = None
        if len(update) == 1:
            # (looking through helpers that only dispatch: a method that writes no breaker field itself is expanded)
            names, todo, seen = set(), [c.func.attr for c in self_calls_in(body[update[0]])], set()
            while todo:
                m = todo.pop()
                if m in seen or m not in self.writers:
                    continue
                seen.add(m)
                if m in self.direct_writers:
                    names.add(m)
                else:
                    todo.extend(self.calls.get(m, ()))
            names -= {rf}
            if len(names) == 1:
                rs = names.pop()
        info["rs"] = rs
        # check_circuit: the method the entry block asks
        cc = None
        if len(entry) == 1:
            tests = [x.test for x in ast.walk(body[entry[0]]) if isinstance(x, ast.If)]
            names = {c.func.attr for t in tests for c in self_calls_in(t)}
            if len(names) == 1:
                cc = names.pop()
        info["cc"] = cc
        return info

    def run_parts(self, info):
        body, entry, update, tries = info["body"], info["entry"], info["update"], info["tries"]
        res = {}
        try:
            if len(entry) != 1:
                raise Unsupported(f"{len(entry)} statements testing self.enable_circuit_breaker at the top level of run()")
            if body[entry[0]].orelse:
                bad(body[entry[0]], "else-branch on the breaker entry block")
            self.mode, self.depth = "entry", 0
            res["entry"] = self.body([body[entry[0]]], {"bound": {}, "locals": {}, "run": True}, 1)
        except Unsupported as ex:
            res["entry"] = ex
        try:
            if len(update) != 1:
                raise Unsupported(f"{len(update)} breaker-update statements at the top level of run()")
            self.mode, self.depth = "update", 0
            res["update"] = self.body([body[update[0]]], {"bound": {}, "locals": {}, "run": True}, 1)
        except Unsupported as ex:
            res["update"] = ex
        first = False
        if len(entry) == 1:
            before = body[:entry[0]]
            first = all(isinstance(s, (ast.Import, ast.ImportFrom)) or self.noop(s)
                        or (isinstance(s, ast.Assign) and not self.touches_breaker(s) and "self" not in ast.unparse(s.value)
                            and all(isinstance(t, ast.Name) for t in s.targets))
                        or (isinstance(s, ast.AugAssign) and is_self(s.target, "_total_requests"))
                        or self.bookkeeping_only(s)
                        for s in before)
        res["entry_first"] = first
        others = 0
        for i, s in enumerate(body):
            if i in entry or i in update:
                continue
            if isinstance(s, ast.Try) and len(tries) == 1 and info["rf"] is not None:
                h = s.handlers[0]
                others += sum(self.touches_breaker(x) for x in h.body[1:])
                others += sum(self.touches_breaker(x) for x in s.body + s.orelse + s.finalbody)
            else:
                others += self.touches_breaker(s)
        res["handler"] = info["rf"] is not None
        res["others"] = others
        # callbacks: reached only from top-level statements after the update block
        hk = self.hook_methods() - {"run"}
        after = False
        if len(update) == 1:
            sites = [i for i, s in enumerate(body) if self.touches_hooks(s, hk)]
            after = all(i > update[0] and i not in entry and i not in tries for i in sites)
            # ... and nothing the breaker methods themselves call reaches a callback
            after = after and not ({info["rf"], info["rs"], info["cc"]} & hk)
        res["callbacks_after_update"] = after
        # methods outside the call graph of the entry points that write breaker fields
        reach, todo = set(), list(ENTRY_POINTS)
        while todo:
            m = todo.pop()
            if m in reach or m not in self.fns:
                continue
            reach.add(m)
            todo.extend(self.calls.get(m, ()))
        res["outside_writers"] = sorted(m for m in self.direct_writers if m not in reach and m != "__init__")
        # module-level helper functions the class calls (e.g. the text renderer `_describe`): they stay outside the
        # translation only while they cannot reach the breaker - they are not handed `self` (nor anything reached from
        # it) and store to no attribute named like a breaker field, use no setattr / __dict__ / globals
        for m, fn in self.fns.items():
            for c in ast.walk(fn):
                if isinstance(c, ast.Call) and isinstance(c.func, ast.Name) and c.func.id in self.module_fns:
                    handed_self = any(isinstance(x, ast.Name) and x.id == "self"
                                      for a in list(c.args) + [k.value for k in c.keywords] for x in ast.walk(a))
                    g = self.module_fns[c.func.id]
                    writes = any((isinstance(x, ast.Attribute) and isinstance(x.ctx, (ast.Store, ast.Del)))
                                 or (isinstance(x, ast.Name) and x.id in ("setattr", "delattr", "globals", "vars", "eval", "exec"))
                                 or (isinstance(x, ast.Attribute) and x.attr == "__dict__")
                                 or isinstance(x, (ast.Global, ast.Nonlocal))
                                 for x in ast.walk(g))
                    if (handed_self or writes) and f"module:{c.func.id}" not in res["outside_writers"]:
                        res["outside_writers"].append(f"module:{c.func.id}")
        return res


def esc(e):
    return str(e).replace('"', "'").replace("\\", "/")


def render(src: str, cls_obj=None):
    info = {"unsupported": {}}
    out = ("import Operon.Model.Cffl\n"
           "/- GENERATED by harness/vf/extract/py2lean_breaker.py from operon_ai/topology/loops.py on every run; do not edit.\n"
           "   Each definition is the translation of the Python method / block named in its doc comment (found by call\n"
           "   graph from run / reset_circuit_breaker / get_circuit_breaker_stats; see the translator for the supported\n"
           "   subset).  `untranslatable \"...\"` marks one that left the subset: its agreement theorem\n"
           "   c08_translation_agrees_<name> then fails. -/\n"
           "namespace Operon.Cffl\nset_option linter.unusedVariables false\n\n")
    try:
        tr = Tr(src, cls_obj)
        ri = tr.analyse_run()
        glob = None
    except (Unsupported, SyntaxError) as e:
        tr, ri, glob = None, None, e

    def emit(name, sig, what, fn):
        nonlocal out
        out += f"/-- translation of {what} -/\ndef Tr.{name} {sig} :=\n"
        try:
            if tr is None:
                raise Unsupported(str(glob))
            code = fn()
            if isinstance(code, Exception):
                raise code
            out += code + "\n\n"
        except Unsupported as e:
            info["unsupported"][name] = str(e)
            out += f'  untranslatable "{esc(e)}"\n\n'

    def role(py, why):
        if py is None:
            raise Unsupported(why)
        return py

    P = "(cfg : Cfg) (now : Nat) (b : Breaker)"
    rs, rf, cc = (ri["rs"], ri["rf"], ri["cc"]) if ri else (None, None, None)
    emit("record_success", f"{P} : Breaker", f"`{rs}` (the success-recording method the update block of run() calls)",
         lambda: tr.method(role(rs, "no single success-recording method is called by the update block of run()"), "unit"))
    emit("record_failure", f"{P} : Breaker", f"`{rf}` (called first in the except handler of run())",
         lambda: tr.method(role(rf, "the except handler of run() does not start with a call of a breaker-writing method"), "unit"))
    emit("check_circuit", f"{P} : Breaker × Bool", f"`{cc}` (the method the entry block of run() asks)",
         lambda: tr.method(role(cc, "the entry block of run() does not ask exactly one method"), "bool"))
    if tr is not None:     # from here on calls of these three are references, everything else is inlined
        tr.roles = {py: nm for py, nm in ((rs, "record_success"), (rf, "record_failure"), (cc, "check_circuit"))
                    if py is not None and nm not in info["unsupported"]}
    emit("reset_circuit_breaker", f"{P} : Breaker", "`reset_circuit_breaker`",
         lambda: tr.method("reset_circuit_breaker", "unit"))
    emit("stats", "(b : Breaker) : CState × Nat × Nat × Option Nat × Option Nat × Nat", "`get_circuit_breaker_stats`",
         lambda: tr.method("get_circuit_breaker_stats", "stats"))
    if tr is not None:
        try:
            parts = tr.run_parts(ri)
        except Unsupported as e:
            parts = {"entry": e, "update": e, "entry_first": False, "handler": False, "others": 999, "outside_writers": ["?"],
                     "callbacks_after_update": False}
    else:
        parts = {"entry": Unsupported(str(glob)), "update": Unsupported(str(glob)), "entry_first": False,
                 "handler": False, "others": 999, "outside_writers": ["?"], "callbacks_after_update": False}
    emit("run_entry", f"{P} : Breaker × Bool", "run(): the entry block (state after, let in?)", lambda: parts["entry"])
    emit("run_update", f"{P} (success blocked : Bool) (z y : Cls) : Breaker",
         "run(): the breaker-update block after the gate", lambda: parts["update"])
    b = lambda x: "true" if x else "false"
    out += ("/-- the entry block precedes everything in run() except imports, the start-time local and the request counter -/\n"
            f"def Tr.run_entry_first : Bool := {b(parts['entry_first'])}\n\n"
            "/-- the `except` handler of the two agent calls starts with the failure-recording call -/\n"
            f"def Tr.run_exception_records_failure : Bool := {b(parts['handler'])}\n\n"
            "/-- breaker-writing calls / breaker-field writes in run() outside the entry block, the handler's first statement\n"
            "    and the update block -/\n"
            f"def Tr.run_other_breaker_sites : Nat := {parts['others']}\n\n"
            f"/-- methods outside the call graph of the entry points that write a breaker field: {esc(parts['outside_writers'])} -/\n"
            f"def Tr.other_breaker_writers : Nat := {len(parts['outside_writers'])}\n\n"
            "/-- the on_block / on_permit callbacks are reached only from top-level statements of run() after the breaker-update\n"
            "    block (not from the entry block, the try around the agent calls, its handler, or the breaker methods) -/\n"
            f"def Tr.run_callbacks_after_update : Bool := {b(parts['callbacks_after_update'])}\n\n")
    out += "end Operon.Cffl\n"
    info["structure"] = {k: parts[k] for k in ("entry_first", "handler", "others", "outside_writers", "callbacks_after_update")}
    info["roles"] = {"record_success": rs, "record_failure": rf, "check_circuit": cc}
    return out, info


def load_class(repo: Path):
    """the class object of the tree under test, if it is (or can be) imported from there"""
    try:
        import importlib
        import sys
        mod = sys.modules.get("operon_ai.topology.loops")
        if mod is None:
            if str(repo) not in sys.path:
                sys.path.insert(0, str(repo))
            mod = importlib.import_module("operon_ai.topology.loops")
        if not str(Path(mod.__file__).resolve()).startswith(str(Path(repo).resolve())):
            return None
        return getattr(mod, CLASS, None)
    except Exception:
        return None


def run(repo: Path, lean_dir: Path, write_if_changed) -> list[dict]:
    try:
        src = (Path(repo) / REL).read_text()
    except OSError:
        src = ""
    text, info = render(src, load_class(Path(repo)))
    changed = write_if_changed(Path(lean_dir) / OUT, text)
    return [{"id": "py2lean-breaker", "file": OUT, "facts_changed": bool(changed), "unsupported": info["unsupported"],
             "structure": info.get("structure"), "roles": info.get("roles")}]


if __name__ == "__main__":
    import sys
    import warnings
    warnings.filterwarnings("ignore")
    root = Path(sys.argv[1] if len(sys.argv) > 1 else "/repo")
    t, i = render((root / REL).read_text(), load_class(root))
    print(t)
    print(i, file=sys.stderr)
